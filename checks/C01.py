from .common import *

EXPL = ("C01 is decided by engine A as a chain of contracts from ColorPair.make_readable down to the three strategies: every function on the "
        "chain carries flag_iff (success == (CR(returned colour, background) >= required minimum)) with the minimum taken from the statement "
        "(4.5 / 3.0 / 7.0 / 4.5), proved for all inputs and all loop iterations against the callees' contracts only. 'As a CSS consumer reads it "
        "back' is the lemma READ(format_color(t,f)) = CSS(format_color(t,f)) = t, discharged exhaustively by engine D in check C06; CR == WCAG ratio "
        "by check C05. Engine E re-evaluates the same contract on the real code with an independent WCAG oracle and CSS reference parser (bounded).")


def run(args):
    ck = standard_check('C01', args, 'proof', EXPL, CHAIN, ['shape', 'valid', 'flag_iff'], extra=lambda ck, prog: roundtrip_lemma(ck, args.tier))
    ck.assume('calculate_contrast_ratio(a,b) == CR(a,b) = WCAG 2 contrast ratio, finite, in [1,21] (check C05, engines B+D)',
              'READ(rgbint_to_string t) = t; READ(format_color(t,f)) = CSS(format_color(t,f)) = t for all 2^24 t and the four reachable formats (check C06, engine D)',
              'Color.__init__ establishes: _rgb is None or an int triple in 0..255; an 8-bit int triple parses to itself (checks C14, C07)',
              'kernels are deterministic and effect-free, so they may be replaced by function symbols (check C15, engine C)',
              'the meaning of the INPUT strings (that bg_rgb is what CSS says the background string denotes) is C07/C13, not part of this closure')
    return ck.finish()


def replay(args):
    import json
    if 'format' in (json.load(open(args.replay)).get('concrete_input') or {}):
        from . import C06
        return C06.replay(args)
    from .replay import replay_make_readable
    return replay_make_readable('C01', args)
