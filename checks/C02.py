from .common import *

EXPL = ("C02 (fixing never harms) is decided by engine A: the clauses keep_if_ok (already-readable pairs are returned unchanged with True) and "
        "no_harm (contrast of the returned colour >= the original's) are postconditions on ColorPair.make_readable, check_and_fix_contrast, the three "
        "strategies and generate_accessible_color (loop invariant over a SYMBOLIC tolerance schedule), each function verified against its callees' "
        "contracts only. CR is the uninterpreted WCAG ratio symbol (its meaning is fixed by check C05). Engine E re-evaluates the same contract text "
        "on the real code with an independent WCAG oracle (bounded; not counted as proved).")


def run(args):
    ck = standard_check('C02', args, 'proof', EXPL, CHAIN[:6], ['keep_if_ok', 'no_harm', 'shape'])
    roundtrip_lemma(ck, args.tier, force_quick=True)      # the contrast that never drops is the one of the colour as read back from the returned spelling
    ck.assume('calculate_contrast_ratio(a,b) == CR(a,b) for 8-bit triples, finite, >= 1 (discharged by check C05, engines B+D)',
              'READ(rgbint_to_string t) = t and READ(format_color(t,f)) = t for all 2^24 t (discharged by check C06, engine D)',
              'Color.__init__ establishes: _rgb is None or an int triple in 0..255 (discharged by check C14)',
              'kernels are deterministic and effect-free, so they may be replaced by function symbols (discharged by check C15, engine C)')
    return ck.finish()


def replay(args):
    from .replay import replay_make_readable
    return replay_make_readable('C02', args)
