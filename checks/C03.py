import json, math, random, time
from .common import *
from vf import rtc

EXPL = ("C03 is a completeness statement about a heuristic float search under an EXISTENTIAL precondition (some colour on the text's clipped lightness line is within CIEDE2000 1.5 and clears the "
        "minimum by 0.05): its truth depends on quantitative facts about transcendental pipelines that no contract over uninterpreted kernels can carry and that the installed solvers cannot decide "
        "with the kernels interpreted. The contract CAN be stated, so it is checked as a BOUNDED run-time contract on the real make_readable (engine E) - never counted as proved: WITNESS(pair, settings) "
        "=> for every mode: success and CIEDE2000(text, returned colour as CSS reads it) <= 2.0. WITNESS is computed by the harness's own OKLab / CIEDE2000 / WCAG implementations (none of the "
        "library's functions): the text's (C,H) line is scanned on a 4097-point lightness grid (restricted to the window where dE <= 1.5 is possible), clipped to sRGB, rounded, deduplicated.")

SLACK = 0.01      # agreement slack between the oracle's CIEDE2000 and the library's on the returned colour (C11 allows 0.05)


def witness(text, bg, large, very):
    """independent exhaustive scan of the text's lightness line; returns a witness colour or None"""
    from oracles import colour as oc
    K = oc.FloatK
    L, C, H = oc.oklch(K, text)
    need = oc.required_min(large, very) + 0.05
    seen = set(); best = None
    lo, hi = max(0, int((L - 0.06) * 4096)), min(4096, int((L + 0.06) * 4096) + 1)
    for i in range(lo, hi + 1):
        l = i / 4096
        ch = oc.oklch_to_srgb_unrounded(K, l, C, H)
        c = tuple(max(0, min(255, int(round(v * 255)))) for v in ch)
        if c in seen: continue
        seen.add(c)
        if oc.ciede2000(K, text, c) <= 1.5 and oc.contrast(K, c, bg) >= need:
            return c
    return None


def _case(job):
    text, bg, large, very = job
    from oracles import colour as oc
    K = oc.FloatK
    base = oc.contrast(K, text, bg)
    if base >= oc.required_min(large, very): return job, 'already', None
    w = witness(text, bg, large, very)
    if w is None: return job, 'no-witness', None
    lib = rtc.load_lib()
    from vf.conc import Conc
    S = Conc(lib)
    global _WARM
    try: _WARM
    except NameError:
        # history: each worker first runs hard pairs (no small fix exists) through every mode, as an application would have;
        # the property must hold regardless of what was asked before
        _WARM = True
        for t0, b0 in (((0xAB, 0xCD, 0xEF), (0xFE, 0xDC, 0xBA)), ((255, 255, 0), (255, 255, 255)), ((120, 120, 120), (128, 128, 128)), ((200, 30, 30), (190, 60, 60))):
            for m in (2, 1, 0, 2):
                for vr in (False, True):
                    try: lib.ColorPair(t0, b0, False).make_readable(m, vr)
                    except Exception: pass
    for mode in (0, 1, 2):
        col, ok = lib.ColorPair(text, bg, large).make_readable(mode, very)
        d = S.denotes(col)
        de = oc.ciede2000(K, text, d) if d is not None else float('inf')
        if not ok or not de <= 2.0 + SLACK:
            return job, 'witnessed', {'mode': mode, 'returned': [col, ok], 'dE_to_original': de, 'witness_colour': w, 'witness_dE': oc.ciede2000(K, text, w), 'witness_ratio': oc.contrast(K, w, bg),
                                      'required_min': oc.required_min(large, very), 'original_ratio': base}
    return job, 'witnessed', None


def _gen(job):
    """seeded pairs whose ratio is 0..7% below the minimum of a random (large, very_readable) setting; texts: 60% uniform, 25% off-grey (slight cast), 15% near white / black"""
    seed, n = job
    from oracles import colour as oc
    rng = random.Random(seed); out = []
    while len(out) < n:
        large, very = rng.random() < 0.5, rng.random() < 0.5
        mn = oc.required_min(large, very)
        k = rng.random()
        if k < 0.6: t = rtc.rand_rgb(rng)
        elif k < 0.85:      # off-grey texts: a slight colour cast (tiny chroma, hue still defined)
            g = rng.randrange(256); t = tuple(max(0, min(255, g + rng.randrange(-4, 5))) for _ in range(3))
        else:               # texts close to white or black (little lightness head-room on one side)
            base = rng.choice([rng.randrange(0, 30), rng.randrange(226, 256)]); t = tuple(max(0, min(255, base + rng.randrange(-12, 13))) for _ in range(3))
        b = rtc.rand_rgb(rng) if rng.random() < 0.7 else rtc.grey(rng.randrange(256))
        r = oc.contrast(oc.FloatK, t, b)
        if 0.93 * mn <= r < mn: out.append((t, b, large, very))
    return out


def lattice():
    """fixed regression lattice: grey / primary / mid-tone backgrounds x both polarities x 4 settings (text colours just below each threshold are found by the witness filter)"""
    bgs = [(255, 255, 255), (0, 0, 0), (128, 128, 128), (114, 82, 220), (30, 60, 90), (240, 220, 180), (200, 40, 40), (20, 120, 60), (90, 90, 160), (170, 170, 170), (60, 60, 60)]
    out = [((203, 249, 83), (114, 82, 220), False, False)]
    rng = random.Random(20261002)
    for bg in bgs:
        for _ in range(40):
            t = rtc.rand_rgb(rng)
            for large in (False, True):
                for very in (False, True): out.append((t, bg, large, very))
    return out


def run(args):
    import multiprocessing as mp
    ck = Check('C03', args.tier, args.seed, 'exploration')
    ck.explanation = EXPL
    rng = random.Random(args.seed + 3)
    jobs = lattice()
    n_rand = 1500 if args.tier == 'quick' else 60000
    with mp.get_context('fork').Pool(16) as pool:
        for part in pool.map(_gen, [(args.seed * 1000 + i, n_rand // 16 + 1) for i in range(16)]): jobs += part
    t0 = time.time()
    with mp.get_context('fork').Pool(16) as pool:
        res = pool.map(_case, jobs, chunksize=8)
    witnessed = [r for r in res if r[1] == 'witnessed']
    bad = [r for r in witnessed if r[2]]
    distinct = len({(r[0][0], r[0][1], r[0][2], r[0][3]) for r in witnessed})
    ck.evaluations = len(witnessed) * 3
    ck.distinct = distinct
    ck.rule = ('cases = fixed regression lattice (11 backgrounds x 40 seeded texts x 4 settings, plus the known exemplar) + seeded near-threshold pairs; a case is NON-TRIVIAL when the pair fails the minimum AND the '
               'independent lightness-line scan finds a witness (within dE 1.5, clearing min+0.05); each non-trivial case is run in modes 0,1,2; distinct = distinct (text, bg, large, very_readable)')
    ck.bounded.append({'engine': 'E', 'generated': len(jobs), 'already_readable': sum(1 for r in res if r[1] == 'already'), 'without_witness': sum(1 for r in res if r[1] == 'no-witness'),
                       'witnessed_cases': len(witnessed), 'runs': len(witnessed) * 3, 'seed': args.seed, 'wall_s': round(time.time() - t0, 1), 'dE_slack': SLACK})
    for r in witnessed[:3]:
        ck.sample({'text': r[0][0], 'bg': r[0][1], 'large': r[0][2], 'very_readable': r[0][3], 'result': 'held in modes 0,1,2' if not r[2] else r[2]})
    ck.add_obligation('E', f'make_readable/lightness_fix_found_and_small on {len(witnessed)} witnessed cases x 3 modes (bounded)', 'failed' if bad else 'discharged', 'enumeration(bounded)')
    groups = {}
    for r in bad:
        (t, b, large, very), _, d = r
        from oracles import colour as oc
        lighter = oc.luminance(oc.FloatK, t) > oc.luminance(oc.FloatK, b)
        key = f"{'not found' if not d['returned'][1] else 'too far'}:text {'lighter' if lighter else 'darker'} than background"
        groups.setdefault(key, []).append(r)
    for key, rs in groups.items():
        (t, b, large, very), _, d = rs[0]
        ck.violation(f'make_readable/lightness_fix_found_and_small [{key}]', 'E', {'failing_cases': len(rs), 'of_witnessed': len(witnessed), 'first': d},
                     {'call': 'ColorPair(text,bg,large).make_readable(mode, very_readable)', 'text': t, 'bg': b, 'large': large, 'very_readable': very, **d}, {'witness_key': key})
    ck.assume('BOUNDED: only the generated cases are judged; a violation confined to pairs outside the sample is not seen',
              'the witness oracle and the dE <= 2.0 judgement use /verif/oracles (float64); 0.01 slack on dE (C11 allows the library 0.05)',
              'as a CSS consumer reads it: returned strings are read by the reference CSS parser')
    ck.trust('oracles/colour.py (OKLab, CIEDE2000 validated against the 34 Sharma pairs, WCAG)')
    return ck.finish()


def replay(args):
    r = json.load(open(args.replay)); w = r.get('concrete_input') or {}
    if 'text' in w:
        j, kind, d = _case((tuple(w['text']), tuple(w['bg']), w['large'], w['very_readable']))
        print('replay', j, kind, d)
        if d: print(f'VIOLATION property=C03 replay={args.replay}'); return 1
        return 0
    return 2
