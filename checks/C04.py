from .common import *

EXPL = ("C04 is decided by engine A: binary_search_lightness / gradient_descent_oklch return None or a valid colour within the SYMBOLIC tolerance "
        "they were given (loop invariant over all 20 bisection steps; the descent's result follows from its guarded tail with the loop havocked); "
        "generate_accessible_color returns its input or a colour within MAXOF(schedule) for a SYMBOLIC schedule (5.0 is computed from the literal "
        "default schedule in the source); strict mode <= 5.0; default/relaxed modes satisfy REACH(3.0, original, result) - the reflexive-transitive "
        "closure of 'one step within 3.0' - resp. REACH or <= 15.0, as loop invariants. DE is the uninterpreted CIEDE2000 symbol (check C11). "
        "Engine E re-evaluates strict_le_5 on the real code with an independent CIEDE2000 oracle (bounded).")


def run(args):
    ck = standard_check('C04', args, 'proof', EXPL, CHAIN, ['strict_le_5', 'shape'])
    ck.assume('calculate_delta_e_2000(a,b) == DE(a,b) = CIEDE2000 of the two colours, finite, >= 0, 0 for identical colours (check C11, engines B+D+E)',
              'READ(format_color(t,f)) = t (check C06) lifts the bound from the judged colour to the returned value',
              'run-time oracle comparison of DE uses the statement\'s own agreement tolerance (0.05, C11) as slack; the deductive clauses have none')
    return ck.finish()


def replay(args):
    from .replay import replay_make_readable
    return replay_make_readable('C04', args)
