from .common import *
from vf import rtc

EXPL = ("C04 is decided by engine A: binary_search_lightness / gradient_descent_oklch return None or a valid colour within the SYMBOLIC tolerance "
        "they were given (loop invariant over all 20 bisection steps; the descent's result follows from its guarded tail with the loop havocked); "
        "generate_accessible_color returns its input or a colour within MAXOF(schedule) for a SYMBOLIC schedule (5.0 is computed from the literal "
        "default schedule in the source); strict mode <= 5.0; default/relaxed modes satisfy REACH(3.0, original, result) - the reflexive-transitive "
        "closure of 'one step within 3.0' - resp. REACH or <= 15.0, as loop invariants. DE is the uninterpreted CIEDE2000 symbol (check C11). "
        "Engine E re-evaluates strict_le_5 on the real code with an independent CIEDE2000 oracle (bounded).")


def _sched_case(job):
    """the multi-phase search itself, called twice for one pair with different tolerance schedules (either order): each answer
    must be the text or within the largest tolerance of the schedule IT was given (oracle CIEDE2000, 0.05 slack)"""
    t, b, large, first_custom = job
    from vf import rtc
    rtc.load_lib()
    import cm_colors.core.optimisation as opt
    from oracles import colour as oc
    out = []
    scheds = [[1.0], None] if first_custom else [None, [1.0]]
    for sq in scheds + [[0.8, 2.0]]:
        try: r = opt.generate_accessible_color(t, b, large, delta_e_sequence=(list(sq) if sq else None))
        except Exception as e: out.append({'schedule': sq, 'raised': repr(e)}); continue
        cap = 5.0 if sq is None else max(sq)
        r = tuple(r)
        if r != tuple(t):
            de = oc.ciede2000(oc.FloatK, t, r)
            if de > cap + 0.05: out.append({'schedule': sq or 'default (<= 5.0)', 'returned': list(r), 'oracle_dE': de, 'cap': cap})
    return job, out


def schedule_E(ck, prog, args=None):
    import multiprocessing as mp, random, time
    n = 96 if ck.tier == 'quick' else 3000
    rng = random.Random(ck.seed + 4)
    gen = rtc.pair_stream(rng, near_frac=0.5)
    jobs = [(*next(gen), bool(rng.getrandbits(1)), i % 2 == 0) for i in range(n)]
    t0 = time.time()
    with mp.get_context('fork').Pool(16) as pool:
        res = pool.map(_sched_case, jobs, chunksize=4)
    bad = [(j, o) for j, o in res if o]
    ck.bounded.append({'engine': 'E', 'what': 'generate_accessible_color called three times per pair with different tolerance schedules (custom first / default first): each result within the cap of its own schedule (oracle CIEDE2000)',
                       'evaluations': len(jobs) * 3, 'seed': ck.seed, 'wall_s': round(time.time() - t0, 1), 'bound': f'{len(jobs)} generated pairs x 3 schedules'})
    ck.evaluations += len(jobs) * 3
    for j, o in bad[:1]:
        w = {'call': 'generate_accessible_color(text, bg, large, delta_e_sequence=...) after a call with another schedule', 'text': j[0], 'bg': j[1], 'large': j[2], 'custom_schedule_first': j[3], 'observed': o[0]}
        for v in ck.violations:
            if v['engine'] == 'A' and v.get('witness') is None: v['witness'] = w
        ck.violation('generate_accessible_color/bounded (run-time contract, schedule history)', 'E', o[0], w, {'kind': 'schedule-history'})


def run(args):
    ck = standard_check('C04', args, 'proof', EXPL, CHAIN, ['strict_le_5', 'shape'], extra=schedule_E)
    # the bounds are stated on the colour the caller gets back: READ(format_color(t, f)) == t lifts them from the judged colour to the returned spelling
    roundtrip_lemma(ck, args.tier, force_quick=True)
    ck.assume('calculate_delta_e_2000(a,b) == DE(a,b) = CIEDE2000 of the two colours, finite, >= 0, 0 for identical colours (check C11, engines B+D+E)',
              'READ(format_color(t,f)) = t (check C06) lifts the bound from the judged colour to the returned value',
              'run-time oracle comparison of DE uses the statement\'s own agreement tolerance (0.05, C11) as slack; the deductive clauses have none')
    return ck.finish()


def replay(args):
    import json
    r = json.load(open(args.replay)); w = r.get('concrete_input') or {}
    if 'custom_schedule_first' in w:
        j, o = _sched_case((tuple(w['text']), tuple(w['bg']), w['large'], w['custom_schedule_first'])); print('replay', j, '->', o)
        if o: print(f'VIOLATION property=C04 replay={args.replay}'); return 1
        return 0
    from .replay import replay_make_readable
    return replay_make_readable('C04', args)
