import json, time, math
from .common import *
from vf import fdx, rtc, ring, engine_b as eb
from vf.ring import Z3Map, Z3Exact, var, app, conform, Cond
from vf.program import Program
from contracts import specs
import z3

CT = 'cm_colors.core.contrast'
EXPL = ("C05: (B) the real calculate_relative_luminance (with the real srgb_to_linear inlined from its AST) and calculate_contrast_ratio are executed to exact-rational "
        "polynomial normal forms over uninterpreted atoms and compared with spec functions written from WCAG 2.x (threshold 0.03928 of the WCAG text vs the code's 0.04045 "
        "are proved to select the same branch for every integer channel 0..255); symmetry, range [1,21], ==1 for equal luminances and '21 only for luminances {0,1}' are "
        "small real-arithmetic lemmas over the ratio's normal form. (A) get_contrast_level == LEVEL of the statement in z3's Float64 theory for EVERY double (NaN/inf included), "
        "get_wcag_level == LEVEL(CR), is_readable's three strings. (D) the float gap: the real functions on all 256 channel values vs a 50-digit table, all 2^24 luminances vs a "
        "longdouble reference (thorough; quick = bounded sub-domain), all 65,536 grey x grey ratios, every colour against black and white (bit-for-bit symmetry, range).")


def b_part(ck, prog, tag=''):
    """engine B obligations; returns list of (name, ok, detail)"""
    out = []
    vs, facts = eb.int_vars(['r', 'g', 'b'])
    z = Z3Map(vs, facts)
    rgb = (var('r'), var('g'), var('b'))
    t0 = time.time()
    try:
        ce = eb.code_exec(prog, CT, inline=['srgb_to_linear'], zmap=z)
        fn, _ = eb.resolve_fn(prog, CT, 'calculate_relative_luminance')
        cp = ce.run(fn, [rgb])
        sp = eb.spec_exec(z).run(specs.FUNCS['spec_luminance'], [rgb])
        pairs, eq, diffs = conform(cp, sp, z, 'lum')
        out.append(('calculate_relative_luminance/conforms_to[WCAG relative luminance]', pairs > 0 and eq == pairs, {'path_pairs': pairs, 'equal': eq, 'diffs': diffs[:2]}))
    except (ring.Unsupported, KeyError, ZeroDivisionError) as e:
        out.append(('calculate_relative_luminance/conforms_to[WCAG relative luminance]', None, {'undecided': str(e)}))
    # contrast ratio against luminance's contract (LUM in [0,1])
    z2 = Z3Map({}, [], ranges={'LUM': (0, 1)})
    T, Bg = (var('t1'), var('t2'), var('t3')), (var('b1'), var('b2'), var('b3'))
    calls = {'calculate_relative_luminance': lambda rgb: app('LUM', *rgb)}
    try:
        fnc, _ = eb.resolve_fn(prog, CT, 'calculate_contrast_ratio')
        cp1 = eb.code_exec(prog, CT, calls=calls, zmap=z2).run(fnc, [T, Bg])
        cp2 = eb.code_exec(prog, CT, calls=calls, zmap=z2).run(fnc, [Bg, T])
        sp = eb.spec_exec(z2).run(specs.FUNCS['spec_contrast'], [app('LUM', *T), app('LUM', *Bg)])
        pairs, eq, diffs = conform(cp1, sp, z2, 'cr', exact_fallback={'LUM': (0, 1)})
        out.append(('calculate_contrast_ratio/conforms_to[(L_lighter+0.05)/(L_darker+0.05)]', pairs > 0 and eq == pairs, {'path_pairs': pairs, 'equal': eq, 'diffs': diffs[:2]}))
        pairs, eq, diffs = conform(cp1, cp2, z2, 'sym', exact_fallback={'LUM': (0, 1)})
        out.append(('calculate_contrast_ratio/symmetric', pairs > 0 and eq == pairs, {'path_pairs': pairs, 'equal': eq, 'diffs': diffs[:2]}))
        # range lemmas on each path's value (exact non-linear reals, 2 atoms)
        for name, goal in (('ge_1', lambda v, lt, lb: v >= 1), ('le_21', lambda v, lt, lb: v <= 21),
                           ('eq_1_when_equal_luminance', lambda v, lt, lb: z3.Implies(lt == lb, v == 1)),
                           ('21_only_for_luminances_0_and_1', lambda v, lt, lb: z3.Implies(v == 21, z3.Or(z3.And(lt == 1, lb == 0), z3.And(lt == 0, lb == 1))))):
            ok = True; detail = {}
            for pc, v in cp1:
                ze = Z3Exact(ranges={'LUM': (0, 1)})
                vt = ze.poly(v); lt = ze.poly(app('LUM', *T)); lb = ze.poly(app('LUM', *Bg))
                r, m = ze.prove(pc, goal(vt, lt, lb))
                if r != 'proved': ok = False if r == 'refuted' else None; detail = {'result': r, 'model': str(m)[:300]}
            out.append((f'calculate_contrast_ratio/{name}', ok, detail))
    except (ring.Unsupported, KeyError, ZeroDivisionError) as e:
        out.append(('calculate_contrast_ratio/conforms_to[(L_lighter+0.05)/(L_darker+0.05)]', None, {'undecided': str(e)}))
    return out, time.time() - t0


B_CANARIES = [
    ('weight 0.7152 -> 0.7512', CT, '0.7152 * g_linear', '0.7512 * g_linear', 'calculate_relative_luminance'),
    ('lighter/darker swapped', CT, 'return (lighter + 0.05) / (darker + 0.05)', 'return (darker + 0.05) / (lighter + 0.05)', 'calculate_contrast_ratio'),
    ('flare 0.05 -> 0.5 in the denominator', CT, '(darker + 0.05)', '(darker + 0.5)', 'calculate_contrast_ratio'),
    ('linearisation knee 0.04045 -> 0.05', 'cm_colors.core.conversions', 'if channel <= 0.04045:', 'if channel <= 0.05:', 'calculate_relative_luminance'),
    ('gamma 2.4 -> 2.2', 'cm_colors.core.conversions', 'return pow((channel + 0.055) / 1.055, 2.4)', 'return pow((channel + 0.055) / 1.055, 2.2)', 'calculate_relative_luminance'),
]


def run(args):
    ck = Check('C05', args.tier, args.seed, 'proof')
    ck.explanation = EXPL
    prog = Program()
    # ---------------- engine B
    res, dt = b_part(ck, prog)
    for name, ok, detail in res:
        ck.add_obligation('B', name, 'discharged' if ok else ('unknown' if ok is None else 'failed'), 'ring-normal-form + z3', dt / max(1, len(res)), detail)
        if ok is False: ck.violation(name, 'B', detail)
        elif ok is None: ck.undecide(name, json.dumps(detail)[:200])
    ck.sample({'engine': 'B', 'obligation': res[0][0], 'detail': res[0][2]})
    # ---------------- engine R: finite, positive, never raises, ratio <= 21
    CT_, CV_ = 'cm_colors.core.contrast', 'cm_colors.core.conversions'
    run_ranges(ck, prog, [f'{CV_}:srgb_to_linear', f'{CT_}:calculate_relative_luminance', f'{CT_}:calculate_contrast_ratio'], [
        ('flare term dropped from the denominator', CT_, 'calculate_contrast_ratio', '    return (lighter + 0.05) / (darker + 0.05)', '    return (lighter + 0.05) / darker'),
        ('linearisation offset with the wrong sign', CV_, 'srgb_to_linear', '        return pow((channel + 0.055) / 1.055, 2.4)', '        return pow((channel - 0.055) / 1.055, 2.4)'),
    ])
    for cname, mod, old, new, target in B_CANARIES:
        mp = prog.mutate(mod, old, new)
        if mp is None: ck.notes.append(f"canary '{cname}': pattern no longer matches - skipped"); continue
        if any(ok is None and target in n for n, ok, d in res):
            ck.notes.append(f"canary '{cname}': {target} is undecided on this tree - skipped"); continue
        r2, _ = b_part(ck, mp)
        killed = [n for n, ok, d in r2 if ok is False and target in n]
        ck.self_test(f'canary {cname}', bool(killed), f'killed by {killed[0]}' if killed else 'mutant still conforms')
    ck.functions += [f'{CT}:calculate_relative_luminance', f'{CT}:calculate_contrast_ratio', 'cm_colors.core.conversions:srgb_to_linear']
    # ---------------- engine A: labels
    canaries = [
        C('AAA threshold made exclusive', '        if contrast_ratio >= 7.0:', '        if contrast_ratio > 7.0:', 'get_contrast_level#fp', 'level_all_doubles', mod=CT),
        C('large-text AA threshold 3.0 -> 3.1', '        elif contrast_ratio >= 3.0:', '        elif contrast_ratio >= 3.1:', 'get_contrast_level#fp', 'level_all_doubles', mod=CT),
        C('get_wcag_level ignores the large flag', 'return get_contrast_level(contrast_ratio, large)', 'return get_contrast_level(contrast_ratio)', 'get_wcag_level', 'level_of_ratio', mod=CT),
        C('is_readable: AA mapped to Very Readable', '        if level == "AAA":\n            return "Very Readable"', '        if level == "AAA" or level == "AA":\n            return "Very Readable"', 'ColorPair.is_readable', 'label', mod=COL),
    ]
    run_A(ck, [f'{CT}:get_contrast_level#fp', f'{CT}:get_contrast_level', f'{CT}:get_wcag_level', f'{COL}:ColorPair.is_readable'], canaries, prog)
    # ---------------- engine D: float gap
    lib = rtc.load_lib()
    from oracles import colour as oc
    K = oc.MpK(50)
    import numpy as np
    tab_bad = []
    prev = -1.0
    for v in range(256):
        x = lib.srgb_to_linear(v / 255.0); ref = oc.srgb_decode(K, v)
        ulp = math.ulp(float(ref)) if float(ref) > 0 else 5e-324
        if abs(K.mp.mpf(x) - ref) > 16 * ulp or not x > prev and v > 0: tab_bad.append({'channel': v, 'library': x, 'reference': float(ref)})
        prev = x
    if lib.srgb_to_linear(0.0) != 0.0 or lib.srgb_to_linear(1.0) != 1.0: tab_bad.append({'endpoints': [lib.srgb_to_linear(0.0), lib.srgb_to_linear(1.0)]})
    ck.add_obligation('D', 'srgb_to_linear/table[256 channel values: within 16 ulp of the 50-digit value, strictly increasing, f(0)=0.0, f(255)=1.0 exactly]', 'failed' if tab_bad else 'discharged', 'exhaustive')
    if tab_bad: ck.violation('srgb_to_linear/table', 'D', {'shown': tab_bad[:4]}, {'call': 'srgb_to_linear(v/255.0)', **tab_bad[0]})
    n, fails, stats, exhaustive, wall = fdx.sweep('checks.d_workers', 'luminance_sweep', args.tier)
    ck.exhaustive.append({'engine': 'D', 'what': 'calculate_relative_luminance vs WCAG reference (|err| <= 4 ulp of 1.0); ratio against black and white: symmetric bit-for-bit, in [1,21], vs reference 1e-12',
                          'domain': 'all 16,777,216 colours' if exhaustive else 'quick domain (52^3 lattice + greys + channel sweeps + 60k pseudo-random)', 'evaluations': n, 'exhaustive': exhaustive,
                          'max_abs_err': stats.get('max_abs_err'), 'wall_s': round(wall, 1)})
    bad_extreme = exhaustive and (stats.get('lum_is_zero') != 1 or stats.get('lum_is_one') != 1)
    ck.add_obligation('D', 'calculate_relative_luminance/numeric[all colours]', 'failed' if fails else 'discharged', 'exhaustive' if exhaustive else 'lattice(bounded)', wall)
    if exhaustive:
        ck.add_obligation('D', 'luminance is 0.0 only for black and 1.0 only for white (so ratio 21 only for black against white)', 'failed' if bad_extreme else 'discharged', 'exhaustive')
        if bad_extreme: ck.violation('luminance extremes', 'D', stats, {'lum_is_zero': stats.get('lum_is_zero'), 'lum_is_one': stats.get('lum_is_one')})
    if fails: ck.violation('calculate_relative_luminance/numeric', 'D', {'shown': fails[:4]}, {'call': 'calculate_relative_luminance(colour) / calculate_contrast_ratio', **fails[0]})
    ck.evaluations += n
    # grey x grey
    gb = []
    T = [oc.srgb_decode(K, v) for v in range(256)]
    for a in range(256):
        for b in range(256):
            x, y = lib.calculate_contrast_ratio((a, a, a), (b, b, b)), lib.calculate_contrast_ratio((b, b, b), (a, a, a))
            hi, lo = max(T[a], T[b]), min(T[a], T[b])
            ref = float((hi + K.num('0.05')) / (lo + K.num('0.05')))
            if x != y or not (1.0 <= x <= 21.0) or abs(x - ref) > 1e-12 or (a == b and x != 1.0): gb.append({'greys': [a, b], 'library': [x, y], 'reference': ref})
    if lib.calculate_contrast_ratio((0, 0, 0), (255, 255, 255)) != 21.0: gb.append({'black_white': lib.calculate_contrast_ratio((0, 0, 0), (255, 255, 255))})
    ck.add_obligation('D', 'calculate_contrast_ratio/grey_x_grey[65,536 pairs: symmetric bit-for-bit, in [1,21], 1.0 on the diagonal, black/white == 21.0, vs reference]', 'failed' if gb else 'discharged', 'exhaustive')
    ck.exhaustive.append({'engine': 'D', 'what': 'grey x grey contrast ratios', 'domain': '256 x 256', 'evaluations': 65536 * 2, 'exhaustive': True})
    if gb: ck.violation('calculate_contrast_ratio/grey_x_grey', 'D', {'shown': gb[:4]}, {'call': 'calculate_contrast_ratio(grey a, grey b)', **gb[0]})
    # engine E: labels on the real code around each threshold incl. adjacent doubles; random pairs vs oracle
    lab_bad = []
    for th in (3.0, 4.5, 7.0):
        for x in (math.nextafter(th, 0), th, math.nextafter(th, 100), float('nan'), float('inf'), -float('inf'), 0.0, 21.0):
            for large in (False, True):
                if lib.get_contrast_level(x, large) != oc.level(x, large): lab_bad.append({'ratio': repr(x), 'large': large, 'library': lib.get_contrast_level(x, large), 'expected': oc.level(x, large)})
    import random
    rng = random.Random(args.seed + 5); npairs = 3000 if args.tier == 'quick' else 200000
    gen = rtc.pair_stream(rng)
    for _ in range(npairs):
        t, b = next(gen)
        x = lib.calculate_contrast_ratio(t, b); ref = oc.contrast(oc.FloatK, t, b)
        if abs(x - ref) > 1e-12 or x != lib.calculate_contrast_ratio(b, t): lab_bad.append({'pair': [t, b], 'library': x, 'reference': ref}); break
        for large in (False, True):
            lv = lib.get_wcag_level(t, b, large)
            if abs(ref - 3.0) > 1e-9 and abs(ref - 4.5) > 1e-9 and abs(ref - 7.0) > 1e-9 and lv != oc.level(ref, large):
                lab_bad.append({'pair': [t, b], 'large': large, 'library_level': lv, 'expected': oc.level(ref, large), 'ratio': ref}); break
    ck.bounded.append({'engine': 'E', 'what': 'labels at and next to every threshold (adjacent doubles, nan, inf) on the real get_contrast_level; random/near-threshold pairs: ratio vs oracle, get_wcag_level vs LEVEL(oracle ratio)', 'evaluations': 48 + npairs * 3, 'seed': args.seed, 'bound': f'{npairs} generated pairs'})
    ck.add_obligation('E', 'labels and ratios on generated inputs (bounded)', 'failed' if lab_bad else 'discharged', 'enumeration(bounded)')
    if lab_bad: ck.violation('labels/ratios (run-time)', 'E', {'shown': lab_bad[:4]}, {'call': 'get_contrast_level / get_wcag_level / calculate_contrast_ratio', **lab_bad[0]})
    ck.evaluations += 48 + npairs * 3
    ck.assume('engine B is over the reals: float rounding of the luminance / ratio arithmetic is not modelled deductively; it is bounded numerically by engine D on the finite domains above',
              'pow(x, 2.4) is an uninterpreted atom in engine B (both sides apply it to provably equal arguments)',
              'quick tier: the 2^24 luminance sweep runs on a bounded sub-domain (thorough tier is complete)' if args.tier == 'quick' else 'luminance enumerated on all 2^24 colours')
    ck.trust('mpmath 50-digit arithmetic and numpy longdouble (80-bit) for the reference values')
    return ck.finish()


def replay(args):
    r = json.load(open(args.replay)); w = r.get('concrete_input') or {}
    lib = rtc.load_lib()
    from oracles import colour as oc
    if 'colour' in w:
        c = tuple(w['colour']); v = lib.calculate_relative_luminance(c); ref = float(oc.luminance(oc.MpK(50), c))
        print(f'replay luminance{c} = {v!r}, WCAG reference {ref!r}')
        if abs(v - ref) > 8.9e-16: print(f'VIOLATION property=C05 replay={args.replay}'); return 1
        return 0
    if 'ratio' in w:
        x = float(w['ratio']); got = lib.get_contrast_level(x, w['large']); print('replay get_contrast_level', x, w['large'], '->', got, 'expected', oc.level(x, w['large']))
        if got != oc.level(x, w['large']): print(f'VIOLATION property=C05 replay={args.replay}'); return 1
        return 0
    if 'pair' in w:
        t, b = tuple(w['pair'][0]), tuple(w['pair'][1]); x = lib.calculate_contrast_ratio(t, b); ref = oc.contrast(oc.FloatK, t, b)
        lv = [lib.get_wcag_level(t, b, l) for l in (False, True)]; ex = [oc.level(ref, l) for l in (False, True)]
        print(f'replay pair {t} {b}: ratio {x} (reference {ref}), levels {lv} expected {ex}')
        if abs(x - ref) > 1e-12 or lv != ex: print(f'VIOLATION property=C05 replay={args.replay}'); return 1
        return 0
    print('no concrete input in replay file: re-running the check'); return run(args)
