import random, time, json
from .common import *
from vf import fdx, rtc
from vf.program import Program

CP = 'cm_colors.core.color_parser'
FORMATS = ['hex', 'rgb', 'hsl', 'rgb_tuple']
EXPL = ("C06 has two halves. (1) Round trip, the statement's own quantifier: engine D evaluates the REAL format_color and the REAL parser on every one of the "
        "16,777,216 colours x {hex, rgb(), hsl(), tuple} and requires READ(format_color(c,f)) == c with the library parser AND with an independent CSS Color 3 "
        "reference parser (exact rational arithmetic; nearest 8-bit value, ties counted) - thorough tier: complete; quick tier: a 52^3 lattice + greys + channel "
        "sweeps + pseudo-random sample (bounded, labelled). (2) Format mapping: engine A proves on the real ASTs that format_color implements the documented "
        "table (hex / rgb() / hsl() / tuple itself / hex for everything else) and that make_readable returns format_color(judged colour, input's format tag) on "
        "all three outcome paths; the tag assigned to each input class is proved by z3 string-theory dispatch lemmas over detect_color_format's decision list extracted from its real AST (named, #hex, bare hex, rgb(), rgba(), hsl(), hsla(); strip/lower image assumed) and by engine A for 3-/4-element tuples and lists; engine E re-checks enumerated members (bounded).")


def detect_cases(rng):
    """members of every documented input class -> expected tag"""
    from oracles.css3_keywords import KEYWORDS
    ws = ['', ' ', '  ', '\t', '\n']
    out = []
    def var(s): return [s, s.upper(), s.title(), rng.choice(ws) + s + rng.choice(ws)]
    for _ in range(60):
        h6 = ''.join(rng.choice('0123456789abcdef') for _ in range(6)); h3 = h6[:3]
        for h in (h6, h3):
            for v in var('#' + h) + var(h):
                if v.strip().lower() in KEYWORDS: continue
                out.append((v, 'hex'))
    for k in KEYWORDS:
        for v in var(k): out.append((v, 'named'))
    for _ in range(40):
        r, g, b = (rng.randrange(256) for _ in range(3)); a = rng.choice(['0', '1', '0.5', '.25', '50%'])
        hh = rng.choice(['0', '120', '-30', '400.5', '359.9'])
        for v in var(f'rgb({r}, {g}, {b})') + var(f'rgb({r},{g},{b})') + var(f'rgb( {r * 100 // 255}% , 0%, 100% )'): out.append((v, 'rgb'))
        for v in var(f'rgba({r}, {g}, {b}, {a})'): out.append((v, 'rgba'))
        for v in var(f'hsl({hh}, {r * 100 // 255}%, {g * 100 // 255}%)'): out.append((v, 'hsl'))
        for v in var(f'hsla({hh}, 50%, 40%, {a})'): out.append((v, 'hsla'))
        out += [((r, g, b), 'rgb_tuple'), ([r, g, b], 'rgb_tuple'), ((r, g, b, 0.5), 'rgba_tuple'), ([r, g, b, 1], 'rgba_tuple')]
    return out


def _fmt_case(job):
    """make_readable on one (spelling, bg, large, mode, very): output must be of the documented kind and be valid CSS"""
    sp, kind, bg, large, mode, very = job
    lib = rtc.load_lib()
    from oracles import spellings as spx, css3
    sp_in = list(sp) if isinstance(sp, list) else sp
    col, ok = lib.ColorPair(sp_in, bg, large).make_readable(mode, very)
    bad = None
    if not spx.is_kind(col, kind): bad = f'output {col!r} is not of the documented kind {kind}'
    elif kind != 'tuple' and css3.parse(col) is None: bad = f'output {col!r} is not valid CSS'
    return job, bad, ok


def run(args):
    import multiprocessing as mp
    ck = Check('C06', args.tier, args.seed, 'proof')
    ck.explanation = EXPL
    prog = Program()
    # ---- engine A: format table + make_readable keeps the format on every outcome path
    canaries = [
        C('format table: hsl falls through to hex', '    if format_type == "hsl":\n        return rgb_to_hsl(rgb)', '    if format_type == "hsla":\n        return rgb_to_hsl(rgb)', 'format_color#table', 'format_table', mod=CP),
        C('format table: named colours returned as rgb()', "    # when we don't have the original alpha or it's a named color\n    return rgb_to_hex(rgb)", "    # when we don't have the original alpha or it's a named color\n    return rgbint_to_string(rgb)", 'format_color#table', 'format_table', mod=CP),
        C('make_readable formats with the background tag', 'format_color(c.rgb, self.text._format)', 'format_color(c.rgb, self.bg._format)', 'ColorPair.make_readable', 'format_kept', mod=COL),
        C('make_readable re-formats only on success', '                if c.is_valid:\n                    formatted_color', '                if c.is_valid and success:\n                    formatted_color', 'ColorPair.make_readable', 'format_kept', mod=COL),
    ]
    run_A(ck, [f'{CP}:format_color#table', f'{COL}:ColorPair.make_readable'], canaries, prog)
    # ---- input-class tags: z3 string-theory dispatch lemmas over the decision list extracted from the real AST; tuples/lists by engine A
    from vf import strdispatch as sd
    from vf.engine_a import verify_many
    import ast as _ast
    t0 = time.time()
    try:
        fn, _m = prog.func(f'{CP}:detect_color_format')
        table = _ast.literal_eval(prog.modules['cm_colors.core.named_colors'].consts['CSS_NAMED_COLORS'])
        dres = sd.lemmas(fn, list(table), {'named': "'named'", 'hex-with-hash': "'hex'", 'hex-bare': "'hex'", 'hsl()': "'hsl'", 'hsla()': "'hsla'", 'rgb()': "'rgb'", 'rgba()': "'rgba'"})
    except (sd.Unsupported, KeyError, ValueError, SyntaxError) as e:
        dres = [('dispatch[detect_color_format]', None, f'decision list could not be extracted: {e}')]
    for name, ok, detail in dres:
        ck.add_obligation('A', f'detect_color_format/{name}', 'discharged' if ok else ('unknown' if ok is None else 'failed'), 'z3/cvc5-strings', (time.time() - t0) / max(1, len(dres)), detail)
        if ok is False: ck.violation(f'detect_color_format/{name}', 'A', {'detail': detail})
        elif ok is None: ck.undecide(f'detect_color_format/{name}', str(detail)[:200])
    ck.absorb_A(verify_many([(f'{CP}:detect_color_format', None)], variant='c14'))
    roundtrip_lemma(ck, args.tier, FORMATS)
    # ---- engine E: tag of every input class; output kind of make_readable across spellings x outcomes
    rng = random.Random(args.seed + 6)
    lib = rtc.load_lib()
    cases = detect_cases(rng)
    bad = [(s, exp, lib.detect_color_format(s)) for s, exp in cases if lib.detect_color_format(s) != exp]
    ck.bounded.append({'engine': 'E', 'what': 'detect_color_format tag of enumerated members of each documented input class', 'evaluations': len(cases), 'bound': 'generated members (case / whitespace / # variants), seed-dependent sample of values'})
    ck.add_obligation('E', 'detect_color_format/class_tags (bounded)', 'failed' if bad else 'discharged', 'enumeration(bounded)')
    if bad:
        ck.violation('detect_color_format/class_tags', 'E', {'shown': [repr(b) for b in bad[:5]]}, {'call': 'detect_color_format(input)', 'input': bad[0][0], 'expected': bad[0][1], 'observed': bad[0][2]})
    from oracles import spellings as spx
    gen = rtc.pair_stream(rng)
    jobs = []
    npairs = 40 if args.tier == 'quick' else 600
    for i in range(npairs):
        t, b = next(gen)
        for sp, kind in spx.opaque_spellings(t):
            jobs.append((sp, kind, b, bool(i & 1), i % 3, bool(i & 2)))
    with mp.get_context('fork').Pool(16) as pool:
        res = pool.map(_fmt_case, jobs, chunksize=8)
    badf = [(j, b) for j, b, ok in res if b]
    outcomes = {True: sum(1 for _, _, ok in res if ok), False: sum(1 for _, _, ok in res if not ok)}
    ck.bounded.append({'engine': 'E', 'what': 'make_readable output kind (hex for hex/named/rgba/hsla/RGBA-tuple, rgb() for rgb(), hsl() for hsl(), int 3-tuple for tuples/lists) and CSS validity',
                       'evaluations': len(jobs), 'outcomes': {'success': outcomes[True], 'failure': outcomes[False]}, 'bound': f'{npairs} pairs x all spellings x modes/flags round-robin', 'seed': args.seed})
    ck.add_obligation('E', 'make_readable/output_kind per input spelling (bounded)', 'failed' if badf else 'discharged', 'enumeration(bounded)')
    ck.evaluations += len(jobs) + len(cases)
    if badf:
        j, b = badf[0]
        ck.violation('make_readable/output_kind', 'E', {'detail': b}, {'call': 'ColorPair(text,bg,large).make_readable(mode, very_readable)', 'text': j[0], 'bg': j[2], 'large': j[3], 'mode': j[4], 'very_readable': j[5], 'expected_kind': j[1], 'observed': b})
    ck.trust('the reference CSS parser in /verif/oracles/css3.py implements CSS Color 3 (cross-checked against tinycss2.color3 on fixed cases at every run)')
    from oracles import css3, css3_keywords
    try:
        st = css3.selftest(); kw = css3_keywords.selftest()
        ck.self_test('reference parser vs tinycss2.color3 / keyword table vs tinycss2 + X11 rgb.txt', True, json.dumps({**st, **kw}))
    except AssertionError as e:
        ck.self_test('reference parser self-test', False, str(e))
    ck.assume('quick tier: the round trip is checked on a bounded sub-domain only (thorough tier is complete)' if args.tier == 'quick' else 'round trip enumerated completely',
              'str.strip/str.lower/startswith and the regex engine behave as documented (input-class dispatch is enumerated, not proved)')
    return ck.finish()


def replay(args):
    r = json.load(open(args.replay)); w = r.get('concrete_input') or {}
    lib = rtc.load_lib()
    if 'format' in w:
        c = tuple(w['colour']); s = lib.format_color(c, w['format'])
        try: back = lib.parse_color_to_rgb(s)
        except Exception as e: back = f'{type(e).__name__}: {e}'
        from oracles import css3
        ok = back == c and (w['format'] == 'rgb_tuple' or css3.reads_as(s, c))
        print(f'replay format_color({c}, {w["format"]!r}) = {s!r}; library reads {back!r}; CSS reads exactly: {w["format"] == "rgb_tuple" or css3.reads_as(s, c)}')
        if not ok: print(f'VIOLATION property=C06 replay={args.replay}'); return 1
        return 0
    if 'input' in w:
        got = lib.detect_color_format(w['input']); print('replay detect_color_format', repr(w['input']), '->', got, 'expected', w['expected'])
        if got != w['expected']: print(f'VIOLATION property=C06 replay={args.replay}'); return 1
        return 0
    if 'text' in w:
        j, b, ok = _fmt_case((w['text'], w['expected_kind'], tuple(w['bg']), w['large'], w['mode'], w['very_readable']))
        print('replay', j, '->', b)
        if b: print(f'VIOLATION property=C06 replay={args.replay}'); return 1
        return 0
    from .replay import replay_make_readable
    return replay_make_readable('C06', args)
