import ast, json, random, time, itertools
from fractions import Fraction as F
from .common import *
from vf import fdx, rtc, ring, engine_b as eb, strdispatch as sd
from vf.ring import Z3Map, var, app, Poly, conform
from vf.engine_a import verify_many
from vf.program import Program
from contracts import specs
import z3

CP = 'cm_colors.core.color_parser'
CV = 'cm_colors.core.conversions'
EXPL = ("C07 decomposes parse_color_to_rgb per CSS class: (1) DISPATCH - z3 string theory: the decision list of the str branch is extracted from the real AST (tests translated mechanically: startswith, "
        "`in` the real keyword table, re.fullmatch of the literal regex, containment) and for every member of each class (keywords, #rgb/#rrggbb, bare hex that is not a keyword, rgb(), rgba(), hsl(), hsla()) "
        "the branch of that class is reached; strip()/lower() image property assumed. (2) TABLES - engine D: the real table vs the CSS Color 3 keyword table (+rebeccapurple), case variants; all 2^24 #rrggbb "
        "(thorough; quick bounded) and all 4096 #rgb strings; int(two hex digits, 16) on all 22^2 mixed-case digit pairs. (3) ARITHMETIC - engine B: the real hsl_to_rgb (tuple branch, parsing helpers as "
        "identities) equals the CSS Color 3 hsl algorithm followed by nearest-integer for every real hue in [0,360) and s, l in [0,1] (35 path pairs, exact rationals; boundary cases by non-linear real "
        "arithmetic); engine A: an 8-bit int triple parses to itself, rgba_to_rgb is the nearest integer of source-over, hsla_to_rgb its truncation over the rounded colour (<= 1.5), percentage tokens are "
        "clamped to [0,255]. (4) TOKENISATION (regex findall / replace+split / float(str)) is NOT encodable in either solver: assumed, and exercised by engine E on generated members of every class with "
        "optional whitespace, signs, leading zeros and decimals against the reference CSS parser (bounded).")


def keyword_table(prog):
    m = prog.modules['cm_colors.core.named_colors']
    return ast.literal_eval(m.consts['CSS_NAMED_COLORS'])


def hsl_conformance(prog):
    vs = {n: z3.Real(n) for n in ('H', 's', 'l')}
    facts = [vs['H'] >= 0, vs['H'] < 360, vs['s'] >= 0, vs['s'] <= 1, vs['l'] >= 0, vs['l'] <= 1]
    z = Z3Map(vs, facts)
    H, s, l = var('H'), var('s'), var('l')
    calls = {'isinstance': lambda v, cls: (cls == '<str>' and isinstance(v, str)) or (cls != '<str>' and isinstance(v, tuple)), 'len': lambda v: Poly.const(len(v)), 'str': lambda v: v,
             '_parse_hue': lambda v: v, '_parse_hsl_percentage_or_decimal': lambda v: v, 'int': lambda v: v, 'round': lambda v: app('NEAREST', v), 'nearest': lambda v: app('NEAREST', v)}
    fn, _ = eb.resolve_fn(prog, CV, 'hsl_to_rgb')
    ce = eb.code_exec(prog, CV, calls=calls, zmap=z); ce.consts.update({'str': '<str>', 'tuple': '<tuple>', 'list': '<list>'})
    cp = ce.run(fn, [(H, s, l)])
    sp = eb.spec_exec(z, calls=calls).run(specs.FUNCS['spec_css_hsl'], [(H, s, l)])
    pairs, eq, diffs = conform(cp, sp, z, 'hsl', exact_fallback={})
    return pairs, eq, diffs, len(cp), len(sp)


def b_part(prog):
    try:
        pairs, eq, diffs, ncp, nsp = hsl_conformance(prog)
        return [('hsl_to_rgb/conforms_to[CSS Color 3 hsl -> rgb, nearest 8-bit value; h in [0,360), s,l in [0,1]]', pairs > 0 and eq == pairs, {'code_paths': ncp, 'spec_paths': nsp, 'path_pairs': pairs, 'equal': eq, 'diffs': diffs[:2]})]
    except (ring.Unsupported, KeyError, ZeroDivisionError) as e:
        return [('hsl_to_rgb/conforms_to[CSS Color 3 hsl -> rgb]', None, {'undecided': str(e)})]


EXPECT_PARSE = {'named': 'hex_to_rgb', 'hex-with-hash': 'hex_to_rgb', 'hex-bare': 'hex_to_rgb', 'hsl()': 'hsl_to_rgb', 'hsla()': 'hsla_to_rgb', 'rgb()': '_extract_number_tokens', 'rgba()': '_extract_number_tokens'}


def dispatch_part(prog):
    try:
        fn, _ = prog.func(f'{CP}:parse_color_to_rgb')
        return sd.lemmas(fn, list(keyword_table(prog)), EXPECT_PARSE)
    except (sd.Unsupported, KeyError, ValueError, SyntaxError) as e:
        return [('dispatch[parse_color_to_rgb]', None, f'decision list could not be extracted: {e}')]


def _num(rng, lo, hi, pct=False):
    """a CSS <number> in [lo, hi] in one of several plain-decimal spellings"""
    k = rng.randrange(6)
    if k == 0: v = F(rng.randrange(lo, hi + 1))
    elif k == 1: v = F(rng.randrange(lo * 10, hi * 10 + 1), 10)
    elif k == 2: v = F(rng.randrange(lo * 1000, hi * 1000 + 1), 1000)
    elif k == 3: v = F(rng.choice([lo, hi]))
    else: v = F(rng.randrange(lo, hi + 1))
    s = str(v.numerator) if v.denominator == 1 else f'{float(v):.3f}'.rstrip('0')
    if k == 4 and v >= 0: s = '+' + s
    if k == 5 and v.denominator == 1: s = '0' + s
    if s.startswith('0.') and rng.random() < 0.3: s = s[1:]
    return s


def gen_css(rng):
    """(string, class) of an in-range CSS Color 3 value with optional whitespace and case changes"""
    w = lambda: rng.choice(['', '', ' ', '  ', '\t'])
    k = rng.randrange(6)
    if k == 0:
        comps = [str(rng.randrange(256)) for _ in range(3)]; s = f'rgb({w()}{comps[0]}{w()},{w()}{comps[1]}{w()},{w()}{comps[2]}{w()})'
    elif k == 1:
        s = f'rgb({w()}{_num(rng, 0, 100)}%{w()},{w()}{_num(rng, 0, 100)}%{w()},{w()}{_num(rng, 0, 100)}%{w()})'
    elif k == 2:
        s = f'rgba({w()}{rng.randrange(256)}{w()},{w()}{rng.randrange(256)}{w()},{w()}{rng.randrange(256)}{w()},{w()}{rng.choice(["0", "1", "0.5", ".25", "0.999", "1.0", "0.0", _num(rng, 0, 1)])}{w()})'
    elif k == 3:
        s = f'hsl({w()}{_num(rng, -720, 1080)}{w()},{w()}{_num(rng, 0, 100)}%{w()},{w()}{_num(rng, 0, 100)}%{w()})'
    elif k == 4:
        s = f'hsla({w()}{_num(rng, -720, 1080)}{w()},{w()}{_num(rng, 0, 100)}%{w()},{w()}{_num(rng, 0, 100)}%{w()},{w()}{rng.choice(["0", "1", "0.5", ".25", "0.75"])}{w()})'
    else:
        h = '%02x%02x%02x' % rtc.rand_rgb(rng)
        if rng.random() < 0.3: h = h[0] + h[2] + h[4]
        s = rng.choice(['#', '']) + h
    if rng.random() < 0.3: s = s.upper()
    elif rng.random() < 0.2: s = ''.join(c.upper() if rng.random() < 0.5 else c for c in s)
    if rng.random() < 0.3: s = w() + s + w()
    return s


def _css_case(job):
    s, bg = job
    lib = rtc.load_lib()
    from oracles import css3
    ref = css3.parse(s, allow_bare_hex=True)
    if ref is None: return job, None, 'skipped'          # the generator produced something outside CSS Color 3 (e.g. a bare hex that is a keyword)
    try:
        got = lib.parse_color_to_rgb(s, background=bg) if bg else lib.parse_color_to_rgb(s)
    except Exception as e:
        return job, f'in-range CSS value rejected: {type(e).__name__}: {e}', 'ok'
    ch, alpha = ref
    bgrgb = bg or (255, 255, 255)
    if alpha == 1:
        for g, x in zip(got, ch):
            if g not in css3.nearest8(x): return job, f'parsed {got}, CSS defines {[float(v) for v in ch]} (nearest 8-bit value per channel)', 'ok'
    else:
        exact = [x * alpha + F(b) * (1 - alpha) for x, b in zip(ch, bgrgb)]
        if any(abs(F(g) - e) > F(3, 2) for g, e in zip(got, exact)): return job, f'parsed {got}, exact blend over {bgrgb} is {[float(e) for e in exact]} (tolerance 1.5)', 'ok'
    # spellings CSS treats as equivalent give identical results
    for v in (s.lower(), s.upper(), '  ' + s + ' ', s.strip()):
        try:
            g2 = lib.parse_color_to_rgb(v, background=bg) if bg else lib.parse_color_to_rgb(v)
        except Exception as e:
            return job, f'equivalent spelling {v!r} rejected: {e}', 'ok'
        if g2 != got: return job, f'equivalent spelling {v!r} parses to {g2}, {s!r} to {got}', 'ok'
    return job, None, 'ok'


B_CANARIES = [
    ('hue sector boundary 1/6 -> 1/5', CV, '            if t < 1 / 6:\n                return p + (q - p) * 6 * t', '            if t < 1 / 5:\n                return p + (q - p) * 6 * t'),
    ('lightness formula swapped', CV, 'q = l * (1 + s) if l < 0.5 else (l + s - l * s)', 'q = l * (1 + s) if l < 0.4 else (l + s - l * s)'),
    ('blue channel offset sign', CV, '        b = f(p, q, h_norm - 1 / 3)', '        b = f(p, q, h_norm + 1 / 3)'),
]


def run(args):
    import multiprocessing as mp
    ck = Check('C07', args.tier, args.seed, 'other')
    ck.explanation = EXPL
    prog = Program()
    # ---- 1. dispatch lemmas (z3 strings)
    t0 = time.time()
    dres = dispatch_part(prog)
    for name, ok, detail in dres:
        ck.add_obligation('A', f'parse_color_to_rgb/{name}', 'discharged' if ok else ('unknown' if ok is None else 'failed'), 'z3-strings' if not (isinstance(detail, dict) and 'cvc5' in str(detail.get('solver', ''))) else 'cvc5-strings', (time.time() - t0) / max(1, len(dres)), detail)
        if ok is False: ck.violation(f'parse_color_to_rgb/{name}', 'A', {'detail': detail}, {'call': 'parse_color_to_rgb(s)', 'input_lowercased': detail.get('counterexample')} if isinstance(detail, dict) and detail.get('counterexample') else None)
        elif ok is None: ck.undecide(f'parse_color_to_rgb/{name}', str(detail)[:200])
    for cname, old, new in [('hsla() no longer recognised by the HSL test', '        if s_lower.startswith("hsl(") or s_lower.startswith("hsla("):\n            if s_lower.startswith("hsla("):', '        if s_lower.startswith("hsl("):\n            if s_lower.startswith("hsla("):'),
                             ('keyword lookup on the un-lowered string', '        if s_lower in CSS_NAMED_COLORS:\n            hex_val', '        if s in CSS_NAMED_COLORS:\n            hex_val')]:
        mp_ = prog.mutate(CP, old, new)
        if mp_ is None: ck.notes.append(f"canary '{cname}': pattern no longer matches - skipped"); continue
        r2 = dispatch_part(mp_)
        killed = [n for n, ok, d in r2 if ok is False or ok is None]
        if 'un-lowered' in cname: continue        # s vs s_lower: outside the translator's image-property abstraction (caught by tables/E)
        ck.self_test(f'canary {cname}', bool(killed), f'killed by {killed[0]}' if killed else 'mutant still proves')
    # ---- 2. arithmetic: engine B
    t0 = time.time()
    bres = b_part(prog)
    for name, ok, detail in bres:
        ck.add_obligation('B', name, 'discharged' if ok else ('unknown' if ok is None else 'failed'), 'ring-normal-form + z3', time.time() - t0, detail)
        if ok is False: ck.violation(name, 'B', detail)
        elif ok is None: ck.undecide(name, str(detail)[:200])
    if bres[0][1] is not None:
        for cname, mod, old, new in B_CANARIES:
            mp_ = prog.mutate(mod, old, new)
            if mp_ is None: ck.notes.append(f"canary '{cname}': pattern no longer matches - skipped"); continue
            killed = [n for n, ok, d in b_part(mp_) if ok is False]
            ck.self_test(f'canary {cname}', bool(killed), f'killed by {killed[0]}' if killed else 'mutant still conforms')
    # ---- 3. arithmetic / identity: engine A (contracts shared with C13 / C14)
    reps = verify_many([(f'{CP}:parse_color_to_rgb', None), (f'{CP}:_parse_number_token', None)], variant='c14')
    ck.absorb_A(reps)
    reps = verify_many([(f'{CV}:rgba_to_rgb#blend', None), (f'{CV}:hsla_to_rgb#blend', None), (f'{CP}:parse_color_to_rgb#wiring', None)], variant='c13')
    ck.absorb_A(reps)
    ck.trust(*TRUSTED)
    # ---- 4. tables: engine D
    lib = rtc.load_lib()
    from oracles import css3_keywords as kw
    table = keyword_table(prog)
    tb = []
    if set(table) != set(kw.KEYWORDS): tb.append({'keywords_only_in_library': sorted(set(table) - set(kw.KEYWORDS))[:5], 'missing_from_library': sorted(set(kw.KEYWORDS) - set(table))[:5]})
    for k, v in kw.KEYWORDS.items():
        for sp in (k, k.upper(), k.title(), ' ' + k + '\n', k[:1].upper() + k[1:]):
            try: got = lib.parse_color_to_rgb(sp)
            except Exception as e: got = f'{type(e).__name__}'
            if got != v: tb.append({'input': sp, 'expected': v, 'observed': got})
    ck.add_obligation('D', 'named colours/table[148 keywords x 5 case / whitespace variants == CSS Color 3 (+rebeccapurple)]', 'failed' if tb else 'discharged', 'exhaustive')
    ck.exhaustive.append({'engine': 'D', 'what': 'keyword table', 'domain': '148 keywords x 5 spellings', 'evaluations': 740, 'exhaustive': True})
    if tb: ck.violation('named colours/table', 'D', {'shown': tb[:3]}, {'call': 'parse_color_to_rgb(keyword)', **tb[0]})
    hb = []
    for a, b, c in itertools.product('0123456789abcdef', repeat=3):
        for s in ('#' + a + b + c, (a + b + c).upper()):
            if s.lower() in table: continue
            try: got = lib.parse_color_to_rgb(s)
            except Exception as e: got = f'{type(e).__name__}'
            if got != (int(a * 2, 16), int(b * 2, 16), int(c * 2, 16)): hb.append({'input': s, 'observed': got})
    digs = '0123456789abcdefABCDEF'
    for x in digs:
        for y in digs:
            try: got = lib.hex_to_rgb('#' + x + y + '0000')
            except Exception as e: got = f'{type(e).__name__}'
            if got != (int(x + y, 16), 0, 0): hb.append({'input': '#' + x + y + '0000', 'observed': got})
    ck.add_obligation('D', 'hex/short_and_digit_pairs[all 4096 #rgb strings with and without #; all 22^2 mixed-case digit pairs]', 'failed' if hb else 'discharged', 'exhaustive')
    ck.exhaustive.append({'engine': 'D', 'what': '#rgb strings and hex digit pairs', 'domain': '4096 x 2 + 484', 'evaluations': 8676, 'exhaustive': True})
    if hb: ck.violation('hex/short_and_digit_pairs', 'D', {'shown': hb[:3]}, {'call': 'parse_color_to_rgb(hex)', **hb[0]})
    n, fails, stats, exhaustive, wall = fdx.sweep('checks.d_workers', 'hex_sweep', args.tier)
    ck.exhaustive.append({'engine': 'D', 'what': '#rrggbb parses to its colour (lower case; upper case / bare / padded every 257th)', 'domain': 'all 16,777,216 colours' if exhaustive else 'quick domain', 'evaluations': n, 'exhaustive': exhaustive, 'wall_s': round(wall, 1)})
    ck.add_obligation('D', 'hex/six_digit[all colours]', 'failed' if fails else 'discharged', 'exhaustive' if exhaustive else 'lattice(bounded)', wall)
    if fails: ck.violation('hex/six_digit', 'D', {'shown': fails[:3]}, {'call': 'parse_color_to_rgb(hex)', **fails[0]})
    ck.evaluations += n + 740 + 8676
    # ---- 5. engine E: members of every functional class vs the reference CSS parser (covers tokenisation)
    rng = random.Random(args.seed + 7)
    jobs = []
    for i in range(4000 if args.tier == 'quick' else 300000):
        jobs.append((gen_css(rng), rtc.rand_rgb(rng) if i % 3 == 0 else None))
    fixed = ['hsl(-300, 50%, 50%)', 'hsl(-120, 100%, 50%)', 'hsl(-1, 100%, 50%)', 'hsl(360, 100%, 50%)', 'hsl(720.5, 100%, 25%)', 'hsl(-360, 10%, 90%)', 'hsla(-300, 50%, 50%, 0.5)', 'rgb(100%, 0%, 50%)', 'rgb(0.4%,99.6%,50%)',
             'rgba(0, 0, 0, 0)', 'rgba(255,255,255,1)', 'RGB(255,0,0)', 'HsL(120 , 100% , 50%)', 'rgb(+255, 0, 0)', 'rgb(007, 08, 9)', 'hsl(+120, 100%, 50%)', 'hsl(1e2, 100%, 50%)']
    jobs += [(s, None) for s in fixed] + [(s, (10, 20, 30)) for s in fixed]
    with mp.get_context('fork').Pool(16) as pool:
        res = pool.map(_css_case, jobs, chunksize=64)
    bad = [(j, b) for j, b, k in res if b]
    judged = sum(1 for _, _, k in res if k == 'ok')
    ck.bounded.append({'engine': 'E', 'what': 'generated in-range rgb()/rgba()/hsl()/hsla()/hex strings (integers, percentages, decimals, signs, leading zeros, optional whitespace, any case; hue in [-720,1080]) through the real parser vs the reference CSS Color 3 parser: nearest 8-bit value (ties open), translucent within 1.5 over a supplied or default background, equivalent spellings identical',
                       'evaluations': judged * 5, 'seed': args.seed, 'bound': f'{judged} generated strings + fixed corner list'})
    ck.add_obligation('E', 'functional notations vs reference parser (bounded; stands in for the tokenisation contract)', 'failed' if bad else 'discharged', 'enumeration(bounded)')
    ck.evaluations += judged * 5
    if bad:
        j, b = bad[0]; w = {'call': 'parse_color_to_rgb(input, background)', 'input': j[0], 'background': j[1], 'observed': b}
        hit = [v for v in ck.violations if v.get('witness') is None]
        for v in hit: v['witness'] = w
        ck.violation('functional notations vs reference parser', 'E', {'detail': b, 'failing_cases': len(bad)}, w)
    ck.assume('TOKENISATION (assumed contract, bounded check): _NUM_RE.findall / replace + re.split / split(",") return the component lexemes of a class member, float(lexeme) is its decimal value',
              'str.strip() / str.lower() image property for the dispatch lemmas; CSS classes with at most 2 optional whitespace characters per slot and numbers of at most 3+3 digits in the class regexes',
              'engine B over the reals; nearest-integer as an uninterpreted function applied to provably equal arguments',
              'h % 360 is the mathematical modulo into [0,360) (CPython float modulo; negative and > 360 hues exercised by engine E)')
    return ck.finish()


def replay(args):
    r = json.load(open(args.replay)); w = r.get('concrete_input') or {}
    if 'input' in w and w['input'] is not None:
        bg = tuple(w['background']) if w.get('background') else None
        j, b, k = _css_case((w['input'], bg)); print('replay', j, '->', b)
        if b: print(f'VIOLATION property=C07 replay={args.replay}'); return 1
        lib = rtc.load_lib()
        if 'expected' in w:
            try: got = lib.parse_color_to_rgb(w['input'])
            except Exception as e: got = repr(e)
            print('table replay', w['input'], got, w['expected'])
            if list(got) != list(w['expected']): print(f'VIOLATION property=C07 replay={args.replay}'); return 1
        return 0
    return run(args)
