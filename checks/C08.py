import json, random, re, time, os
from .common import *
from . import cli_harness as H
from vf import rtc, effects
from vf.program import Program
from contracts.effects import DECLARED

CLI = 'cm_colors.cli.main'
EXPL = ("C08 has two layers. (A, deductive) The per-rule accounting is decided on the REAL statement block of process_nodes_recursive that handles a rule with a text colour - extracted mechanically from "
        "the working tree's AST on every run (vf/extract.py; dropped: the loop over the node list, the scan for the rule's last color/background-color declaration, re-serialisation, the @media/@supports "
        "descent) - against contracts in contracts/cli.py: the Python API is used as function symbols of the CSS strings with the facts its own proved contracts give (C01 valid/flag_iff, C06, C14, C15); "
        "postconditions are the clauses of the statement: exactly one of the three counters goes up by one on every path, including every exception path into the handler (so no call after an increment "
        "may raise: callee preconditions are obligations); 'already readable' only when the pair's ratio reaches 7.0/4.5; 'adjusted' only on success of make_readable(mode, premium) of THIS pair, and "
        "the one colour written (rule's own declaration, or the referenced custom property) and the colour reported are the API's colour; 'needs attention': listed with its selector, nothing written. A second extracted block (the @media/@supports branch) is proved to descend only into those at-rules, exactly once, forwarding default_bg / stats / file / variables / mode / premium unchanged, and to rebuild the at-rule's content after the descent. A third one (the loop over a rule's parsed declarations, for a list of ANY length) is proved to end with the LAST `color` / `background-color` declaration (CSS: the last one wins) - loop invariant over the recursive spec function LAST(k) = index of the last such declaration among the first k. "
        "(E, BOUNDED) what the block does not see - tinycss2 parsing/serialisation, which declaration is found, nesting, custom-property resolution, the counts printed, the report and the written file - "
        "is checked by running the REAL click command on an enumerated corpus of stylesheets x --mode/--premium/--default-bg and judging the outcome with the harness's own oracles (independent "
        "classification of every rule, CSS-cascade custom properties, WCAG oracle, the Python API). A deductive proof of the file-level clause would be a proof about a model of tinycss2 (another family). "
        "Known findings are matched by (failure kind | trigger).")


def trigger_of(sel, raw_t, props, nrefs, bad_decl):
    if bad_decl: return 'unserialisable-declaration'
    if sel in (':root', 'html'): return 'root-rule-own-colour'
    m = H._VAR.match(raw_t.strip())
    if m:
        # a property referenced (directly or inside a fallback) by two or more rules with a text colour: rewriting it for one rule changes the others
        if any(nrefs.get(nm, 0) >= 2 and nm in props for nm in re.findall(r'var\(\s*(--[\w-]+)', raw_t)): return 'var-shared'
        if m.group(2) is not None: return 'var-with-fallback'
        if m.group(1) not in props: return 'var-undefined'
        if nrefs.get(m.group(1), 0) >= 2: return 'var-shared'
        return 'var'
    return 'plain'


def case(job):
    name, css, feats, opts = job
    lib = rtc.load_lib()
    from oracles import colour as oc
    mode, premium, dbg = H.settings_of(opts)
    target = 7.0 if premium else 4.5
    r = H.run_cli({name: css}, name, opts)
    problems = []
    if r['exc']: problems.append(('command raised', 'plain', r['exc']))
    st = H.parse_stdout(r['out'])
    out_name = name[:-4] + '_cm.css'
    out_css = r['after'].get(out_name); out_css = out_css.decode('utf-8') if isinstance(out_css, bytes) else None
    rep = r['after'].get('cm_colors_report.html'); rep = rep.decode('utf-8') if isinstance(rep, bytes) else None
    props = H.custom_properties(css)
    nrefs = {}
    rules = list(H.walk_rules(H.parse_sheet(css)))
    for sel, decls, depth, bad in rules:
        rc = H.rule_colours(decls, props, dbg)
        if rc:
            for nm in set(re.findall(r'var\(\s*(--[\w-]+)', rc[0])): nrefs[nm] = nrefs.get(nm, 0) + 1
    expected = []
    for sel, decls, depth, bad in rules:
        rc = H.rule_colours(decls, props, dbg)
        if rc is None: continue
        raw_t, raw_b, rt, rb = rc
        trig = trigger_of(sel, raw_t, props, nrefs, bad)
        cat, api = 'attention', None
        if rt is not None and rb is not None:
            pair = lib.ColorPair(rt, rb)
            if pair.is_valid:
                ratio = oc.contrast(oc.FloatK, pair.text.rgb, pair.bg.rgb)
                if ratio >= target: cat = 'readable'
                else:
                    col, ok = pair.make_readable(mode, very_readable=premium)
                    cat, api = ('adjusted', col) if ok else ('attention', col)
        expected.append({'selector': sel, 'raw_t': raw_t, 'raw_b': raw_b, 'text': rt, 'bg': rb, 'cat': cat, 'api': api, 'trigger': trig})
    n = len(expected)
    total = st['accessible'] + st['tuned'] + st['failed']
    present = {e['trigger'] for e in expected}
    # sheet-level failures are attributed to ONE trigger: the most disruptive construct present in the sheet
    # ... and the unserialisable declaration is disruptive only when it actually aborted the file (the command says so); otherwise it is inert
    aborted = 'Error processing' in ((r['out'] or '') + (r['err'] or ''))
    order = (['unserialisable-declaration'] if aborted else []) + ['var-shared', 'root-rule-own-colour', 'var-with-fallback', 'var-undefined']
    trigs = [next((t for t in order if t in present), 'plain')]
    if total != n: problems.append((f'rules with a text colour: {n}, counted: {total}', '+'.join(trigs), st))
    exp_counts = {c: sum(1 for e in expected if e['cat'] == c) for c in ('readable', 'adjusted', 'attention')}
    cards = H.parse_report(rep) if rep else []
    # "each rule counted as already readable really meets that target": per selector, the rules the command counted as readable (those neither listed as
    # needing attention nor reported as adjusted) may not outnumber the rules of that selector whose pair meets the target by the independent oracle.
    # (The statement does not say a fixable rule MUST be fixed: a rule the command lists as needing attention although the oracle could classify it
    # otherwise - e.g. a comment inside the colour value - is not a violation and is only noted.)
    count_note = None
    if total == n and len(cards) == st['tuned']:
        listed_sel = [s_ for f_, s_ in st['listed']]
        for sel in sorted({e['selector'] for e in expected}):
            mine = [e for e in expected if e['selector'] == sel]
            tool_read = len(mine) - listed_sel.count(sel) - sum(1 for c in cards if c['selector'] == sel)
            ok_read = sum(1 for e in mine if e['cat'] == 'readable')
            if tool_read > ok_read:
                e0 = next(e for e in mine if e['cat'] != 'readable')
                problems.append((f"rule(s) {sel!r}: {tool_read} counted as already readable but only {ok_read} meet the target ratio by the oracle", e0['trigger'] if len(mine) == 1 else '+'.join(trigs), e0))
        if (st['accessible'], st['tuned'], st['failed']) != (exp_counts['readable'], exp_counts['adjusted'], exp_counts['attention']):
            count_note = f"counts (readable, adjusted, attention) reported {(st['accessible'], st['tuned'], st['failed'])}, independent classification {tuple(exp_counts.values())}"
    if st['tuned'] != len(cards): problems.append((f"{st['tuned']} adjusted reported, {len(cards)} cards in the HTML report", '+'.join(trigs), None))
    if st['tuned'] > 0 and out_css is None:
        problems.append(('rules reported as adjusted but no _cm.css was written', '+'.join(trigs), r['err'][-200:] if r['err'] else None))
    if out_css is not None:
        oprops = H.custom_properties(out_css)
        orules = [(s_, d_) for s_, d_, _, _ in H.walk_rules(H.parse_sheet(out_css))]
        used = {}
        for c in cards:
            k = used.get(c['selector'], 0); used[c['selector']] = k + 1
            # several rules may share a selector (e.g. `html` at top level and inside @media): the k-th card under a selector belongs to
            # the k-th rule of that selector that the independent classification calls adjusted (document order); when the
            # classifications disagree (already reported as category-counts-differ) fall back to the k-th rule of that selector
            same = [e for e in expected if e['selector'] == c['selector']]
            cand = [e for e in same if e['cat'] == 'adjusted'] or same
            e = cand[min(k, len(cand) - 1)] if cand else None
            pos = next((i for i, x in enumerate(same) if x is e), 0)
            if e is None: problems.append((f"report lists selector {c['selector']!r} that has no text colour in the input", 'plain', None)); continue
            after = H.css_rgb(c['after'])
            if after is None: problems.append((f"reported colour {c['after']!r} is not an opaque CSS colour", e['trigger'], None)); continue
            if e['bg'] is not None and lib.ColorPair(c['after'], e['bg']).is_valid:
                bgrgb = lib.ColorPair(c['after'], e['bg']).bg.rgb
                if oc.contrast(oc.FloatK, after, bgrgb) < target - 1e-9: problems.append((f"reported colour {c['after']} has ratio {oc.contrast(oc.FloatK, after, bgrgb):.3f} < {target} against {e['bg']}", e['trigger'], e))
            if e['api'] is not None and e['cat'] == 'adjusted' and c['after'] != e['api']:
                problems.append((f"reported colour {c['after']!r} differs from the Python API's {e['api']!r} for the same pair and settings", e['trigger'], e))
            # what the written file says for that rule
            occ = [d_ for s_, d_ in orules if s_ == c['selector']]
            # the k-th rule WITH a colour declaration under that selector
            occ = [d_ for d_ in occ if any(x.lower_name == 'color' for x in d_)]
            if not occ: problems.append((f"rule {c['selector']!r} reported as adjusted is missing from the output", e['trigger'], None)); continue
            d_ = occ[min(pos, len(occ) - 1)]      # same position among the rules of that selector that set a text colour
            rc = H.rule_colours(d_, oprops, dbg)
            written = H.css_rgb(rc[2]) if rc and rc[2] is not None else None
            if written != after:
                problems.append((f"reported as adjusted to {c['after']} but the written file sets it to {rc[2] if rc else None!r}", e['trigger'], e))
        # rules needing attention: listed and unchanged
        listed = [s_ for f_, s_ in st['listed']]
        seen_sel = {}
        for e in expected:
            pos = seen_sel.get(e['selector'], 0); seen_sel[e['selector']] = pos + 1
            if e['cat'] == 'attention':
                if e['selector'] not in listed and total == n and exp_counts['attention'] == st['failed']:
                    problems.append((f"rule {e['selector']!r} needs attention but is not listed", e['trigger'], e))
                # left unchanged: the text colour the written file gives the rule (directly or through its custom property) is the input's
                if exp_counts['attention'] == st['failed'] and total == n:
                    occ = [d_ for s_, d_ in orules if s_ == e['selector'] and any(x.lower_name == 'color' for x in d_)]
                    if pos < len(occ):
                        rc = H.rule_colours(occ[pos], oprops, dbg)
                        if rc is not None and (rc[0], rc[2]) != (e['raw_t'], e['text']):
                            problems.append((f"rule {e['selector']!r} needs attention but its text colour changed {e['raw_t']!r} ({e['text']}) -> {rc[0]!r} ({rc[2]})", e['trigger'], e))
    ncards = len(cards)
    if trigs[0] == 'var-shared':
        # The recorded finding F6 is ONE specific behaviour: rules are handled in document order, an adjusted rule rewrites the definition of
        # the property it references, and later rules are judged against the rewritten value.  That behaviour is simulated here; only when
        # the command's outcome (counts, reported colours in order, final values of the custom properties) is exactly the simulated one are
        # the symptoms attributed to the known finding - any other outcome on such a sheet is a different violation and is reported.
        sim = simulate_shared_property(rules, props, dbg, mode, premium, target, lib, oc)
        got = {'counts': (st['accessible'], st['tuned'], st['failed']), 'reported': [c['after'] for c in cards],
               'properties': {k: (H.css_rgb(v) if v is not None else None) for k, v in (H.custom_properties(out_css) if out_css is not None else {}).items()}}
        want = {'counts': sim['counts'], 'reported': sim['reported'], 'properties': {k: (H.css_rgb(v) if v is not None else None) for k, v in sim['properties'].items()}}
        same = got['counts'] == want['counts'] and [H.css_rgb(x) for x in got['reported']] == [H.css_rgb(x) for x in want['reported']] and all(got['properties'].get(k) == v for k, v in want['properties'].items())
        label = 'var-shared' if same else 'var-shared:unexpected-outcome'
        problems = [(k, label, d if same else {'command': got, 'known_behaviour_would_give': want}) for k, t, d in problems]
    elif trigs[0] == 'unserialisable-declaration' and 'Can not serialize <ParseError' not in ((r['out'] or '') + (r['err'] or '')):
        # the file was aborted, but not by the recorded cause (F7: tinycss2 cannot serialise a ParseError node): a different failure
        problems = [(k, 'unserialisable-declaration:other-error', d) for k, t, d in problems]
    elif trigs[0] == 'unserialisable-declaration':
        # the abort explains exactly "no output written" and "rules after the offending one not counted"; when a shared custom
        # property is present as well, every other kind of failure on the sheet is attributed to that construct instead
        other = 'var-shared' if 'var-shared' in present else trigs[0]
        problems = [(k, trigs[0] if kind_of(k) in ('no-output-written', 'counted-not-exactly-once') else other, d) for k, t, d in problems]
    return {'name': name, 'opts': list(opts), 'n_rules': n, 'cards': ncards, 'count_note': count_note, 'problems': [(k, t, json.loads(json.dumps(d, default=str)) if d is not None else None) for k, t, d in problems], 'css': css, 'features': sorted(feats)}


def simulate_shared_property(rules, props, dbg, mode, premium, target, lib, oc):
    """the recorded behaviour F6: document order, write-through to the referenced property, later rules see the rewritten value"""
    cur = dict(props)
    counts = [0, 0, 0]; reported = []
    for sel, decls, depth, bad in rules:
        rc = H.rule_colours(decls, cur, dbg)
        if rc is None: continue
        raw_t, raw_b, rt, rb = rc
        cat, col = 'attention', None
        if rt is not None and rb is not None:
            pair = lib.ColorPair(rt, rb)
            if pair.is_valid:
                if oc.contrast(oc.FloatK, pair.text.rgb, pair.bg.rgb) >= target: cat = 'readable'
                else:
                    col, ok = pair.make_readable(mode, very_readable=premium)
                    cat = 'adjusted' if ok else 'attention'
        counts[('readable', 'adjusted', 'attention').index(cat)] += 1
        if cat == 'adjusted':
            reported.append(col)
            m = H._VAR.match(raw_t.strip())
            if m and m.group(1) in cur: cur[m.group(1)] = col
    return {'counts': tuple(counts), 'reported': reported, 'properties': {k: v for k, v in cur.items() if props.get(k) != v}}


def kind_of(msg):
    """failure kind without the numbers"""
    if msg.startswith('rules with a text colour'): return 'counted-not-exactly-once'
    if msg.startswith('counts'): return 'category-counts-differ'
    if 'cards in the HTML report' in msg: return 'report-cards-differ'
    if 'no _cm.css was written' in msg: return 'no-output-written'
    if 'the written file sets it' in msg: return 'reported-not-written'
    if 'differs from the Python API' in msg: return 'reported-differs-from-api'
    if 'has ratio' in msg: return 'reported-below-target'
    if 'counted as already readable but only' in msg: return 'counted-readable-below-target'
    if 'not listed' in msg: return 'attention-not-listed'
    if 'its text colour changed' in msg: return 'attention-rule-changed'
    return re.sub(r'[^a-z ]', '', msg.lower())[:40].strip().replace(' ', '-')


def threshold_band_sheets(seed, n):
    """pairs whose ratio lies within 0.005 of 4.5 or 7.0 on either side (literal colours, own background)"""
    from oracles import colour as oc
    rng = random.Random(seed + 88); out = []
    while len(out) < n:
        t, b = rtc.rand_rgb(rng), rtc.rand_rgb(rng) if rng.random() < 0.6 else (255, 255, 255)
        r = oc.contrast(oc.FloatK, t, b)
        if abs(r - 4.5) < 0.005 or abs(r - 7.0) < 0.005:
            out.append((f'band{len(out)}.css', f'.band {{ color: #{t[0]:02x}{t[1]:02x}{t[2]:02x}; background-color: #{b[0]:02x}{b[1]:02x}{b[2]:02x} }}\n', {'threshold-band'}))
    return out


def structural(prog):
    """engine C: structure of the per-rule decision logic on the real AST of process_nodes_recursive, by dataflow
    (single-assignment resolution of names), not by variable names"""
    import ast
    out = []
    try: fn, m = prog.func(f'{CLI}:process_nodes_recursive')
    except KeyError as e: return [('process_nodes_recursive/structure', None, str(e))]
    assigns = {}
    for n in ast.walk(fn):
        if isinstance(n, ast.Assign) and len(n.targets) == 1:
            t = n.targets[0]
            if isinstance(t, ast.Name): assigns.setdefault(t.id, []).append(n.value)
            elif isinstance(t, ast.Tuple):
                for i, x in enumerate(t.elts):
                    if isinstance(x, ast.Name): assigns.setdefault(x.id, []).append(('item', i, n.value))
    def res(e, depth=0):
        while isinstance(e, ast.Name) and depth < 5 and len(assigns.get(e.id, [])) == 1 and not isinstance(assigns[e.id][0], tuple):
            e = assigns[e.id][0]; depth += 1
        return e
    parents = {}
    for n in ast.walk(fn):
        for c in ast.iter_child_nodes(n): parents[c] = n
    def enclosing_if(node):
        """(If node, in_body?) chain from innermost outwards"""
        chain = []; c = node
        while c in parents:
            p = parents[c]
            if isinstance(p, ast.If): chain.append((p, any(c is x for x in p.body)))
            c = p
        return chain
    incs = {}
    for n in ast.walk(fn):
        if isinstance(n, ast.AugAssign) and isinstance(n.target, ast.Subscript) and isinstance(n.target.value, ast.Name) and n.target.value.id == fn.args.args[2].arg and isinstance(n.op, ast.Add):
            try: incs.setdefault(ast.literal_eval(n.target.slice), []).append(n)
            except Exception: pass
    ok = set(k for k in incs if k in ('accessible', 'tuned', 'failed')) == {'accessible', 'tuned', 'failed'} and all(isinstance(x.value, ast.Constant) and x.value.value == 1 for k, v in incs.items() if k in ('accessible', 'tuned', 'failed') for x in v)
    out.append(('process_nodes_recursive/counters[accessible / tuned / failed are each incremented by the literal 1 only]', ok, {k: [x.lineno for x in v] for k, v in incs.items()}))
    # already readable  <=>  WCAG ratio of the pair >= (7.0 if premium else 4.5)
    ok = False; detail = {}
    if len(incs.get('accessible', [])) == 1:
        ch = enclosing_if(incs['accessible'][0])
        if ch and ch[0][1]:
            t = ch[0][0].test
            if isinstance(t, ast.Compare) and len(t.ops) == 1 and isinstance(t.ops[0], ast.GtE):
                left, right = res(t.left), res(t.comparators[0])
                detail = {'left': ast.unparse(left), 'right': ast.unparse(right)}
                l_ok = isinstance(left, ast.Call) and ast.unparse(left.func) == 'calculate_contrast_ratio' and [ast.unparse(a) for a in left.args] in (['pair.text.rgb', 'pair.bg.rgb'], ['pair.text._rgb', 'pair.bg._rgb']) or \
                       (isinstance(left, ast.Call) and ast.unparse(left.func) == 'calculate_contrast_ratio' and len(left.args) == 2 and all(ast.unparse(a).endswith(x) for a, x in zip(left.args, ('.text.rgb', '.bg.rgb'))))
                r_ok = isinstance(right, ast.IfExp) and ast.unparse(right) in ('7.0 if premium else 4.5', '7 if premium else 4.5')
                ok = bool(l_ok and r_ok)
    out.append(('process_nodes_recursive/readable_decision[counted already readable exactly when calculate_contrast_ratio(text, bg) >= (7.0 if premium else 4.5)]', ok, detail))
    # adjusted: guarded by the success flag of pair.make_readable(mode=mode, very_readable=premium); else failed
    ok = False; detail = {}
    if len(incs.get('tuned', [])) == 1:
        ch = enclosing_if(incs['tuned'][0])
        if ch and ch[0][1] and isinstance(ch[0][0].test, ast.Name):
            src = assigns.get(ch[0][0].test.id, [])
            if len(src) == 1 and isinstance(src[0], tuple) and src[0][1] == 1 and isinstance(src[0][2], ast.Call):
                call = src[0][2]
                kws = {k.arg: ast.unparse(k.value) for k in call.keywords}
                detail = {'call': ast.unparse(call)}
                ok = isinstance(call.func, ast.Attribute) and call.func.attr == 'make_readable' and kws == {'mode': 'mode', 'very_readable': 'premium'} and not call.args
                ok = ok and any(isinstance(x, ast.AugAssign) and x in incs.get('failed', []) for st in ch[0][0].orelse for x in ast.walk(st))
                body_calls = [ast.unparse(x.func) for st in ch[0][0].body for x in ast.walk(st) if isinstance(x, ast.Call)]
                ok = ok and 'update_decl_value' in body_calls
    out.append(("process_nodes_recursive/adjusted_branch[guarded by the success flag of pair.make_readable(mode=mode, very_readable=premium); writes through update_decl_value; otherwise counts failed]", ok, detail))
    return out


BLOCK = f'{CLI}:process_nodes_recursive__coloured_rule'
BLOCK_AT = f'{CLI}:process_nodes_recursive__at_rule'
BLOCK_SCAN = f'{CLI}:process_nodes_recursive__decl_scan'
RESOLVE = f'{CLI}:resolve_variable'
def _cn(name, old, new, expect): return {'name': name, 'mod': CLI, 'old': old, 'new': new, 'fn': BLOCK, 'expect': expect}
CANARIES_A = [
    _cn('readable counted twice', '                            stats["accessible"] += 1\n', '                            stats["accessible"] += 2\n', 'counted_exactly_once'),
    _cn('premium target lowered to 4.5', 'target_ratio = 7.0 if premium else 4.5', 'target_ratio = 4.5', 'readable_means_target'),
    _cn('very_readable not forwarded to the API', '                                mode=mode, very_readable=premium\n', '                                mode=mode\n', 'adjusted_is_api_success'),
    _cn('reports a colour other than the one written', '"tuned_text": tuned_rgb,', '"tuned_text": text_color_str,', 'adjusted_written_and_reported'),
    _cn('new level computed from the unresolved text (may raise after the count)', 'new_pair = ColorPair(tuned_rgb, bg_color_str)', 'new_pair = ColorPair(raw_text_color, bg_color_str)', 'call[get_wcag_level]'),
    _cn('adjusted counted before the success test', '                            if is_accessible:\n                                stats["tuned"] += 1\n', '                            stats["tuned"] += 1\n                            if is_accessible:\n', 'counted_exactly_once'),
    _cn('invalid pair not counted', '                    if not pair.is_valid:\n                        stats["failed"] += 1\n', '                    if not pair.is_valid:\n', 'counted_exactly_once'),
    dict(_cn('nested rules: --premium not forwarded', '                    mode=mode,\n                    premium=premium,\n                )\n\n                nested_css', '                    mode=mode,\n                )\n\n                nested_css', 'settings_forwarded'), fn=f'{CLI}:process_nodes_recursive__at_rule'),
    dict(_cn('nested rules: default background reset to white', '                process_nodes_recursive(\n                    nested_rules,\n                    default_bg,', '                process_nodes_recursive(\n                    nested_rules,\n                    "white",', 'settings_forwarded'), fn=f'{CLI}:process_nodes_recursive__at_rule'),
    dict(_cn('at-rule content not rebuilt after the descent', '                node.content = new_content\n', '                pass\n', 'rebuilt_after_descent'), fn=f'{CLI}:process_nodes_recursive__at_rule'),
    dict(_cn('declaration scan stops once colour and background were seen', '                elif decl.name == "background-color":\n                    bg_decl = decl\n', '                elif decl.name == "background-color":\n                    bg_decl = decl\n                if color_decl and bg_decl:\n                    break\n', 'is_the_last'), fn=f'{CLI}:process_nodes_recursive__decl_scan'),
    dict(_cn('first `color` declaration wins', '                if decl.name == "color":\n                    color_decl = decl', '                if decl.name == "color" and color_decl is None:\n                    color_decl = decl', 'color_is_last'), fn=f'{CLI}:process_nodes_recursive__decl_scan'),
    dict(_cn('custom property looked up without the membership test (KeyError on an undefined name)', '    if var_name in variables:\n        resolved = resolve_variable(', '    if True:\n        resolved = resolve_variable(', 'raises_only'), fn=f'{CLI}:resolve_variable'),
    dict(_cn('resolve_variable returns the match object', '    if var_name in visited:\n        return fallback', '    if var_name in visited:\n        return match', 'result'), fn=f'{CLI}:resolve_variable'),
    dict(_cn('resolve_variable splits the fallback without testing it for None', '    if fallback:\n        return resolve_variable(fallback, variables, visited)', '    if True:\n        return resolve_variable(fallback.strip(), variables, visited)', None), fn=f'{CLI}:resolve_variable'),
    _cn('ratio kept in a second local (harmless)', 'contrast = calculate_contrast_ratio(pair.text.rgb, pair.bg.rgb)\n\n                        if contrast >= target_ratio:', 'ratio_now = calculate_contrast_ratio(pair.text.rgb, pair.bg.rgb)\n                        contrast = ratio_now\n\n                        if ratio_now >= target_ratio:', None),
]


def run(args):
    import multiprocessing as mp
    ck = Check('C08', args.tier, args.seed, 'other')
    ck.explanation = EXPL
    prog = Program()
    # ---- engine A: the per-rule block under contract (+ canaries: in-memory mutants of the real source)
    from vf.engine_a import verify_many
    cj = []
    for cn in CANARIES_A:
        ov = mutate(prog, CLI, cn['old'], cn['new']); cj.append(None if ov is None else (cn['fn'], ov))
    reps = verify_many([(BLOCK, None), (BLOCK_AT, None), (BLOCK_SCAN, None), (RESOLVE, None)] + [j for j in cj if j], variant='c08')
    ck.absorb_A(reps[:4])
    it = iter(reps[4:]); ck.absorb_canaries(CANARIES_A, [None if j is None else next(it) for j in cj])
    for s_ in ck.selftest:
        if '(harmless)' in s_['name']:
            s_['ok'] = not s_['ok'] if ('still verifies' in s_['detail'] or 'killed' in s_['detail']) else s_['ok']; s_['detail'] = 'harmless edit: ' + s_['detail']
    ck.trust(*TRUSTED)
    for bq in (BLOCK, BLOCK_AT, BLOCK_SCAN):
      ex = getattr(prog, 'extracted', {}).get(bq)
      if ex: ck.notes.append(f"extracted block {bq.split(':')[1]}: lines {ex['lines'][0]}-{ex['lines'][1]} of cli/main.py, parameters {ex['params']}, returns {ex['returns']}; dropped by the extraction: {ex['drops']}")
    from contracts.registry import build
    for q_, c_ in build('c08').contracts.items():
        if c_.assumed and (q_.startswith(CLI) or 'ColorPair' in q_): ck.assume(f"assumed contract {q_.split(':')[1]}: {c_.assumed}")
    ck.assume("precondition of the block: every value of `variables` is a dict with the keys 'decl' and 'value' (the dict literal in main(), the only place entries are created)")
    ck.functions += [f'{CLI}:main']
    nsheets = 140 if args.tier == 'quick' else 4000
    sheets = H.gen_sheets(20261003, nsheets // 2) + H.gen_sheets(args.seed + 8, nsheets - nsheets // 2)
    sheets += threshold_band_sheets(args.seed, 12 if args.tier == 'quick' else 200)
    jobs = [(n, c, f, H.SETTINGS[i % len(H.SETTINGS)]) for i, (n, c, f) in enumerate(sheets)] + H.core_jobs()
    t0 = time.time()
    with mp.get_context('fork').Pool(16) as pool:
        res = pool.map(case, jobs, chunksize=2)
    nrules = sum(r['n_rules'] for r in res)
    ck.evaluations = nrules
    ck.distinct = len({(r['css'], tuple(r['opts'])) for r in res})
    ck.rule = 'one case = one generated stylesheet x one settings tuple run through the real command; counted in rules with a text colour; distinct = distinct (stylesheet text, settings)'
    ck.bounded.append({'engine': 'E', 'sheets': len(res), 'rules_with_text_colour': nrules, 'adjustments_checked': sum(r['cards'] for r in res), 'seed': args.seed, 'wall_s': round(time.time() - t0, 1),
                       'bound': 'deterministic corpus (seed 20261003) + seeded corpus; <= 3 rules per sheet, nesting <= 3, 8 settings tuples round-robin'})
    ck.sample({'stylesheet': res[0]['css'], 'options': res[0]['opts'], 'rules_with_text_colour': res[0]['n_rules'], 'problems': res[0]['problems']})
    groups = {}
    for r in res:
        for msg, trig, d in r['problems']:
            groups.setdefault((kind_of(msg), trig), []).append((r, msg, d))
    ok_all = not groups
    ck.add_obligation('E', f'cm-colors on {len(res)} generated stylesheets: counts, report, written file, API agreement (bounded)', 'discharged' if ok_all else 'failed', 'enumeration(bounded)')
    for (kind, trig), items in sorted(groups.items()):
        r, msg, d = items[0]
        for v in ck.violations:      # a failed deductive obligation gets the first failing stylesheet of this run as its concrete input
            if v['engine'] == 'A' and v.get('witness') is None and not ck._match_known({'obligation': f'cm-colors/{kind}', 'extra': {'witness_key': f'{kind}|{trig}'}}, ck._known()):
                v['witness'] = {'call': 'cm-colors <file> ' + ' '.join(r['opts']), 'stylesheet': r['css'], 'options': r['opts'], 'observed': msg, 'rule': d}
        ck.violation(f'cm-colors/{kind}', 'E', {'cases': len(items), 'first_message': msg, 'trigger': trig},
                     {'call': 'cm-colors <file> ' + ' '.join(r['opts']), 'stylesheet': r['css'], 'options': r['opts'], 'observed': msg, 'rule': d}, {'witness_key': f'{kind}|{trig}'})
    ck.assume('BOUNDED: only the generated stylesheets are judged', 'tinycss2 tokenizer/parser is the trusted reader of input and output sheets',
              'a rule "has a text colour" iff it has a `color` declaration (last one wins); background = last background-color, else --default-bg (click default "white")',
              'custom properties: only top-level :root / html definitions, value exactly one var() reference, CSS fallback semantics')
    ck.trust('tinycss2', 'click.testing.CliRunner runs the real command in-process')
    return ck.finish()


def replay(args):
    r = json.load(open(args.replay)); w = r.get('concrete_input') or {}
    if 'stylesheet' in w:
        out = case(('replay.css', w['stylesheet'], set(), tuple(w['options'])))
        print('replay problems:', [(kind_of(m), t) for m, t, d in out['problems']])
        key = (r.get('extra') or {}).get('witness_key')
        if any(f'{kind_of(m)}|{t}' == key for m, t, d in out['problems']) or (key is None and out['problems']):
            print(f'VIOLATION property=C08 replay={args.replay}'); return 1
        return 0
    return run(args)
