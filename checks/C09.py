import json, random, re, time, os
from .common import *
from . import cli_harness as H
from vf import rtc, effects
from vf.program import Program
from contracts.effects import DECLARED
import z3

CLI = 'cm_colors.cli.main'
EXPL = ("C09: (C, frame - proved on the real ASTs) the only file effects of the command are open(file_path, 'r') for the input, open(output_path, 'w') with output_path = file_path.parent / (file_path.stem + "
        "'_cm' + file_path.suffix), and generate_report's open of its default 'cm_colors_report.html' (relative => working directory); nothing in the package deletes, renames or creates anything else; "
        "the output name differs from the input name for every stem/suffix (z3 string lemma), so the input path is never opened for writing. click / tinycss2 / rich are assumed not to write files. "
        "(E, BOUNDED) 'same rules, selectors, at-rules, comments and declarations in the same order, differing only in text-colour values (or the custom properties they reference) of rules reported as "
        "adjusted, whitespace and semicolons' quantifies over stylesheets as read by tinycss2 and is checked on the generated corpus extended with everything to be carried through (@import/@charset/"
        "@font-face/@keyframes/@page/unknown at-rules, strings and url() with braces/semicolons/comment markers, escapes, !important, vendor hacks, empty rules, non-ASCII): structural diff of input vs output.")


def norm_ws(s): return re.sub(r'\s+', ' ', s).strip()


def structure(text):
    """nested normal form of a stylesheet (tinycss2 as trusted reader): comments kept, whitespace and trailing semicolons dropped"""
    import tinycss2
    def decls(content):
        out = []
        for d in tinycss2.parse_declaration_list(content, skip_whitespace=True, skip_comments=False):
            if d.type == 'declaration': out.append(('decl', d.lower_name, norm_ws(tinycss2.serialize(d.value)), bool(d.important)))
            elif d.type == 'comment': out.append(('comment', d.value))
            elif d.type == 'error': out.append(('error', d.kind))
            elif d.type == 'at-rule': out.append(('at', d.lower_at_keyword, norm_ws(tinycss2.serialize(d.prelude))))
        return out
    def rules(nodes):
        out = []
        for n in nodes:
            if n.type == 'comment': out.append(('comment', n.value))
            elif n.type == 'qualified-rule': out.append(('rule', norm_ws(tinycss2.serialize(n.prelude)), decls(n.content)))
            elif n.type == 'at-rule':
                if n.lower_at_keyword in ('media', 'supports') and n.content is not None:
                    out.append(('at', n.lower_at_keyword, norm_ws(tinycss2.serialize(n.prelude)), rules(tinycss2.parse_rule_list(n.content, skip_whitespace=True, skip_comments=False))))
                else:
                    out.append(('at', n.lower_at_keyword, norm_ws(tinycss2.serialize(n.prelude)), None if n.content is None else norm_ws(tinycss2.serialize(n.content))))
            elif n.type == 'error': out.append(('error', n.kind))
        return out
    return rules(tinycss2.parse_stylesheet(text, skip_whitespace=True, skip_comments=False))


def diff(a, b, adjusted, path=''):
    """differences between two structures that are NOT allowed; `adjusted` = selectors reported as adjusted"""
    probs = []
    if len(a) != len(b): return [f'{path}: {len(a)} nodes in the input, {len(b)} in the output']
    for i, (x, y) in enumerate(zip(a, b)):
        if x[0] != y[0] or x[1] != y[1]: probs.append(f'{path}[{i}]: {x[:2]} became {y[:2]}'); continue
        if x[0] == 'rule':
            dx, dy = x[2], y[2]
            if len(dx) != len(dy): probs.append(f'{path}[{i}] {x[1]}: {len(dx)} declarations/comments became {len(dy)}'); continue
            for p, q in zip(dx, dy):
                if p == q: continue
                if p[0] == q[0] == 'decl' and p[1] == q[1] and p[3] == q[3] and (p[1] == 'color' or p[1].startswith('--')):
                    if p[1] == 'color' and x[1] not in adjusted: probs.append(f'{path}[{i}] {x[1]}: colour changed {p[2]!r} -> {q[2]!r} but the rule is not reported as adjusted')
                    continue
                probs.append(f'{path}[{i}] {x[1]}: {p} became {q}')
        elif x[0] == 'at':
            if x[2] != y[2]: probs.append(f'{path}[{i}] @{x[1]}: prelude {x[2]!r} became {y[2]!r}')
            if isinstance(x[3], list) and isinstance(y[3], list): probs += diff(x[3], y[3], adjusted, f'{path}@{x[1]}[{i}]')
            elif x[3] != y[3]: probs.append(f'{path}[{i}] @{x[1]}: content changed')
    return probs


def case(job):
    name, css, feats, opts, as_dir = job
    files = {name: css}
    if as_dir: files = {f'sub/{name}': css}
    r = H.run_cli(files, 'sub' if as_dir else name, opts)
    rel = f'sub/{name}' if as_dir else name
    problems = []
    before, after = r['before'], r['after']
    if after.get(rel) != before.get(rel): problems.append(('input file modified', 'plain'))
    stem, suf = os.path.splitext(rel)
    out_name = stem + '_cm' + suf
    allowed = set(before) | {out_name, 'cm_colors_report.html'}
    extra = sorted(set(after) - allowed)
    if extra: problems.append((f'unexpected files created: {extra}', 'plain'))
    if set(before) - set(after): problems.append((f'files removed: {sorted(set(before) - set(after))}', 'plain'))
    out = after.get(out_name)
    trig = 'unserialisable-declaration' if 'unserialisable-declaration' in feats else ('plain')
    if isinstance(out, bytes):
        try: out_text = out.decode('utf-8')
        except UnicodeDecodeError: out_text = None; problems.append(('output is not UTF-8', 'plain'))
        if out_text is not None:
            rep = after.get('cm_colors_report.html')
            cards = H.parse_report(rep.decode('utf-8')) if isinstance(rep, bytes) else []
            adjusted = {c['selector'] for c in cards}
            try:
                d = diff(structure(css), structure(out_text), {norm_ws(s) for s in adjusted})
            except Exception as e:
                d = [f'structure comparison failed: {e!r}']
            for x in d[:3]: problems.append((x, trig))
    return {'name': name, 'opts': list(opts), 'as_dir': as_dir, 'css': css, 'problems': problems, 'has_output': isinstance(out, bytes)}


def kind_of(msg):
    if 'input file modified' in msg: return 'input-modified'
    if 'unexpected files' in msg: return 'extra-files'
    if 'files removed' in msg: return 'files-removed'
    if 'not reported as adjusted' in msg: return 'unreported-colour-change'
    if 'nodes in the input' in msg or 'declarations/comments became' in msg: return 'nodes-added-or-dropped'
    return 'structure-changed'


def frame(prog):
    import ast
    out = []
    obls, sums, an = effects.check_all(prog, DECLARED)
    for o in obls:
        if 'qual' in o and (o['qual'].startswith('cm_colors.cli.')):
            out.append((o['name'], o['ok'], o['detail']))
    # every file effect of the package, by site
    fs = []
    for q, s in sums.items():
        for atom, sites in s.effects.items():
            if atom.startswith('fs_write'): fs.append((q.split(':')[1], atom))
    # name-independent: who writes files, and what
    writers = {}
    for fq, atom in fs: writers.setdefault(fq, []).append(atom)
    ok_w = set(writers) == {'main', 'generate_report', 'to_html_bulk'} and all(len(v) == 1 for v in writers.values())
    for fq, modq in (('generate_report', 'cm_colors.cli.html_report:generate_report'), ('to_html_bulk', 'cm_colors.core.visualiser:to_html_bulk')):
        try:
            f2, _ = prog.func(modq)
            ok_w = ok_w and writers.get(fq, [''])[0].split(':', 1)[1] in [a.arg for a in f2.args.args]          # the path they write is one of their own parameters
        except KeyError: ok_w = False
    out.append(('package/file_writes[only main, generate_report, to_html_bulk open a file for writing, one site each; the two report writers write the path they are given]', ok_w, {k: v for k, v in writers.items()}))
    from . import cli_struct as CS
    build, det = CS.written_name(prog)
    nm = "main/output_path[the one file main() writes is <input>.parent / (<input>.stem + '_cm' + <input>.suffix): a sibling, never the input itself] (dataflow + z3 strings)"
    if build is None: out.append((nm, None, det))
    elif build == 'INPUT': out.append((nm, False, det))
    else:
        stem, suf = z3.String('stem'), z3.String('suffix')
        try:
            t = build(z3, stem, suf)
            so = z3.Solver(); so.set('timeout', 20000)
            so.add(z3.Or(t != z3.Concat(stem, z3.StringVal('_cm'), suf), t == z3.Concat(stem, suf)))
            r = so.check()
            if r == z3.sat:
                mdl = so.model(); det = dict(det, counterexample={'stem': mdl.eval(stem, True).as_string(), 'suffix': mdl.eval(suf, True).as_string(), 'written': mdl.eval(t, True).as_string()})
            out.append((nm, True if r == z3.unsat else (False if r == z3.sat else None), det if r != z3.unknown else f'z3: {so.reason_unknown()}'))
        except ValueError as e:
            out.append((nm, None, f'written name contains {e} (not stem / suffix / literal)'))
    try:
        fn, m = prog.func(f'{CLI}:main')
        reads = [a for a, sites in sums[f'{CLI}:main'].effects.items() if a.startswith('fs_read')]
        loops = CS.files_loop(fn)
        lv = ast.unparse(loops[0].target) if len(loops) == 1 else None
        ropens = [ast.unparse(n.args[0]) for n in ast.walk(fn) if isinstance(n, ast.Call) and ast.unparse(n.func) == 'open' and n.args and not (len(n.args) >= 2 and isinstance(n.args[1], ast.Constant) and any(c in str(n.args[1].value) for c in 'wax+'))]
        out.append(('main/reads[the only file main() opens for reading is the stylesheet of the current iteration]', lv is not None and set(reads) <= {'fs_read:<local>'} and ropens == [lv], {'effects': reads, 'opened_for_reading': ropens, 'input': lv}))
        gr = [n for n in ast.walk(fn) if isinstance(n, ast.Call) and ast.unparse(n.func) == 'generate_report']
        fr, _ = prog.func('cm_colors.cli.html_report:generate_report')
        names = [a.arg for a in fr.args.args]
        dflt = dict(zip(names[len(names) - len(fr.args.defaults):], [ast.unparse(d) for d in fr.args.defaults]))
        wparam = writers.get('generate_report', ['fs_write:?'])[0].split(':', 1)[1]
        no_path = all(len(c.args) <= names.index(wparam) and not any(k.arg == wparam for k in c.keywords) for c in gr) if wparam in names else False
        out.append(("main/report_path[generate_report is called without a path; the default of its path parameter is the literal 'cm_colors_report.html']", bool(gr) and no_path and dflt.get(wparam) == "'cm_colors_report.html'", {'calls': [ast.unparse(c) for c in gr], 'defaults': dflt}))
    except KeyError as e:
        out.append(('main/reads', None, str(e)))
    return out


def run(args):
    import multiprocessing as mp
    ck = Check('C09', args.tier, args.seed, 'other')
    ck.explanation = EXPL
    prog = Program()
    t0 = time.time()
    res = frame(prog)
    for name, ok, detail in res:
        ck.add_obligation('C', name, 'discharged' if ok else ('unknown' if ok is None else 'failed'), 'effect-checker / z3', (time.time() - t0) / len(res), detail)
        if ok is False: ck.violation(name, 'C', {'found': detail})
        elif ok is None: ck.undecide(name, str(detail))
    for cname, mod, old, new in [
        ('write in place', CLI, 'with open(output_path, "w", encoding="utf-8") as f:', 'with open(file_path, "w", encoding="utf-8") as f:'),
        ('backup copy of the input', CLI, '            with open(file_path, "r", encoding="utf-8") as f:\n                css_content = f.read()\n', '            with open(file_path, "r", encoding="utf-8") as f:\n                css_content = f.read()\n            with open(str(file_path) + ".bak", "w") as bk:\n                bk.write(css_content)\n'),
        ('suffix stripped before appending _cm', CLI, 'output_filename = file_path.stem + "_cm" + file_path.suffix', 'output_filename = file_path.stem.removesuffix("_cm") + "_cm" + file_path.suffix'),
    ]:
        mp_ = prog.mutate(mod, old, new)
        if mp_ is None: ck.notes.append(f"canary '{cname}': pattern no longer matches - skipped"); continue
        killed = [n for n, ok, d in frame(mp_) if ok is False]
        ck.self_test(f'canary {cname}', bool(killed), f'killed by {killed[0]}' if killed else 'mutant still passes')
    # ---- engine A: the only declaration writes of the per-rule logic (extracted blocks, contracts/cli.py): exactly one write, of the API's colour, when a rule
    # is reported as adjusted; none for readable / attention rules; the at-rule branch only re-serialises after the descent
    from vf.engine_a import verify_many
    BL = [f'{CLI}:process_nodes_recursive__coloured_rule', f'{CLI}:process_nodes_recursive__at_rule']
    ck.absorb_A(verify_many([(q, None) for q in BL], variant='c08'))
    ck.trust(*TRUSTED)
    for bq in BL:
        ex = getattr(prog, 'extracted', {}).get(bq)
        if ex: ck.notes.append(f"extracted block {bq.split(':')[1]}: lines {ex['lines'][0]}-{ex['lines'][1]} of cli/main.py; dropped by the extraction: {ex['drops']}")
    ck.assume('engine A on the extracted blocks uses the assumed tinycss2-facing and API-level contracts listed in the evidence of check C08')
    nsheets = 120 if args.tier == 'quick' else 3000
    sheets = H.gen_sheets(20261009, nsheets // 2) + H.gen_sheets(args.seed + 9, nsheets - nsheets // 2)
    # every carry-through construct at once, and an input that is itself named *_cm.css
    allc = '\n'.join(H.CARRY) + '\n.x { color: #888; background-color: #fff }\n@media print { .y { color: #8a8a8a } /* c2 */ }\n'
    sheets += [('all_cm.css', allc, {'carry-through'}), ('carry.css', allc, {'carry-through'})]
    jobs = [(n, c, f, H.SETTINGS[i % len(H.SETTINGS)], i % 5 == 4) for i, (n, c, f) in enumerate(sheets)] + [(n, c, f, o, k % 5 == 4) for k, (n, c, f, o) in enumerate(H.core_jobs())]
    t0 = time.time()
    with mp.get_context('fork').Pool(16) as pool:
        out = pool.map(case, jobs, chunksize=2)
    ck.evaluations = len(out); ck.distinct = len({(r['css'], tuple(r['opts']), r['as_dir']) for r in out})
    ck.rule = 'one case = one generated stylesheet x settings x (single-file | directory) invocation of the real command; distinct = distinct (stylesheet, settings, invocation)'
    ck.bounded.append({'engine': 'E', 'sheets': len(out), 'with_output': sum(1 for r in out if r['has_output']), 'seed': args.seed, 'wall_s': round(time.time() - t0, 1), 'bound': 'generated corpus + one sheet with every carry-through construct, incl. an input named *_cm.css'})
    ck.sample({'stylesheet': out[0]['css'], 'options': out[0]['opts'], 'directory_invocation': out[0]['as_dir'], 'problems': out[0]['problems']})
    groups = {}
    for r in out:
        for msg, trig in r['problems']: groups.setdefault((kind_of(msg), trig), []).append((r, msg))
    ck.add_obligation('E', f'cm-colors on {len(out)} stylesheets: inputs untouched, only the documented files, structure preserved (bounded)', 'discharged' if not groups else 'failed', 'enumeration(bounded)')
    for (kind, trig), items in sorted(groups.items()):
        r, msg = items[0]
        w = {'call': 'cm-colors ' + ('<dir>' if r['as_dir'] else r['name']) + ' ' + ' '.join(r['opts']), 'file_name': r['name'], 'stylesheet': r['css'], 'options': r['opts'], 'as_dir': r['as_dir'], 'observed': msg}
        hit = [v for v in ck.violations if v['engine'] == 'C' and v.get('witness') is None]
        ck.violation(f'cm-colors/{kind}', 'E', {'cases': len(items), 'first_message': msg}, w, {'witness_key': f'{kind}|{trig}'})
        for v in hit: v['witness'] = w
    ck.assume('BOUNDED for the structure clause; the frame clause is proved', 'click, tinycss2 and rich do not write files', 'tinycss2 is the trusted reader for the structural diff',
              'sheets for which the tool writes no output at all have nothing to compare (none on the repaired tree: the vendor-hack sheets are written since fix 9f85b12)')
    ck.trust('tinycss2', 'z3 string theory for the name lemma', 'the effect tables of vf/effects.py')
    return ck.finish()


def replay(args):
    r = json.load(open(args.replay)); w = r.get('concrete_input') or {}
    if 'stylesheet' in w:
        out = case((w.get('file_name', 'replay.css'), w['stylesheet'], set(), tuple(w['options']), w.get('as_dir', False)))
        print('replay problems:', out['problems'])
        if out['problems']: print(f'VIOLATION property=C09 replay={args.replay}'); return 1
        return 0
    return run(args)
