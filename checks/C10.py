import json, time, math, random
from .common import *
from vf import fdx, rtc, ring, engine_b as eb
from vf.ring import Z3Map, var, Cond, CAnd
from vf.program import Program
from contracts import specs
import z3

CV = 'cm_colors.core.conversions'
EXPL = ("C10: (B) the real rgb_to_oklch (with srgb_to_linear, calculate_hue_angle and the local safe_cbrt executed from their ASTs) equals a spec written from Ottosson's definition on every "
        "real channel triple in [0,255] - each matrix coefficient an exact decimal, cube root and atan2 as atoms, all branch pairs matched (145 feasible path pairs) - and every path's value satisfies "
        "L in [0,1], C >= 0, H in [0,360) over the reals. (A) oklch_to_rgb returns an int triple in 0..255 for EVERY real triple (follows from the final clamp), L=0,C=0 -> black, L=1,C=0 -> white, "
        "C=0 -> exact grey over the reals (the LMS->sRGB rows sum to exactly 1 as written); the safe variants equal the plain ones on valid input and return valid values for every numeric triple. "
        "(D) all 2^24 colours: forward conversion vs longdouble reference (1e-12 / 1e-7 deg), ranges in floats, lossless round trip, safe == plain (thorough: complete; quick: bounded sub-domain). "
        "(E, bounded) grid + random OKLCH triples through the inverse; invalid inputs through the safe variants.")


def build_oklch(prog):
    vs = {n: z3.Real(n) for n in 'rgb'}; facts = [z3.And(v >= 0, v <= 255) for v in vs.values()]
    z = Z3Map(vs, facts)
    rgb = (var('r'), var('g'), var('b'))
    fn, _ = eb.resolve_fn(prog, CV, 'rgb_to_oklch')
    cp = eb.code_exec(prog, CV, inline=['srgb_to_linear', 'calculate_hue_angle'], zmap=z).run(fn, [rgb])
    sp = eb.spec_exec(z).run(specs.FUNCS['spec_oklch'], [rgb])
    def goals(v):
        L, C, H = v
        return [('L in [0,1]', CAnd([Cond('>=', L, 0), Cond('<=', L, 1)])), ('C >= 0', Cond('>=', C, 0)), ('H in [0,360)', CAnd([Cond('>=', H, 0), Cond('<', H, 360)]))]
    return cp, sp, z, goals


def b_results(r):
    if 'undecided' in r:
        return [('rgb_to_oklch/conforms_to[OKLab/OKLCH definition]', None, r)]
    return [('rgb_to_oklch/conforms_to[OKLab/OKLCH definition]', r['pairs'] > 0 and r['equal'] == r['pairs'], {k: r[k] for k in ('code_paths', 'spec_paths', 'pairs', 'equal', 'diffs')}),
            ('rgb_to_oklch/ranges[L in [0,1], C >= 0, H in [0,360) on every path]', not r['range_bad'], {'failures': r['range_bad']})]


B_CANARIES = [
    ('M1 coefficient 10th digit', '0.5363325363 * g_linear', '0.5363325364 * g_linear'),
    ('M2 sign', '- 0.0040720468 * s_prime', '+ 0.0040720468 * s_prime'),
    ('cube root -> square root exponent', 'return pow(x, 1 / 3)', 'return pow(x, 1 / 2)'),
    ('hue wrap dropped', 'return hue + 360 if hue < 0 else hue', 'return hue'),
    ('lightness clamp dropped', '    L = max(0.0, min(1.0, L))\n\n    return (L, C, H)', '    return (L, C, H)'),
]


def _inv_case(job):
    L, C, H = job
    lib = rtc.load_lib()
    from oracles import colour as oc
    try:
        r = lib.oklch_to_rgb((L, C, H)); rs = lib.oklch_to_rgb_safe((L, C, H))
    except Exception as e:
        return job, f'raised {type(e).__name__}: {e}'
    if not (type(r) is tuple and len(r) == 3 and all(type(x) is int and 0 <= x <= 255 for x in r)): return job, f'not a valid 8-bit colour: {r!r}'
    if rs != r: return job, f'safe variant {rs!r} differs from plain {r!r} on valid input'
    if C == 0 and max(r) - min(r) > 1: return job, f'C=0 not grey within one unit: {r!r}'
    if C == 0 and L == 0 and r != (0, 0, 0): return job, f'L=0,C=0 not black: {r!r}'
    if C == 0 and L == 1 and r != (255, 255, 255): return job, f'L=1,C=0 not white: {r!r}'
    ref = [v * 255 for v in oc.oklch_to_srgb_unrounded(oc.FloatK, L, C, H)]
    if any(abs(x - y) > 0.5 + 1e-6 for x, y in zip(r, ref)): return job, f'library {r!r} vs definition (clipped) {ref!r}'
    return job, None


def run(args):
    import multiprocessing as mp
    ck = Check('C10', args.tier, args.seed, 'proof')
    ck.explanation = EXPL
    prog = Program()
    t0 = time.time()
    r = eb.conform_parallel('checks.C10', 'build_oklch')
    dt = time.time() - t0
    res = b_results(r)
    CV_ = 'cm_colors.core.conversions'
    run_ranges(ck, prog, [f'{CV_}:srgb_to_linear', f'{CV_}:linear_to_srgb', f'{CV_}:calculate_hue_angle', f'{CV_}:rgb_to_oklch', f'{CV_}:oklch_to_rgb'], [
        ('clamp before the transfer function removed', CV_, 'oklch_to_rgb', '    r_linear = max(0.0, min(1.0, r_linear))\n', '    r_linear = r_linear\n'),
        ('cube root of the raw cone response', CV_, 'rgb_to_oklch', '        if x >= 0:\n            return pow(x, 1 / 3)', '        if x >= -1:\n            return pow(x, 1 / 3)'),
    ])
    for name, ok, detail in res:
        ck.add_obligation('B', name, 'discharged' if ok else ('unknown' if ok is None else 'failed'), 'ring-normal-form + z3', dt / 2, detail)
        if ok is False: ck.violation(name, 'B', detail)
        elif ok is None: ck.undecide(name, json.dumps(detail)[:200])
    ck.sample({'engine': 'B', 'obligation': res[0][0], 'detail': {k: v for k, v in res[0][2].items() if k != 'diffs'}})
    ck.functions += [f'{CV}:rgb_to_oklch', f'{CV}:srgb_to_linear', f'{CV}:calculate_hue_angle']
    if res[0][1] is not None:
        for cname, old, new in (B_CANARIES if args.tier == 'thorough' else B_CANARIES[:3]):
            mp_ = prog.mutate(CV, old, new)
            if mp_ is None: ck.notes.append(f"canary '{cname}': pattern no longer matches - skipped"); continue
            r2 = b_results(eb.conform_parallel('checks.C10', 'build_oklch', mp_.overrides))
            killed = [n for n, ok, d in r2 if ok is False]
            ck.self_test(f'canary {cname}', bool(killed), f'killed by {killed[0]}' if killed else 'mutant still conforms')
    # ---- engine A
    canaries = [
        C('inverse: final clamp dropped on one channel', '    r_8bit = max(0, min(255, round(r_srgb * 255)))', '    r_8bit = round(r_srgb * 255)', 'oklch_to_rgb', 'valid', mod=CV),
        C('inverse: a row of the LMS->sRGB matrix no longer sums to 1', '+ 0.2309699292 * s_cone', '+ 0.2309699392 * s_cone', 'oklch_to_rgb', 'grey', mod=CV),
        C('safe inverse: grey fallback unclamped', '        gray_value = max(0, min(255, round(L * 255)))', '        gray_value = round(L * 255)', 'oklch_to_rgb_safe#def', 'valid_always', mod=CV),
        C('safe forward: returns the fallback even on valid input', '        return oklch\n\n    except Exception as e:\n        # Fallback to grayscale conversion', '        raise ValueError("x")\n\n    except Exception as e:\n        # Fallback to grayscale conversion', 'rgb_to_oklch_safe#def', 'equals_plain_on_valid', mod=CV),
        C('is_valid_oklch accepts negative chroma', '    if C < 0:\n        return False', '    if C < -1:\n        return False', 'is_valid_oklch', 'def', mod=CV),
    ]
    run_A(ck, [f'{CV}:oklch_to_rgb', f'{CV}:oklch_to_rgb_safe#def', f'{CV}:rgb_to_oklch_safe#def', f'{CV}:rgb_to_oklch_safe#def_float', f'{CV}:is_valid_oklch',
               f'{CV}:is_valid_rgb#def', f'{CV}:is_valid_rgb#def_float'], canaries, prog)
    # concrete witness for a failed safe-variant obligation: the model IS an input
    lib = rtc.load_lib()
    for v in ck.violations:
        if v['engine'] == 'A' and 'rgb_to_oklch_safe' in v['obligation'] and v['detail'].get('model'):
            m = v['detail']['model']
            vals = [m[k] for k in sorted(m) if k.startswith('rgb!')]
            try:
                from fractions import Fraction
                inp = tuple(int(x) if '/' not in x and '.' not in x else float(Fraction(x)) for x in vals)
                out = lib.rgb_to_oklch_safe(inp)
                if not lib.is_valid_oklch(out): v['witness'] = {'call': 'rgb_to_oklch_safe(input)', 'input': inp, 'observed': out, 'expected': 'a triple accepted by is_valid_oklch'}; v['extra'] = {'witness_key': 'safe-forward-fallback'}
            except Exception as e:
                pass
    # ---- engine D
    n, fails, stats, exhaustive, wall = fdx.sweep('checks.d_workers', 'oklch_sweep', args.tier)
    ck.exhaustive.append({'engine': 'D', 'what': 'rgb_to_oklch vs OKLab definition (longdouble; |dL|,|dC| <= 1e-12, |dH| <= 1e-7 deg where C >= 1e-6), float ranges, oklch_to_rgb(rgb_to_oklch(c)) == c, safe == plain',
                          'domain': 'all 16,777,216 colours' if exhaustive else 'quick domain', 'evaluations': n, 'exhaustive': exhaustive, **{k: v for k, v in stats.items()}, 'wall_s': round(wall, 1)})
    ck.add_obligation('D', 'rgb_to_oklch/numeric+ranges+round_trip[all colours]', 'failed' if fails else 'discharged', 'exhaustive' if exhaustive else 'lattice(bounded)', wall)
    if fails: ck.violation('rgb_to_oklch/numeric+round_trip', 'D', {'shown': fails[:3]}, {'call': 'oklch_to_rgb(rgb_to_oklch(colour))', **fails[0]})
    ck.evaluations += n
    # ---- engine E: inverse on a grid + random; invalid inputs for the safe variants
    rng = random.Random(args.seed + 10)
    jobs = []
    nl, nc, nh = (11, 6, 13) if args.tier == 'quick' else (41, 21, 73)
    for i in range(nl):
        for j in range(nc):
            for k in range(nh): jobs.append((i / (nl - 1), 0.5 * j / (nc - 1), 360.0 * k / (nh - 1)))
    for _ in range(3000 if args.tier == 'quick' else 200000): jobs.append((rng.random(), rng.random() * 0.5, rng.random() * 360))
    for i in range(0, 1001): jobs.append((i / 1000, 0.0, rng.choice([0.0, 90.0, 123.4])))
    with mp.get_context('fork').Pool(16) as pool:
        res2 = pool.map(_inv_case, jobs, chunksize=128)
    ibad = [(j, b) for j, b in res2 if b]
    ck.bounded.append({'engine': 'E', 'what': 'oklch_to_rgb on grid + random (L,C,H) in [0,1]x[0,0.5]x[0,360]: valid 8-bit, corner cases, grey within one unit, within rounding of the clipped definition; safe == plain', 'evaluations': len(jobs), 'seed': args.seed,
                       'bound': f'{nl}x{nc}x{nh} grid + random + 1001-point achromatic line'})
    ck.add_obligation('E', 'oklch_to_rgb/grid (bounded)', 'failed' if ibad else 'discharged', 'enumeration(bounded)')
    if ibad: ck.violation('oklch_to_rgb/grid', 'E', {'detail': ibad[0][1]}, {'call': 'oklch_to_rgb(triple)', 'triple': ibad[0][0], 'observed': ibad[0][1]})
    inv_bad = []
    bad_inputs = [(-5, 0, 0), (1000, 1000, 1000), (256, 0, 0), (0, -1, 300), (854, 0, -1), (-0.5, 10.0, 20.0), (255.5, 255.5, 255.5), (1e6, -1e6, 3)]
    for x in bad_inputs + [tuple(rng.choice([rng.uniform(-600, 900), rng.randrange(-600, 900)]) for _ in range(3)) for _ in range(500)]:
        try:
            o = lib.rgb_to_oklch_safe(x)
            if not (isinstance(o, tuple) and len(o) == 3 and lib.is_valid_oklch(o) and 0 <= o[0] <= 1 and o[1] >= 0 and 0 <= o[2] <= 360): inv_bad.append({'input': x, 'observed': o})
        except Exception as e: inv_bad.append({'input': x, 'observed': f'raised {type(e).__name__}: {e}'})
    for x in [(-1.0, 0.1, 10.0), (2.0, 0.1, 10.0), (0.5, -0.2, 10.0), (0.5, 0.1, -20.0), (0.5, 0.1, 400.0), (7.0, 9.0, 1e6), (-1e3, 0.0, 0.0)] + [(rng.uniform(-3, 3), rng.uniform(-1, 1), rng.uniform(-720, 720)) for _ in range(500)]:
        try:
            o = lib.oklch_to_rgb_safe(x)
            if not (type(o) is tuple and len(o) == 3 and all(type(v) is int and 0 <= v <= 255 for v in o)): inv_bad.append({'input_oklch': x, 'observed': o})
        except Exception as e: inv_bad.append({'input_oklch': x, 'observed': f'raised {type(e).__name__}: {e}'})
    ck.bounded.append({'engine': 'E', 'what': 'safe variants on invalid numeric input return valid values', 'evaluations': 1015, 'seed': args.seed})
    ck.add_obligation('E', 'safe variants on invalid input (bounded)', 'failed' if inv_bad else 'discharged', 'enumeration(bounded)')
    if inv_bad: ck.violation('safe variants on invalid input', 'E', {'shown': inv_bad[:3]}, {'call': 'rgb_to_oklch_safe / oklch_to_rgb_safe', **inv_bad[0]}, {'witness_key': 'safe-forward-fallback' if 'input' in inv_bad[0] else 'safe-inverse'})
    ck.evaluations += len(jobs) + 1015
    ck.assume('engine B / A are over the reals: pow, sqrt, atan2, cos, sin uninterpreted with listed identities; float rounding closed by engine D on the 8-bit domain',
              "reading N1 (DESIGN section 7): 'L=0 black' is asserted for the achromatic corner (C=0); oklch_to_rgb((0, 0.5, 0)) = (50,0,0) is clipping of a non-physical triple and is not judged",
              "'invalid input' of the safe variants = numeric triples (ints/floats, finite); non-numeric members are outside the clause",
              'math.pow on a negative base with fractional exponent returns a complex number in Python 3: unreachable here because the bases are clamped; not modelled')
    ck.trust('numpy longdouble reference (cbrt, arctan2) and the 50-digit linearisation table')
    return ck.finish()


def replay(args):
    r = json.load(open(args.replay)); w = r.get('concrete_input') or {}
    lib = rtc.load_lib()
    if 'input' in w:
        x = tuple(w['input']); o = lib.rgb_to_oklch_safe(x); print('replay rgb_to_oklch_safe', x, '->', o)
        if not lib.is_valid_oklch(o): print(f'VIOLATION property=C10 replay={args.replay}'); return 1
        return 0
    if 'triple' in w:
        j, b = _inv_case(tuple(w['triple'])); print('replay oklch_to_rgb', j, '->', b)
        if b: print(f'VIOLATION property=C10 replay={args.replay}'); return 1
        return 0
    if 'colour' in w:
        from checks.d_workers import oklch_sweep
        c = tuple(w['colour']); out = oklch_sweep([(c[0] << 16) | (c[1] << 8) | c[2]], None); print('replay', c, out['fails'])
        if out['fails']: print(f'VIOLATION property=C10 replay={args.replay}'); return 1
        return 0
    print('no concrete input: re-running'); return run(args)
