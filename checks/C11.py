import json, time, math, random
from .common import *
from vf import fdx, rtc, ring, engine_b as eb
from vf.ring import Z3Map, Z3Exact, var, app, conform, Cond, Poly, lift
from vf.program import Program
from contracts import specs

CM = 'cm_colors.core.color_metrics'
CV = 'cm_colors.core.conversions'
EXPL = ("C11: (B) the real calculate_delta_e_2000 (with calculate_hue_angle inlined from its AST, rgb_to_lab as a callee symbol) is executed over the reals to polynomial normal forms and "
        "compared path-by-path with a spec written from Sharma-Wu-Dalal in different surface algebra: every constant and branch is exact; symmetry DE(x,y)=DE(y,x) is proved the same way (sin odd, "
        "cos/abs even); the identical-colour shortcut agrees with the formula (spec(x,x) normalises to 0); the result is a square root (>= 0). rgb_to_xyz / xyz_to_lab are compared with the CIE "
        "definition with the library's 4-digit epsilon/kappa declared as the spec's tolerance class. (D) Lab of all 2^24 colours vs the CIE-exact definition (longdouble) within the statement's 0.05 "
        "(thorough: complete). (E, bounded) the 34 published Sharma pairs through the real routine (Lab fed by attribute replacement), unit-step neighbours, random / near-neutral / hue-wrap pairs vs an "
        "independent implementation within 0.05, symmetry bit-for-bit, finiteness, > 0 for distinct colours. (R, range contracts - vf/ranges.py) 'never raises, finite, non-negative': srgb_to_linear, "
        "rgb_to_xyz, xyz_to_lab, rgb_to_lab, calculate_hue_angle and calculate_delta_e_2000 are executed over intervals from the 8-bit cube, callee by contract; every division gets `0 not in the "
        "denominator's range`, every sqrt / fractional power `argument >= 0`, every exp `no overflow`; where intervals lose a correlation the obligation goes to z3 (nlsat) on the polynomial abstraction "
        "of the expression (the final radicand: x^2 + y^2 + z^2 + RT*y*z >= 0 from |RT| <= 2) or to the rule X/(X+K) in [0,1).")


R_CANARIES = [
    ('chroma weight without the 1 +', CM, 'calculate_delta_e_2000', '    SC = 1 + 0.045 * C_mean_prime', '    SC = 0.045 * C_mean_prime'),
    ('rotation factor 3 instead of 2 (radicand can go negative)', CM, 'calculate_delta_e_2000', '    RC = 2 * math.sqrt(', '    RC = 3 * math.sqrt('),
    ('sign of the 25^7 term', CM, 'calculate_delta_e_2000', '    G = 0.5 * (1 - math.sqrt(pow(C_mean, 7) / (pow(C_mean, 7) + pow(25, 7))))', '    G = 0.5 * (1 - math.sqrt(pow(C_mean, 7) / (pow(C_mean, 7) - pow(25, 7))))'),
    ('exp of a positive square (overflow)', CM, 'calculate_delta_e_2000', '    delta_theta = 30 * math.exp(-pow((H_mean_prime - 275) / 25, 2))', '    delta_theta = 30 * math.exp(pow((H_mean_prime - 275) / 25, 2))'),
    ('cube root of a shifted argument', CV, 'xyz_to_lab', '            return pow(t, 1 / 3)', '            return pow(t - 0.01, 1 / 3)'),
    ('mean lightness operands swapped (harmless)', CM, 'calculate_delta_e_2000', '    L_mean = (L1 + L2) / 2', '    L_mean = (L2 + L1) / 2'),
]


def de_paths(prog, X, Y, z):
    r1 = (var('r1'), var('g1'), var('b1')); r2 = (var('r2'), var('g2'), var('b2'))
    calls = {'rgb_to_lab': lambda rgb: X if rgb is r1 else Y}
    ce = eb.code_exec(prog, CM, inline=['calculate_hue_angle'], calls=calls, zmap=z)
    fn, _ = eb.resolve_fn(prog, CM, 'calculate_delta_e_2000')
    ps = ce.run(fn, [r1, r2])
    short = [(pc, v) for pc, v in ps if len(pc) == 1 and lift(v) == Poly.const(0)]
    rest = [(pc, v) for pc, v in ps if not (len(pc) == 1 and lift(v) == Poly.const(0))]
    return short, rest


def b_part(prog):
    out = []; t0 = time.time()
    z = Z3Map({}, [])
    X = tuple(var(f'x{c}') for c in 'Lab'); Y = tuple(var(f'y{c}') for c in 'Lab')
    try:
        short, P1 = de_paths(prog, X, Y, z)
        _, P2 = de_paths(prog, Y, X, z)
        PS = eb.spec_exec(z).run(specs.FUNCS['spec_de2000'], [X, Y])
        pairs, eq, diffs = conform(P1, PS, z, 'conf')
        out.append(('calculate_delta_e_2000/conforms_to[CIEDE2000 Sharma-Wu-Dalal]', pairs > 0 and eq == pairs, {'code_paths': len(P1), 'spec_paths': len(PS), 'path_pairs': pairs, 'equal': eq, 'diffs': diffs[:2]}))
        pairs, eq, diffs = conform(P1, P2, z, 'sym')
        out.append(('calculate_delta_e_2000/symmetric', pairs > 0 and eq == pairs, {'path_pairs': pairs, 'equal': eq, 'diffs': diffs[:2]}))
        PZ = eb.spec_exec(z).run(specs.FUNCS['spec_de2000'], [X, X])
        okz = len(short) == 1 and all(lift(v) == Poly.const(0) for _, v in PZ)
        out.append(('calculate_delta_e_2000/zero_for_identical[shortcut returns 0.0 and the formula gives 0 at (x,x)]', okz, {'shortcut_paths': len(short), 'spec_xx_values': [lift(v).show(2) for _, v in PZ][:4]}))
        nonneg = all(len(lift(v).m) == 1 and list(lift(v).m.items())[0][1] == 1 and list(lift(v).m)[0][0][0].f == 'SQRT' for _, v in P1)
        out.append(('calculate_delta_e_2000/non_negative[every non-shortcut path returns a square root]', nonneg, {}))
    except (ring.Unsupported, KeyError, ZeroDivisionError) as e:
        out.append(('calculate_delta_e_2000/conforms_to[CIEDE2000 Sharma-Wu-Dalal]', None, {'undecided': str(e)}))
    # Lab pipeline
    try:
        vs, facts = eb.int_vars(['r', 'g', 'b']); z2 = Z3Map(vs, facts); rgb = (var('r'), var('g'), var('b'))
        fx, _ = eb.resolve_fn(prog, CV, 'rgb_to_xyz')
        cp = eb.code_exec(prog, CV, inline=['srgb_to_linear'], zmap=z2).run(fx, [rgb])
        sp = eb.spec_exec(z2).run(specs.FUNCS['spec_xyz'], [rgb])
        pairs, eq, diffs = conform(cp, sp, z2, 'xyz')
        out.append(('rgb_to_xyz/conforms_to[IEC 61966-2-1 sRGB -> XYZ D65]', pairs > 0 and eq == pairs, {'path_pairs': pairs, 'equal': eq, 'diffs': diffs[:2]}))
        z3_ = Z3Map({}, [z3c for z3c in []]); XYZ = (var('X'), var('Y'), var('Z'))
        fl, _ = eb.resolve_fn(prog, CV, 'xyz_to_lab')
        cp = eb.code_exec(prog, CV, zmap=z3_).run(fl, [XYZ])
        sp = eb.spec_exec(z3_).run(specs.FUNCS['spec_lab'], [XYZ])
        pairs, eq, diffs = conform(cp, sp, z3_, 'lab')
        out.append(('xyz_to_lab/conforms_to[CIE 15 L*a*b*, 4-digit epsilon/kappa class]', pairs > 0 and eq == pairs, {'code_paths': len(cp), 'spec_paths': len(sp), 'path_pairs': pairs, 'equal': eq, 'diffs': diffs[:2]}))
    except (ring.Unsupported, KeyError, ZeroDivisionError) as e:
        out.append(('rgb_to_lab/conforms_to[CIE]', None, {'undecided': str(e)}))
    return out, time.time() - t0


B_CANARIES = [
    ('T coefficient 0.17 -> 0.18', CM, '- 0.17 * math.cos', '- 0.18 * math.cos', 'conforms'),
    ('25^7 -> 26^7 in G', CM, 'G = 0.5 * (1 - math.sqrt(pow(C_mean, 7) / (pow(C_mean, 7) + pow(25, 7))))', 'G = 0.5 * (1 - math.sqrt(pow(C_mean, 7) / (pow(C_mean, 7) + pow(26, 7))))', 'conforms'),
    ('SL: 20 -> 2', CM, 'math.sqrt(20 + pow(L_mean - 50, 2))', 'math.sqrt(2 + pow(L_mean - 50, 2))', 'conforms'),
    ('RT sign', CM, 'RT = -math.sin(math.radians(2 * delta_theta)) * RC', 'RT = math.sin(math.radians(2 * delta_theta)) * RC', 'conforms'),
    ('hue difference: -360 branch dropped', CM, 'delta_h_prime = h2_prime - h1_prime - 360', 'delta_h_prime = h2_prime - h1_prime', 'delta_e'),
    ('hue mean: < 360 -> <= 360', CM, '(h1_prime + h2_prime) < 360', '(h1_prime + h2_prime) <= 360', 'conforms'),
    ('asymmetric delta C', CM, 'delta_C_prime = C2_prime - C1_prime', 'delta_C_prime = C2_prime - 1.0001 * C1_prime', 'symmetric'),
    ('Lab: a* factor 500 -> 490', CV, 'a = 500 * (fx - fy)', 'a = 490 * (fx - fy)', 'xyz_to_lab'),
    ('XYZ matrix entry', CV, 'g_linear * 0.7151522', 'g_linear * 0.7151622', 'rgb_to_xyz'),
]


def _pair_case(job):
    a, b = job
    lib = rtc.load_lib()
    from oracles import colour as oc
    try:
        x, y = lib.calculate_delta_e_2000(a, b), lib.calculate_delta_e_2000(b, a)
    except Exception as e:
        return job, f'raised {type(e).__name__}: {e}'
    ref = oc.ciede2000(oc.FloatK, a, b)
    if x != y: return job, f'not symmetric: {x!r} vs {y!r}'
    if not (x == x and math.isfinite(x) and x >= 0): return job, f'not a finite non-negative number: {x!r}'
    if (a == b) != (x == 0.0): return job, f'zero exactly for identical colours violated: {x!r}'
    if abs(x - ref) > 0.05: return job, f'library {x!r} vs independent CIEDE2000 {ref!r}'
    return job, None


def run(args):
    import multiprocessing as mp
    ck = Check('C11', args.tier, args.seed, 'other')
    ck.explanation = EXPL
    prog = Program()
    res, dt = b_part(prog)
    for name, ok, detail in res:
        ck.add_obligation('B', name, 'discharged' if ok else ('unknown' if ok is None else 'failed'), 'ring-normal-form + z3', dt / max(1, len(res)), detail)
        if ok is False: ck.violation(name, 'B', detail)
        elif ok is None: ck.undecide(name, json.dumps(detail)[:200])
    ck.sample({'engine': 'B', 'obligation': res[0][0], 'detail': {k: v for k, v in res[0][2].items() if k != 'diffs'}})
    ck.functions += [f'{CM}:calculate_delta_e_2000', f'{CV}:calculate_hue_angle', f'{CV}:rgb_to_xyz', f'{CV}:xyz_to_lab', f'{CV}:srgb_to_linear']
    todo = []
    for cname, mod, old, new, target in B_CANARIES:
        mp_ = prog.mutate(mod, old, new)
        if mp_ is None: ck.notes.append(f"canary '{cname}': pattern no longer matches - skipped"); continue
        if any(ok is None for _, ok, _ in res): ck.notes.append(f"canary '{cname}': base undecided - skipped"); continue
        todo.append((cname, mp_, target))
    with mp.get_context('fork').Pool(min(9, max(1, len(todo)))) as pool:
        outs = pool.map(_canary, [(c, m.overrides) for c, m, t in todo]) if todo else []
    for (cname, _, target), r2 in zip(todo, outs):
        killed = [n for n, ok in r2 if ok is False]
        ck.self_test(f'canary {cname}', bool(killed), f'killed by {killed[0]}' if killed else 'mutant still conforms')
    # ---- R: range contracts - finite, non-negative, never raises (every radicand >= 0, every denominator excludes 0, exp cannot overflow)
    run_ranges(ck, prog, [f'{CV}:srgb_to_linear', f'{CV}:rgb_to_xyz', f'{CV}:xyz_to_lab', f'{CV}:rgb_to_lab', f'{CV}:calculate_hue_angle', f'{CM}:calculate_delta_e_2000'], R_CANARIES)
    # ---- D: Lab on the cube
    n, fails, stats, exhaustive, wall = fdx.sweep('checks.d_workers', 'lab_sweep', args.tier)
    ck.exhaustive.append({'engine': 'D', 'what': 'rgb_to_lab vs CIE L*a*b* (D65, exact epsilon=216/24389, kappa=24389/27) in longdouble, tolerance 0.05 per coordinate', 'domain': 'all 16,777,216 colours' if exhaustive else 'quick domain',
                          'evaluations': n, 'exhaustive': exhaustive, 'max_abs_err': stats.get('max_abs_err'), 'wall_s': round(wall, 1)})
    ck.add_obligation('D', 'rgb_to_lab/numeric[all colours within 0.05 of CIE Lab]', 'failed' if fails else 'discharged', 'exhaustive' if exhaustive else 'lattice(bounded)', wall)
    if fails: ck.violation('rgb_to_lab/numeric', 'D', {'shown': fails[:3]}, {'call': 'rgb_to_lab(colour)', **fails[0]})
    ck.evaluations += n
    # ---- E: Sharma pairs, neighbours, random pairs
    lib = rtc.load_lib()
    import cm_colors.core.color_metrics as cmm
    from oracles import colour as oc
    sh_bad = []
    K = oc.MpK(50)
    agree_mp = sum(1 for l1, l2, d in oc.SHARMA if abs(float(oc.ciede2000_lab(K, [K.num(str(x)) for x in l1], [K.num(str(x)) for x in l2])) - d) <= 5.1e-5)
    agree_fl = sum(1 for l1, l2, d in oc.SHARMA if abs(oc.ciede2000_lab(oc.FloatK, l1, l2) - d) <= 5.1e-5)
    ck.self_test('published Sharma table reproduced by the harness\'s own implementation (float64: 34/34; mpmath-50: >= 33, pair 10 sits exactly on the 180-degree hue discontinuity)', agree_fl == 34 and agree_mp >= 33, f'float64 {agree_fl}/34, mpmath {agree_mp}/34')
    if hasattr(cmm, 'rgb_to_lab'):
        orig = cmm.rgb_to_lab
        cmm.rgb_to_lab = lambda x: x
        try:
            for i, (l1, l2, d) in enumerate(oc.SHARMA):
                try: w = cmm.calculate_delta_e_2000(l1, l2); w2 = cmm.calculate_delta_e_2000(l2, l1)
                except Exception as e: sh_bad.append({'pair': i + 1, 'raised': repr(e)}); continue
                if abs(w - d) > 1e-4 or abs(w2 - d) > 1e-4: sh_bad.append({'pair': i + 1, 'lab1': l1, 'lab2': l2, 'published': d, 'library': [w, w2]})
        finally: cmm.rgb_to_lab = orig
        ck.add_obligation('E', 'calculate_delta_e_2000/sharma_34_pairs (Lab fed by attribute replacement)', 'failed' if sh_bad else 'discharged', 'enumeration(bounded)')
        if sh_bad: ck.violation('calculate_delta_e_2000/sharma_34_pairs', 'E', {'shown': sh_bad[:3]}, {'call': 'calculate_delta_e_2000 on published Lab pair', **sh_bad[0]})
    else:
        ck.notes.append('color_metrics.rgb_to_lab attribute absent: Sharma sub-check skipped (RGB differential stands alone)')
    rng = random.Random(args.seed + 11)
    npairs = 6000 if args.tier == 'quick' else 400000
    jobs = []
    for _ in range(npairs // 4):
        a = rtc.rand_rgb(rng); jobs.append((a, rtc.rand_rgb(rng)))
        g = rng.randrange(256); jobs.append(((g, g, g), (min(255, g + rng.randrange(3)), g, max(0, g - rng.randrange(3)))))       # near-neutral
        jobs.append((a, tuple(min(255, max(0, v + rng.choice((-1, 0, 1)))) for v in a)))                                              # unit-step neighbours (incl. identical)
        v = rng.randrange(40, 256); jobs.append(((v, 0, rng.randrange(0, 30)), (v, rng.randrange(0, 30), 0)))                     # straddling the hue wrap at red
    with mp.get_context('fork').Pool(16) as pool:
        res2 = pool.map(_pair_case, jobs, chunksize=64)
    pbad = [(j, b) for j, b in res2 if b]
    ck.bounded.append({'engine': 'E', 'what': 'RGB pairs through the real routine vs independent CIEDE2000 (0.05), symmetry bit-for-bit, finite, >= 0, zero exactly for identical colours, never raises', 'evaluations': len(jobs) * 2,
                       'bound': f'{len(jobs)} generated pairs (random / near-neutral / unit-step neighbours / hue-wrap straddling)', 'seed': args.seed})
    ck.add_obligation('E', 'calculate_delta_e_2000/pairs (bounded)', 'failed' if pbad else 'discharged', 'enumeration(bounded)')
    if pbad: ck.violation('calculate_delta_e_2000/pairs', 'E', {'detail': pbad[0][1]}, {'call': 'calculate_delta_e_2000(a, b)', 'a': pbad[0][0][0], 'b': pbad[0][0][1], 'observed': pbad[0][1]})
    ck.evaluations += len(jobs) * 2
    ck.assume('engine B is over the reals; sin/cos/exp/sqrt/atan2/pow are uninterpreted atoms with only the identities listed in vf/ring.py',
              "range contracts (engine R) are over the REALS: a float rounding that turns a radicand of exactly 0 into a tiny negative is outside this proof (margin: |RT| <= 2(1 - 4e-7) on the cube by the exhaustive Lab ranges; exercised by E)",
              'range contracts: path-insensitive joins; pre-condition = the 8-bit colour cube (integers 0..255 per channel)',
              'numeric agreement of the difference on the 2^48 pairs is sampled (bounded); the formula itself is proved',
              'the library\'s epsilon=0.008856 / 7.787 vs CIE 216/24389 / 841/108: declared tolerance class; effect measured by engine D (max error reported)')
    ck.trust('mpmath / numpy longdouble reference arithmetic', 'the 34 published pairs as transcribed in oracles/colour.py (validated by the harness implementation at every run)')
    return ck.finish()


def _canary(job):
    cname, ov = job
    r2, _ = b_part(Program(overrides=ov))
    return [(n, ok) for n, ok, d in r2]


def replay(args):
    r = json.load(open(args.replay)); w = r.get('concrete_input') or {}
    lib = rtc.load_lib()
    if 'a' in w:
        j, b = _pair_case((tuple(w['a']), tuple(w['b']))); print('replay pair', j, '->', b)
        if b: print(f'VIOLATION property=C11 replay={args.replay}'); return 1
        return 0
    if 'colour' in w:
        from checks.d_workers import lab_sweep
        c = tuple(w['colour']); out = lab_sweep([(c[0] << 16) | (c[1] << 8) | c[2]], None); print('replay lab', c, out)
        if out['fails']: print(f'VIOLATION property=C11 replay={args.replay}'); return 1
        return 0
    print('no concrete input: re-running the check'); return run(args)
