import json, random, time
from .common import *
from vf import rtc
from vf.engine_a import verify_many
from vf.program import Program

BK = 'cm_colors.core.cm_colors'
EXPL = ("C12 is decided by engine A on the real AST of make_readable_bulk for a list of SYMBOLIC length whose entries are 2- or 3-element tuples of opaque inputs: the loop invariant "
        "len(results) == number of entries processed, and for every iteration (every path of the body, including the `continue` after an invalid entry) exactly ONE element is appended and it is "
        "ENTRY(item) written from the statement: (text, 'invalid color') when ColorPair(text, bg, large) is invalid, else (MR(pair, mode, very_readable), lower(is_readable(ColorPair(that colour, bg, "
        "large)))) with large = item[2] or False - where ColorPair / make_readable / is_readable are the API as function symbols of their arguments (determinism: check C15). Results therefore equal "
        "the map of the single-pair API in order for every list. Engine E (bounded twin): mixed lists incl. invalid, duplicated and permuted entries on the real code against the single-pair API.")

CAN = [
    C('large flag hoisted out of the loop', ['            text, bg = item\n            large = False\n', '    for i, item in enumerate(pairs):'], ['            text, bg = item\n', '    large = False\n    for i, item in enumerate(pairs):'], 'make_readable_bulk', 'entry_is_single_pair_result', mod=BK),
    C('status taken from the original pair', '                new_pair.is_readable.lower()', '                pair.is_readable.lower()', 'make_readable_bulk', 'entry_is_single_pair_result', mod=BK),
    C('very_readable not forwarded', '            mode=mode, very_readable=very_readable\n', '            mode=mode\n', 'make_readable_bulk', 'entry_is_single_pair_result', mod=BK),
    C('invalid entry aborts the loop', '            results.append((text, "invalid color"))\n            continue', '            results.append((text, "invalid color"))\n            break', 'make_readable_bulk', 'one_result_per_entry', mod=BK),
    C('invalid entry reported as readable', 'results.append((text, "invalid color"))', 'results.append((text, "readable"))', 'make_readable_bulk', 'invalid_entries_kept', mod=BK),
    C('invalid entry dropped', '            results.append((text, "invalid color"))\n            continue', '            continue', 'make_readable_bulk', 'one_per_entry', mod=BK),
]


def _single(lib, e, mode, very):
    t, b = e[0], e[1]; l = e[2] if len(e) == 3 else False
    p = lib.ColorPair(t, b, l)
    if not p.is_valid: return ('invalid', None)
    col, ok = p.make_readable(mode, very)
    return ('ok', (col, lib.ColorPair(col, b, l).is_readable.lower()))


def _single_fresh(lib, e, mode, very):
    """the single-pair API on ONE entry, evaluated in a forked child of this still-unused worker process: whatever the library may remember
    from one call to the next (a memo table keyed too coarsely) cannot leak from one entry into the expected value of another"""
    import os, pickle
    r, w = os.pipe(); pid = os.fork()
    if pid == 0:
        try:
            os.close(r)
            try: out = _single(lib, e, mode, very)
            except BaseException as ex: out = ('raised', repr(ex))
            os.write(w, pickle.dumps(out))
        finally:
            os._exit(0)
    os.close(w); buf = b''
    while True:
        c = os.read(r, 65536)
        if not c: break
        buf += c
    os.close(r); os.waitpid(pid, 0)
    return pickle.loads(buf) if buf else ('raised', 'child died')


def _twin_case(job):
    entries, mode, very = job
    lib = rtc.load_lib()
    import cm_colors.core.cm_colors as bm
    expd = [_single_fresh(lib, tuple(e), mode, very) for e in entries]       # before the bulk call, from the pristine state
    try:
        got = bm.make_readable_bulk([tuple(e) for e in entries], mode=mode, very_readable=very)
    except Exception as e:
        return job, f'bulk raised {e!r}'
    if len(got) != len(entries): return job, f'{len(got)} results for {len(entries)} entries'
    for i, e in enumerate(entries):
        t = e[0]; kind, exp = expd[i]
        if kind == 'raised': return job, f'entry {i}: single-pair API raised {exp}'
        if kind == 'invalid':
            if got[i][0] != t or got[i][1] in ('readable', 'very readable'): return job, f'entry {i} (invalid): got {got[i]!r}'
            continue
        if got[i] != exp: return job, f'entry {i}: bulk {got[i]!r} != single-pair API on a fresh interpreter state {exp!r}'
    return job, None


def run(args):
    import multiprocessing as mp
    ck = Check('C12', args.tier, args.seed, 'proof')
    ck.explanation = EXPL
    prog = Program()
    jobs = [(f'{BK}:make_readable_bulk', None)]
    cj = []
    for cn in CAN:
        ov = mutate(prog, cn['mod'], cn['old'], cn['new']); cj.append(None if ov is None else (cn['fn'], ov))
    reps = verify_many(jobs + [j for j in cj if j], variant='c12')
    ck.absorb_A(reps[:1])
    it = iter(reps[1:]); ck.absorb_canaries(CAN, [None if j is None else next(it) for j in cj])
    ck.trust(*TRUSTED)
    # engine E twin
    from oracles import spellings as spx
    rng = random.Random(args.seed + 12)
    gen = rtc.pair_stream(rng)
    jobs = []
    for _ in range(24 if args.tier == 'quick' else 400):
        entries = []
        for _ in range(rng.randrange(0, 6)):
            t, b = next(gen)
            sp = rng.choice(spx.opaque_spellings(t))[0]
            e = [sp, rng.choice([b, '#%02x%02x%02x' % b, 'white'])]
            if rng.random() < 0.5: e.append(rng.random() < 0.5)
            if rng.random() < 0.15: e[0] = rng.choice(['nope', (1, 2), None, 'rgb(300,0,0)'])
            entries.append(e)
        if entries and rng.random() < 0.4: entries.append(list(entries[0]))
        if entries and rng.random() < 0.6:
            # the same spelling again with the other text size (a pair between the large-text and the normal-text minimum is judged differently)
            e0 = list(rng.choice(entries)); flipped = e0[:2] + ([not e0[2]] if len(e0) == 3 else [True])
            entries.insert(rng.randrange(len(entries) + 1), flipped)
        if rng.random() < 0.5:
            g = rng.randrange(100, 150); col = '#%02x%02x%02x' % (g, g, g)      # grey on white between 3.0 and 7.0
            pairs2 = [[col, '#ffffff', True], [col, '#ffffff'], [col, '#ffffff', False]]; rng.shuffle(pairs2); entries += pairs2[:rng.randrange(2, 4)]
        if rng.random() < 0.5:
            # one translucent spelling on two different backgrounds in the same list (its judged colour depends on the background it is composited over)
            a = rng.choice([0.3, 0.5, 0.6, 0.8]); c = tuple(rng.randrange(256) for _ in range(3))
            sp = rng.choice(['rgba(%d,%d,%d,%s)' % (c + (a,)), c + (a,), 'hsla(%d,%d%%,%d%%,%s)' % (rng.randrange(360), rng.randrange(101), rng.randrange(101), a)])
            entries += [[sp, '#000000'], [sp, '#ffffff']] if rng.random() < 0.5 else [[sp, '#ffffff', True], [sp, '#101010']]
        if rng.random() < 0.3: rng.shuffle(entries)
        jobs.append((entries, rng.randrange(3), rng.random() < 0.5))
    with mp.get_context('fork').Pool(16, maxtasksperchild=1) as pool:      # one fresh process per list: no state survives from one list to the next
        res = pool.map(_twin_case, jobs, chunksize=1)
    bad = [(j, b) for j, b in res if b]
    ck.bounded.append({'engine': 'E', 'what': 'make_readable_bulk on mixed 2-/3-element lists (all spellings, invalid, duplicated, permuted) vs the single-pair API entry by entry (each expected value from a forked child of a fresh process), real code', 'evaluations': sum(len(j[0]) for j in jobs) + len(jobs), 'seed': args.seed, 'bound': f'{len(jobs)} generated lists of 0..10 entries (incl. repeated spellings with the other text size)'})
    ck.add_obligation('E', 'bulk == map(single-pair API) on generated lists (bounded)', 'failed' if bad else 'discharged', 'enumeration(bounded)')
    ck.evaluations += sum(len(j[0]) for j in jobs)
    if bad:
        j, b = bad[0]; w = {'call': 'make_readable_bulk(entries, mode, very_readable)', 'entries': j[0], 'mode': j[1], 'very_readable': j[2], 'observed': b}
        if ck.violations:
            for v in ck.violations: v['witness'] = v.get('witness') or w
        else: ck.violation('bulk == map(single-pair API)', 'E', {'detail': b}, w)
    ck.assume('ColorPair(text,bg,large), make_readable and is_readable are deterministic functions of their arguments (check C15) and never raise (check C14)',
              'entries are modelled as 2-/3-tuples of opaque values; entries of other lengths raise ValueError at the unpacking (outside the statement)')
    return ck.finish()


def replay(args):
    r = json.load(open(args.replay)); w = r.get('concrete_input') or {}
    if 'entries' in w:
        ent = [[tuple(x) if isinstance(x, list) and len(x) in (3, 4) and all(isinstance(y, (int, float)) for y in x) else x for x in e] for e in w['entries']]
        j, b = _twin_case((ent, w['mode'], w['very_readable'])); print('replay', j, '->', b)
        if b: print(f'VIOLATION property=C12 replay={args.replay}'); return 1
        return 0
    rep = verify_many([(f'{BK}:make_readable_bulk', None)], variant='c12')[0]
    bad = [x['name'] for x in rep['results'] if x['status'] != 'discharged']
    print('re-verified make_readable_bulk:', bad[:4] or 'all discharged')
    if bad: print(f'VIOLATION property=C12 replay={args.replay} no-failing-input-found'); return 1
    return 0
