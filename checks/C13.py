import json, random, time
from fractions import Fraction as F
from .common import *
from vf import rtc
from vf.engine_a import verify_many
from vf.program import Program

CP = 'cm_colors.core.color_parser'
CV = 'cm_colors.core.conversions'
EXPL = ("C13 is decided by engine A on the real ASTs. Wiring: ColorPair.__init__ constructs the background FIRST and without context and the text with the pair's own background object as context "
        "(calls observed as ghost trace, object identity); Color.__init__ hands the parser the context's rgb iff the context is valid, None otherwise; in parse_color_to_rgb every alpha branch (RGBA "
        "tuple, HSLA tuple, rgba()/hsla() strings) passes exactly the supplied background to the blend (white when none for rgba; hsla_to_rgb defaults to white itself) and a translucent tuple always "
        "goes through a blend. Arithmetic (exact non-linear reals, z3): rgba_to_rgb is the NEAREST integer of source-over (<= 0.5), alpha 1 gives the colour and alpha 0 the background exactly; "
        "hsla_to_rgb is the truncation of source-over of the rounded HSL colour (0 <= blend - result < 1, hence < 1 + 0.5*alpha <= 1.5 from the exact blend), alpha >= 1 returns the colour, alpha 0 the "
        "background, white by default. is_readable / make_readable read the composited _rgb only (C01/C05 contracts). Token extraction from exotic spellings is the bounded part of C07. "
        "Engine E (bounded twin): translucent spellings through ColorPair on the real code vs the exact rational blend.")

STACK13 = [f'{CV}:rgba_to_rgb#blend', f'{CV}:hsla_to_rgb#blend', f'{CP}:parse_color_to_rgb#wiring', f'{COL}:Color.__init__#context']
CAN = [
    C('RGBA tuple branch always composites over white', '                if background is None:\n                    bg_rgb = (255, 255, 255)\n                else:\n                    bg_rgb = parse_color_to_rgb(background)\n                return rgba_to_rgb((r, g, b, a), background=bg_rgb)\n            else:\n                bg_rgb = None', '                bg_rgb = (255, 255, 255)\n                return rgba_to_rgb((r, g, b, a), background=bg_rgb)\n            else:\n                bg_rgb = None', 'parse_color_to_rgb#wiring', 'blend_over_the_supplied_background', mod=CP),
    C('hsla() string ignores the background', '                return hsla_to_rgb(s, bg_rgb)', '                return hsla_to_rgb(s, None)', 'parse_color_to_rgb#wiring', 'blend_over_the_supplied_background', mod=CP),
    C('alpha applied to the background operand', '    r_out = int(round(r * a + r_bg * (1 - a)))', '    r_out = int(round(r * (1 - a) + r_bg * a))', 'rgba_to_rgb#blend', None, mod=CV),
    C('hsla blend drops (1 - a)', '    final_g = int(a * g + (1 - a) * bg_g)', '    final_g = int(a * g + bg_g)', 'hsla_to_rgb#blend', None, mod=CV),
    C('hsla default background black', '        bg_rgb = (255, 255, 255)  # Default white background', '        bg_rgb = (0, 0, 0)  # Default white background', 'hsla_to_rgb#blend', 'alpha_0', mod=CV),
    C('Color._parse never passes the context', '                bg_rgb = self.background_context.rgb', '                bg_rgb = None', 'Color.__init__#context', 'parser_gets_the_context_rgb_iff_valid', mod=COL),
]
PAIR_CAN = [
    C('text parsed without the background context', 'self.text = Color(text_color, background_context=self.bg)', 'self.text = Color(text_color)', 'ColorPair.__init__#wiring', 'background_first_text_over_it', mod=COL),
]


def exact_hsl(h, s, l):
    from oracles import css3
    return css3.hsl_to_rgb_exact(F(h), F(s), F(l))


def _twin_case(job):
    kind, fg, alpha, bg = job
    lib = rtc.load_lib()
    a = F(alpha)
    if kind in ('rgba-str', 'rgba-tuple'):
        sp = f'rgba({fg[0]}, {fg[1]}, {fg[2]}, {float(a)!r})' if kind == 'rgba-str' else (fg[0], fg[1], fg[2], float(a))
        exact_fg = [F(v) for v in fg]; tol = F(1, 2) + F(1, 10 ** 6)
    else:
        h, s, l = fg
        sp = f'hsla({h}, {float(s) * 100!r}%, {float(l) * 100!r}%, {float(a)!r})' if kind == 'hsla-str' else (float(h) / 360 if False else float(h) / 1000.0, float(s), float(l), float(a))
        if kind == 'hsla-tuple': h = F(float(h) / 1000.0)       # keep the first member <= 1 so the tuple reads as HSLA
        exact_fg = [c * 255 for c in exact_hsl(F(h), F(float(s)), F(float(l)))]; tol = F(3, 2) + F(1, 10 ** 6)
    a = F(float(a))
    out = []
    for bgsp, bgrgb in ((None, (255, 255, 255)), (bg, bg), (None, (255, 255, 255))):        # without context first: a stale parse must not be reused with a context
        try:
            if bgsp is None:
                c = lib.Color(sp); got = c.rgb if c.is_valid else None
            else:
                p = lib.ColorPair(sp, bgsp); got = p.text.rgb if p.is_valid else None
                if got is not None and (p.text._rgb != got): return job, 'text._rgb differs from text.rgb'
        except Exception as e:
            return job, f'raised {e!r}'
        if got is None: return job, f'translucent spelling {sp!r} rejected'
        exact = [f * a + F(b) * (1 - a) for f, b in zip(exact_fg, bgrgb)]
        if any(abs(F(g) - e) > tol for g, e in zip(got, exact)): return job, f'{sp!r} over {bgrgb}: got {got}, exact blend {[float(e) for e in exact]} (tolerance {float(tol)})'
        if a == 1 and kind.startswith('rgba') and tuple(got) != tuple(fg): return job, f'alpha 1 does not give the colour itself: {got}'
        if a == 0 and tuple(got) != tuple(bgrgb): return job, f'alpha 0 does not give the background: {got} vs {bgrgb}'
    # a translucent BACKGROUND is composited over white
    try:
        p = lib.ColorPair('#000', sp)
        if p.is_valid:
            exactw = [f * a + 255 * (1 - a) for f in exact_fg]
            if any(abs(F(g) - e) > tol for g, e in zip(p.bg.rgb, exactw)): return job, f'translucent background {sp!r}: got {p.bg.rgb}, exact over white {[float(e) for e in exactw]}'
    except Exception as e:
        return job, f'raised {e!r}'
    return job, None


def run(args):
    import multiprocessing as mp
    ck = Check('C13', args.tier, args.seed, 'proof')
    ck.explanation = EXPL
    prog = Program()
    cj = []
    for cn in CAN:
        ov = mutate(prog, cn['mod'], cn['old'], cn['new']); cj.append(None if ov is None else (cn['fn'], ov))
    reps = verify_many([(q, None) for q in STACK13] + [j for j in cj if j], variant='c13')
    ck.absorb_A(reps[:len(STACK13)])
    it = iter(reps[len(STACK13):]); ck.absorb_canaries(CAN, [None if j is None else next(it) for j in cj])
    pj = []
    for cn in PAIR_CAN:
        ov = mutate(prog, cn['mod'], cn['old'], cn['new']); pj.append(None if ov is None else (cn['fn'], ov))
    reps2 = verify_many([(f'{COL}:ColorPair.__init__#wiring', None)] + [j for j in pj if j], variant='c13pair')
    ck.absorb_A(reps2[:1])
    it = iter(reps2[1:]); ck.absorb_canaries(PAIR_CAN, [None if j is None else next(it) for j in pj])
    ck.trust(*TRUSTED)
    rng = random.Random(args.seed + 13)
    jobs = []
    alphas = ['0', '1', '0.5', '0.25', '0.999', '0.001', '0.1', '0.75']
    for i in range(60 if args.tier == 'quick' else 3000):
        a = rng.choice(alphas) if i % 3 else repr(round(rng.random(), 3))
        jobs.append((rng.choice(['rgba-str', 'rgba-tuple']), rtc.rand_rgb(rng), a, rtc.rand_rgb(rng)))
        jobs.append((rng.choice(['hsla-str', 'hsla-tuple']), (rng.randrange(0, 360), repr(round(rng.random(), 2)), repr(round(rng.random(), 2))), a, rtc.rand_rgb(rng)))
    with mp.get_context('fork').Pool(16) as pool:
        res = pool.map(_twin_case, jobs, chunksize=8)
    bad = [(j, b) for j, b in res if b]
    ck.bounded.append({'engine': 'E', 'what': 'translucent spellings (rgba()/hsla() strings, RGBA / HSLA tuples) through Color / ColorPair on the real code vs the exact rational source-over blend (0.5 / 1.5), alpha 0 and 1 exact, translucent background over white',
                       'evaluations': len(jobs) * 3, 'seed': args.seed, 'bound': f'{len(jobs)} generated (colour, alpha, background) triples'})
    ck.add_obligation('E', 'translucent colours vs exact blend on generated triples (bounded)', 'failed' if bad else 'discharged', 'enumeration(bounded)')
    ck.evaluations += len(jobs) * 3
    if bad:
        j, b = bad[0]; w = {'call': 'ColorPair(translucent text, background).text.rgb', 'kind': j[0], 'colour': j[1], 'alpha': j[2], 'background': j[3], 'observed': b}
        if ck.violations:
            for v in ck.violations: v['witness'] = v.get('witness') or w
        else: ck.violation('translucent colours vs exact blend', 'E', {'detail': b}, w)
    ck.assume('the arithmetic is over the reals: float rounding of two products and a sum of values <= 255 is below 1e-12, far inside the slack between 1.0+0.5 and 1.5',
              'hsl_to_rgb returns the nearest integers of the CSS HSL colour (check C07); the 1.5 bound for hsla combines that 0.5 with the proved truncation bound',
              'token extraction from rgba()/hsla() strings: C07 (bounded)')
    return ck.finish()


def replay(args):
    r = json.load(open(args.replay)); w = r.get('concrete_input') or {}
    if 'kind' in w:
        col = tuple(w['colour']); j, b = _twin_case((w['kind'], col, w['alpha'], tuple(w['background']))); print('replay', j, '->', b)
        if b: print(f'VIOLATION property=C13 replay={args.replay}'); return 1
        return 0
    return run(args)
