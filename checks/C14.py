import json, math, random, time
from .common import *
from vf import rtc
from vf.engine_a import verify_many
from vf.program import Program

CP = 'cm_colors.core.color_parser'
CV = 'cm_colors.core.conversions'
BK = 'cm_colors.core.cm_colors'
EXPL = ("C14 is decided by engine A on the real ASTs of the whole parser stack over the property's input domain - any str, or a tuple/list of length 0..5 whose members carry a SYMBOLIC tag "
        "{int of moderate magnitude, bool, finite float, nan, +inf, -inf, str, None}: every isinstance test, float()/int()/round() call, comparison, unpacking and arithmetic step is an edge with its "
        "raise set (float(None) -> TypeError, round(inf) -> OverflowError, round(nan) -> ValueError, str < int -> TypeError ...), IEEE comparisons with nan/inf are modelled, and each function is proved "
        "against its callees' contracts only: raises is a subset of {ValueError} for _parse_number_token, hex_to_rgb, rgba_to_rgb, hsl_to_rgb, hsla_to_rgb, parse_color_to_rgb; detect_color_format is total; every "
        "ValueError constructed in the library has a non-empty message; results are int triples in 0..255 (hsl numeric range with exact non-linear arithmetic); Color.__init__ raises nothing and "
        "establishes 'valid with rgb8 xor invalid with a non-empty error'; ColorPair.__init__ raises nothing; invalid pair => is_readable 'Not Readable', make_readable (None, False), bulk keeps the "
        "entry with a non-readable status. String operations (strip/lower/startswith/regex/split) are total functions with uninterpreted results; float(str) is one of {finite, nan, inf, -inf, "
        "ValueError}. Engine E (bounded twin): near-miss CSS strings and tagged tuples on the real code.")

STACK = [f'{CP}:_parse_number_token', f'{CP}:_extract_number_tokens', f'{CV}:hex_to_rgb', f'{CV}:rgba_to_rgb', f'{CV}:hsl_to_rgb.<locals>.f', f'{CV}:hsl_to_rgb', f'{CV}:hsl_to_rgb#structure',
         f'{CV}:hsla_to_rgb', f'{CP}:parse_color_to_rgb', f'{CP}:detect_color_format', f'{COL}:Color.__init__']

CAN = [
    C('Color._parse catches only TypeError', '        except ValueError as e:\n            self._error = str(e)', '        except TypeError as e:\n            self._error = str(e)', 'Color.__init__', 'raises_only', mod=COL),
    C('RGBA heuristic converts an unchecked member', '                or (isinstance(r_raw, (int, float)) and float(r_raw) > 1.0)', '                or float(r_raw) > 1.0', 'parse_color_to_rgb', 'raises_only', mod=CP),
    C('error path leaves an empty message', '        raise ValueError("S and L must be in [0, 1] after parsing")', '        raise ValueError("")', 'hsl_to_rgb#structure', 'error_message_nonempty', mod=CV),
    C('alpha range check dropped in rgba_to_rgb', '    if not isinstance(a, (float, int)) or not (0.0 <= a <= 1.0):\n        raise ValueError("RGBA a must be a float in 0–1.")\n', '', 'rgba_to_rgb', None, mod=CV),
    C('percent token no longer clamped', '            return max(0.0, min(255.0, v * 255.0 / 100.0))', '            return v * 255.0 / 100.0', '_parse_number_token', 'range', mod=CP),
]
PAIR_CAN = [
    C('make_readable dereferences an invalid pair', '        if not self.is_valid:\n            return None, False\n\n        # Use your existing', '        # Use your existing', 'ColorPair.make_readable', None, mod=COL),
]

NEAR_MISS = ['', ' ', '#', '#12', '#12345', '#1234567', '#ggg', 'rgb(', 'rgb()', 'rgb(1,2', 'rgb(1,2,3', 'rgb(1 2 3)', 'rgb(1,2,3,4,5)', 'rgb(-1,2,3)', 'rgb(1e3,2,3)', 'rgb(1,2,3)px', 'rgb(10%,20%)',
             'rgba(1,2,3,)', 'rgba(1,2,3,2)', 'rgba(1,2,3,-0.5)', 'rgba(1,2,3,101)', 'hsl(', 'hsl()', 'hsl(1)', 'hsl(1,2)', 'hsl(nan, 50%, 50%)', 'hsl(inf, 50%, 50%)', 'hsl(0, nan%, 50%)', 'hsl(0, 50%, inf%)',
             'hsl(10deg, 50%, 50%)', 'hsl(0 50% 50% / 0.5)', 'hsla(', 'hsla(1,2,3)', 'hsla(1,2,3,4,5)', 'hsla(a,b,c,d)', 'hsla(0, 50%, 50%, nan)', 'hsla(0,,,)', 'hsla(0, 50%, 50%, 1e999)', 'var(--x)', 'var(--x, #fff)',
             'inherit', 'transparent', 'currentcolor', 'calc(1+2)', 'rgb(calc(1), 2, 3)', 'rgb((1,2,3))', '((1,2,3))', '(1,2,3)', '1,2,3', '1 2 3', '1,2', '٣,٣,٣', 'rgb(１,２,３)', '\x00', 'rgb(1,2,3)\n', 'NaN', 'inf', '-inf', '1e400',
             '#-f-f-f', '#+1+2+3', '# 1 2 3', '#0x0x0x', '#1_1_1_', '#-1-1-1', '-f-f-f', '#ＦＦＦ', 'rgb(0x10, 1, 1)', 'rgb(1_0, 1, 1)', '#fff ', ' fff', 'FFF', 'ffff', 'red;', 'RED ', 're d', 'rgb', 'hsl', '%', '%%%', '1%,2%,3%', '.5,.5,.5', '+1,+2,+3', '--1,2,3', '1e2,1,1', 'hsl(1e2, 1%, 1%)', 'hsla(0, 50%, 50%, 50%)']
ELEMS = [0, 1, 255, 256, -1, 128, 10 ** 6, True, False, 0.0, 0.5, 1.0, 1.5, 255.0, 360.0, -0.5, float('nan'), float('inf'), float('-inf'), '0', '255', '50%', 'abc', '', ' 12 ', 'nan', 'inf', None]


def _fuzz_case(job):
    kind, val = job
    lib = rtc.load_lib()
    import cm_colors.core.cm_colors as bm
    def chk_color(c):
        if c.is_valid:
            r = c.rgb
            return type(r) is tuple and len(r) == 3 and all(type(x) is int and 0 <= x <= 255 for x in r) and c.error is None
        return c.rgb is None and isinstance(c.error, str) and len(c.error) > 0
    try:
        v = list(val) if kind == 'list' else (tuple(val) if kind == 'tuple' else val)
        c = lib.Color(v)
        if not chk_color(c): return job, f'Color state inconsistent: valid={c.is_valid} rgb={c.rgb!r} error={c.error!r}'
        for other in ('#fff', v):
            p = lib.ColorPair(v, other, False)
            if not (chk_color(p.text) and chk_color(p.bg)): return job, 'ColorPair member state inconsistent'
            if not p.is_valid:
                if p.is_readable != 'Not Readable': return job, f'invalid pair is_readable={p.is_readable!r}'
                for m in (0, 1, 2):
                    if p.make_readable(m, bool(m & 1)) != (None, False): return job, f'invalid pair make_readable(mode={m}) = {p.make_readable(m)!r}'
                if not p.errors: return job, 'invalid pair has no errors listed'
            else:
                p.is_readable
            p2 = lib.ColorPair(other, v, True); p2.is_valid; p2.is_readable
        out = bm.make_readable_bulk([('#777', '#fff'), (v, '#fff'), ('#000', v, True)])
        if len(out) != 3: return job, f'bulk returned {len(out)} results for 3 entries'
        if not lib.Color(v).is_valid and (out[1][1] in ('readable', 'very readable') or out[2][1] in ('readable', 'very readable')): return job, f'bulk claims readability for an invalid entry: {out!r}'
        if isinstance(v, (tuple, list)):
            # Python-equal doubles of the same container (1 == True == 1.0, 0 == False) that the library judges differently: in one bulk list, in
            # both orders, every invalid member must still be reported invalid and every valid one must not be
            sw = {1: True, 0: False}
            dbl = [type(v)((sw.get(x, x) if type(x) is int else (int(x) if type(x) is bool else x)) for x in v),
                   type(v)((float(x) if type(x) is int else x) for x in v)]
            for w in dbl:
                if w != v or [type(x) for x in w] == [type(x) for x in v]: continue
                okv, okw = lib.Color(v).is_valid, lib.Color(w).is_valid
                for lst in ([(v, '#fff'), (w, '#fff')], [(w, '#fff'), (v, '#fff')]):
                    out2 = bm.make_readable_bulk(lst)
                    if len(out2) != 2: return job, f'bulk returned {len(out2)} results for 2 entries'
                    for (e, _), ok, o in zip(lst, [okv, okw] if lst[0][0] is v else [okw, okv], out2):
                        if not ok and o[1] in ('readable', 'very readable'): return job, f'bulk claims readability for the invalid entry {e!r} listed next to its valid equal: {lst!r} -> {out2!r}'
                        if ok and o[1] == 'invalid color': return job, f'bulk reports the valid entry {e!r} as invalid when listed next to its invalid equal: {lst!r} -> {out2!r}'
    except Exception as e:
        return job, f'raised {type(e).__name__}: {e}'
    return job, None


def run(args):
    import multiprocessing as mp
    ck = Check('C14', args.tier, args.seed, 'proof')
    ck.explanation = EXPL
    prog = Program()
    # ---- parser stack (registry variant c14)
    cj = []
    for cn in CAN:
        ov = mutate(prog, cn['mod'], cn['old'], cn['new']); cj.append(None if ov is None else (cn['fn'], ov))
    reps = verify_many([(q, None) for q in STACK] + [j for j in cj if j], variant='c14', timeout_ms=30000)
    ck.absorb_A(reps[:len(STACK)])
    it = iter(reps[len(STACK):]); ck.absorb_canaries(CAN, [None if j is None else next(it) for j in cj])
    # ---- ColorPair constructor (variant c14pair) and the behaviour on invalid pairs (default registry / c12)
    reps2 = verify_many([(f'{COL}:ColorPair.__init__', None)], variant='c14pair')
    ck.absorb_A(reps2)
    pj = []
    for cn in PAIR_CAN:
        ov = mutate(prog, cn['mod'], cn['old'], cn['new']); pj.append(None if ov is None else (cn['fn'], ov))
    reps3 = verify_many([(f'{COL}:ColorPair.is_readable', None), (f'{COL}:ColorPair.make_readable', None)] + [j for j in pj if j])
    ck.absorb_A(reps3[:2])
    it = iter(reps3[2:]); ck.absorb_canaries(PAIR_CAN, [None if j is None else next(it) for j in pj])
    reps4 = verify_many([(f'{BK}:make_readable_bulk', None)], variant='c12')
    ck.absorb_A(reps4)
    ck.trust(*TRUSTED)
    # ---- engine D: the finite-table lemma engine A uses for the hex branch
    lib0 = rtc.load_lib()
    digs = '0123456789abcdefABCDEF'; tb = []
    for x in digs:
        for y in digs:
            try:
                v = int(x + y, 16)
                if not 0 <= v <= 255: tb.append((x + y, v))
            except Exception as e: tb.append((x + y, repr(e)))
    ck.add_obligation('D', 'lemma/int(two hex digits, 16) is in 0..255 and does not raise [all 22^2 digit pairs]', 'failed' if tb else 'discharged', 'exhaustive')
    ck.exhaustive.append({'engine': 'D', 'what': 'int(xy, 16) for every pair of characters of "0123456789abcdefABCDEF"', 'domain': '484 strings', 'evaluations': 484, 'exhaustive': True})
    # a concrete input for failed raises-only obligations: the model's tags ARE an input shape; search the bounded twin below
    # ---- engine E: fuzz twin
    rng = random.Random(args.seed + 14)
    jobs = [('str', s) for s in NEAR_MISS]
    for n in range(0, 6):
        for _ in range(60 if args.tier == 'quick' else 1500):
            vals = [rng.choice(ELEMS) for _ in range(n)]
            jobs.append((rng.choice(['tuple', 'list']), vals))
    for a in ELEMS:            # every single member kind in every position of 3- and 4-tuples of otherwise plausible values
        for pos in range(4):
            base4 = [0.5, 0.5, 0.5, 0.5]; base4[pos] = a; jobs.append(('tuple', base4))
            base4i = [10, 20, 30, 0.5]; base4i[pos] = a; jobs.append(('tuple', base4i))
            if pos < 3:
                b3 = [120, 0.5, 0.5]; b3[pos] = a; jobs.append(('tuple', b3))
                b3i = [10, 20, 30]; b3i[pos] = a; jobs.append(('list', b3i))
    alphabet = ['rgb', 'rgba', 'hsl', 'hsla', '(', ')', ',', ' ', '%', '#', '-', '+', '.', 'e', '/', '1', '0', '255', '50', 'f', 'nan', 'inf', 'var(--x)', 'deg', '\t']
    for _ in range(300 if args.tier == 'quick' else 20000):
        jobs.append(('str', ''.join(rng.choice(alphabet) for _ in range(rng.randrange(1, 12)))))
    with mp.get_context('fork').Pool(16) as pool:
        res = pool.map(_fuzz_case, jobs, chunksize=16)
    bad = [(j, b) for j, b in res if b]
    ck.bounded.append({'engine': 'E', 'what': 'Color / ColorPair / bulk on near-miss CSS strings and tagged tuples/lists of length 0..5 (real code): never raises; valid xor error; invalid pairs: Not Readable, (None, False), bulk carries on',
                       'evaluations': len(jobs), 'seed': args.seed, 'bound': 'fixed near-miss list + every member kind in every position + seeded random tuples and token strings'})
    ck.add_obligation('E', 'constructors never raise; object invariant; invalid-pair behaviour (bounded)', 'failed' if bad else 'discharged', 'enumeration(bounded)')
    ck.evaluations += len(jobs)
    if bad:
        j, b = bad[0]
        w = {'call': 'Color(input) / ColorPair(input, ...) / make_readable_bulk', 'kind': j[0], 'input': repr(j[1]), 'observed': b}
        hit = [v for v in ck.violations if 'raises_only' in v['obligation'] or 'valid_xor' in v['obligation']]
        for v in hit: v['witness'] = v.get('witness') or w
        if not hit: ck.violation('constructors never raise (run-time)', 'E', {'detail': b, 'failing_cases': len(bad)}, w, {'witness_key': b.split(':')[0]})
    ck.assume("string methods, re.* and _NUM_RE.findall are total on str arguments and raise nothing; float(str) yields a finite float, nan, +-inf or ValueError; int(str, 16) a value or ValueError (stdlib, as documented)",
              "exceptions raised INSIDE stdlib functions contrary to their documented raise sets are not modelled",
              "ints of moderate magnitude: |n| <= 10^6 (float(10**400) overflows: outside the statement)",
              "hex_to_rgb: int(two hex digits, 16) in 0..255 without raising is a finite-table lemma, checked exhaustively here (484 pairs); `all(c in LITERAL for c in s)` is read as 'every character of s is in LITERAL'",
              "hsl numeric range: proved with exact non-linear real arithmetic on {str, float triple}; every other spelling reaches the same arithmetic with (h,s,l) in the same ranges")
    return ck.finish()


def replay(args):
    r = json.load(open(args.replay)); w = r.get('concrete_input') or {}
    if 'input' in w:
        val = eval(w['input'], {'nan': float('nan'), 'inf': float('inf')})
        j, b = _fuzz_case((w['kind'], val)); print('replay', j, '->', b)
        if b: print(f'VIOLATION property=C14 replay={args.replay}'); return 1
        return 0
    fn = (r.get('verifier_output') or {}).get('function')
    if fn:
        rep = verify_many([(fn, None)], variant='c14')[0]
        bad = [x['name'] for x in rep['results'] if x['status'] != 'discharged']
        print('re-verified', fn, ':', bad[:4] or 'all discharged')
        if bad: print(f'VIOLATION property=C14 replay={args.replay} no-failing-input-found'); return 1
        return 0
    return run(args)
