import json, time, random, subprocess, sys, os, threading
from .common import *
from vf import effects, rtc
from vf.program import Program, SRC_ROOT
from contracts.effects import DECLARED

EXPL = ("C15 is decided by engine C as frame conditions: every function of the package is checked, from its own AST and the DECLARED effects of its callees only, to have no effect outside its "
        "declaration - and every function of the core (parser, conversions, metrics, contrast, optimiser, Color/ColorPair queries) is declared PURE: reads only its arguments and immutable module "
        "constants, writes only fresh objects (constructors initialise self; make_readable has no attribute store at all), no module-level mutable state, no stateful decorators, no mutable default "
        "that is mutated, no set iteration, no reflection. Purity of every reachable function implies the same result in a fresh interpreter, after any history, at any bulk position and on "
        "repetition. The thread clause follows only by implication (no shared mutable state + CPython's own objects assumed thread-safe): this family has no model of schedules. Engine E (bounded twin): "
        "probe calls before/after seeded histories, same-object repetition, 8 threads, two PYTHONHASHSEEDs in fresh interpreters, __dict__ snapshot of the pair.")

PROBES = [(((119, 119, 119), (255, 255, 255), False), (1, False)), (('#888', 'white', False), (2, True)), (((203, 249, 83), (114, 82, 220), True), (0, False)),
          (('rgba(10, 20, 30, 0.5)', '#334455', False), (1, True)), (('hsl(200, 50%, 55%)', '#ffffff', False), (1, False)), (((150, 140, 130), (160, 150, 140), False), (2, False))]


def _calls(limit=None):
    out = []
    for (t, b, l), (m, v) in PROBES[:limit]:
        for mode in (0, 1, 2):
            for very in (False, True): out.append((t, b, l, mode, very))
    return out


def _probe(lib, order='forward', limit=None):
    """every probe pair x every setting; returns {call: result} so that the ORDER of evaluation can be varied"""
    calls = _calls(limit)
    if order == 'reverse': calls = calls[::-1]
    res = {}
    for (t, b, l, m, v) in calls:
        p = lib.ColorPair(t, b, l)
        res[json.dumps([t, b, l, m, v])] = [p.is_readable, p.make_readable(m, v)]
    for (t, b, l), (m, v) in (PROBES[:limit] if order == 'forward' else PROBES[:limit][::-1]):
        res['bulk' + json.dumps([t, b, l, m, v])] = lib.make_readable_bulk([(t, b, l), ('#777', '#fff')], mode=m, very_readable=v)
    return res


def _subprocess_probe(seed, order='forward'):
    code = ("import sys, json; sys.path.insert(0, %r); sys.path.insert(0, %r)\n"
            "from vf import rtc; from checks.C15 import _probe\n"
            "print(json.dumps(_probe(rtc.load_lib(), %r), default=list))") % (SRC_ROOT, os.path.dirname(os.path.dirname(os.path.abspath(__file__))), order)
    env = dict(os.environ, PYTHONHASHSEED=str(seed))
    r = subprocess.run([sys.executable, '-c', code], capture_output=True, text=True, env=env, timeout=300)
    if r.returncode != 0: return f'subprocess failed: {r.stderr[-300:]}'
    return json.loads(r.stdout.strip().splitlines()[-1])


def e_twin(ck, seed):
    lib = rtc.load_lib()
    norm = lambda x: json.loads(json.dumps(x, default=list))
    sub = {}
    def bg(hs, order): sub[(hs, order)] = _subprocess_probe(hs, order)
    bgth = [threading.Thread(target=bg, args=a) for a in ((0, 'forward'), (12345, 'reverse'))]
    [t.start() for t in bgth]
    base = norm(_probe(lib))
    rng = random.Random(seed + 15)
    gen = rtc.pair_stream(rng)
    bad = None
    # history: other pairs / settings / bulk runs, then probe again
    for i in range(40 if ck.tier == 'quick' else 400):
        t, b = next(gen)
        try:
            p = lib.ColorPair(t, b, bool(i & 1)); p.is_readable; p.make_readable(i % 3, bool(i & 2))
            if i % 7 == 0: lib.make_readable_bulk([(t, b), (b, t, True)], mode=(i + 1) % 3, very_readable=bool(i & 4))
        except Exception as e:
            bad = {'clause': 'history call raised', 'detail': repr(e)}; break
    def first_diff(a, b):
        for k in a:
            if a[k] != b.get(k): return {'call (text, bg, large, mode, very_readable)': k, 'one': a[k], 'other': b.get(k)}
    if not bad:
        after = norm(_probe(lib))
        if after != base: bad = {'clause': 'result differs after a history of other calls', **first_diff(base, after)}
    # repetition on the same object with other settings in between; object unchanged
    if not bad:
        for (t, b, l), (m, v) in PROBES:
            p = lib.ColorPair(t, b, l)
            snap = (dict(p.__dict__), dict(p.text.__dict__), dict(p.bg.__dict__))
            first = p.make_readable(m, v)
            p.make_readable((m + 1) % 3, not v); p.make_readable(m, not v)
            again = p.make_readable(m, v)
            snap2 = (dict(p.__dict__), dict(p.text.__dict__), dict(p.bg.__dict__))
            if again != first: bad = {'clause': 'repeated call on the same ColorPair differs', 'text': t, 'bg': b, 'large': l, 'mode': m, 'very_readable': v, 'first': first, 'again': again}; break
            if snap2 != snap: bad = {'clause': 'make_readable altered the ColorPair', 'text': t, 'bg': b, 'before': str(snap)[:200], 'after': str(snap2)[:200]}; break
    # position in a bulk list: every item of a mixed list (2- and 3-element entries, both text sizes) gives, at every position, what it gives alone
    if not bad:
        import itertools
        items = [('#8a8a8a', '#ffffff'), ('#8a8a8a', '#ffffff', True), ((150, 150, 150), (255, 255, 255)), ('#777777', '#ffffff', False), ((150, 150, 150), (255, 255, 255), True)]
        for m, v in ((1, False), (0, True)):
            alone = [lib.make_readable_bulk([it], mode=m, very_readable=v)[0] for it in items]
            perms = list(itertools.permutations(range(len(items))))
            for perm in (perms if ck.tier != 'quick' else perms[::7]):
                got = lib.make_readable_bulk([items[i] for i in perm], mode=m, very_readable=v)
                for pos, i in enumerate(perm):
                    if got[pos] != alone[i]:
                        bad = {'clause': 'result depends on the position in a bulk list', 'list': [items[j] for j in perm], 'position': pos, 'mode': m, 'very_readable': v, 'in_list': got[pos], 'alone': alone[i]}; break
                if bad: break
            if bad: break
    # threads
    if not bad:
        results = [None] * 8; errs = []
        old_si = sys.getswitchinterval(); sys.setswitchinterval(1e-6)      # force frequent thread switches
        def work(i):
            try: results[i] = norm(_probe(lib, 'forward' if i % 2 == 0 else 'reverse', 2))
            except Exception as e: errs.append(repr(e))
        for rep in range(2 if ck.tier == 'quick' else 10):
            ths = [threading.Thread(target=work, args=(i,)) for i in range(8)]
            [t.start() for t in ths]; [t.join() for t in ths]
            if errs or any(r is None or any(r[k] != base[k] for k in r) for r in results):
                d = next(({'call (text, bg, large, mode, very_readable)': k, 'one': base[k], 'other': r[k]} for r in results if r for k in r if r[k] != base[k]), {})
                bad = {'clause': 'result differs when issued concurrently from 8 threads', 'errors': errs[:2], **(d or {})}; break
        sys.setswitchinterval(old_si)
    # fresh interpreters with different hash seeds
    if not bad:
        [t.join() for t in bgth]
        for hs, order in ((0, 'forward'), (12345, 'reverse')):
            r = sub.get((hs, order), 'subprocess did not finish')
            if isinstance(r, str): bad = {'clause': 'fresh interpreter probe failed', 'detail': r}; break
            if r != base: bad = {'clause': f'result differs in a fresh interpreter (PYTHONHASHSEED={hs}, calls issued in {order} order): history dependence', **(first_diff(base, r) or {})}; break
    n = (40 if ck.tier == 'quick' else 400) + len(PROBES) * 4 + 16 + 2
    ck.bounded.append({'engine': 'E', 'what': 'dynamic twin of the frame proof: probe before/after histories, same-object repetition + __dict__ snapshot, 8 threads, fresh interpreters with two hash seeds', 'evaluations': n * len(PROBES), 'seed': seed, 'bound': 'fixed probe set x seeded histories'})
    ck.evaluations += n * len(PROBES)
    return bad


C_CANARIES = [
    ('module-level memo table in the optimiser', 'cm_colors.core.optimisation', 'def generate_accessible_color(', '_MEMO = {}\n\n\ndef _remember(k, v):\n    _MEMO[k] = v\n    return v\n\n\ndef generate_accessible_color(', '_remember'),
    ('make_readable stores on the pair', 'cm_colors.core.colors', '        premium = very_readable\n', '        premium = very_readable\n        self._last = premium\n', 'ColorPair.make_readable'),
    ('debug print in the parser', 'cm_colors.core.color_parser', '    if isinstance(color, (tuple, list)):\n        ln = len(color)', '    if isinstance(color, (tuple, list)):\n        print(color)\n        ln = len(color)', 'parse_color_to_rgb'),
    ('lru_cache on the contrast ratio', 'cm_colors.core.contrast', 'def calculate_contrast_ratio(', 'import functools\n\n\n@functools.lru_cache(maxsize=None)\ndef calculate_contrast_ratio(', 'calculate_contrast_ratio'),
    ('schedule default argument that grows', 'cm_colors.core.optimisation', '    delta_e_sequence: Optional[List[float]] = None,\n) -> Tuple[int, int, int]:', '    delta_e_sequence: Optional[List[float]] = [],\n) -> Tuple[int, int, int]:\n    delta_e_sequence.append(5.0)', 'generate_accessible_color'),
]


def c_part(prog):
    obls, sums, an = effects.check_all(prog, DECLARED)
    extra = []
    # Color._parse is reachable only from Color.__init__ (so its self-mutation is construction)
    callers = [q for q, s in sums.items() for c, _, _ in s.calls if c.endswith(':Color._parse')]
    extra.append({'name': 'Color._parse/called_only_from[Color.__init__]', 'ok': set(callers) <= {'cm_colors.core.colors:Color.__init__'}, 'detail': callers})
    extra.append({'name': 'package/no_module_level_mutable_state', 'ok': not an.mutated_globals, 'detail': an.mutated_globals})
    # module bodies contain only imports, defs, classes, constant assignments, docstrings and the __main__ guard
    odd = []
    for m in prog.modules.values():
        import ast
        for n in m.tree.body:
            if isinstance(n, (ast.Import, ast.ImportFrom, ast.FunctionDef, ast.ClassDef, ast.Assign, ast.AnnAssign)): continue
            if isinstance(n, ast.Expr) and isinstance(n.value, ast.Constant): continue
            if isinstance(n, ast.If) and '__name__' in ast.unparse(n.test): continue
            odd.append(f'{m.name}:{n.lineno} {type(n).__name__}')
        for c in m.classes.values():
            for n in c.body:
                if isinstance(n, (ast.Assign, ast.AnnAssign)) and isinstance(getattr(n, 'value', None), (ast.Dict, ast.List, ast.Set, ast.Call)):
                    odd.append(f'{m.name}:{n.lineno} class-level mutable attribute')
    extra.append({'name': 'package/module_and_class_bodies_are_declarations_only', 'ok': not odd, 'detail': odd[:5]})
    return obls + extra


def run(args):
    ck = Check('C15', args.tier, args.seed, 'proof')
    ck.explanation = EXPL
    prog = Program()
    t0 = time.time()
    obls = c_part(prog)
    dt = time.time() - t0
    for o in obls:
        ck.add_obligation('C', o['name'], 'discharged' if o['ok'] else ('unknown' if o['ok'] is None else 'failed'), 'effect-checker', dt / len(obls), o['detail'])
        if o['ok'] is False: ck.violation(o['name'], 'C', {'offending': o['detail']})
        elif o['ok'] is None: ck.undecide(o['name'], str(o['detail']))
        if 'qual' in o: ck.functions.append(o['qual'])
    ck.sample({'engine': 'C', 'obligation': 'cm_colors.core.optimisation:generate_accessible_color/frame[pure]', 'status': 'discharged'})
    for cname, mod, old, new, target in C_CANARIES:
        mp = prog.mutate(mod, old, new)
        if mp is None: ck.notes.append(f"canary '{cname}': pattern no longer matches - skipped"); continue
        try: o2 = c_part(mp)
        except SyntaxError as e: ck.notes.append(f"canary '{cname}': mutant does not parse ({e}) - skipped"); continue
        killed = [o['name'] for o in o2 if o['ok'] is False]
        ck.self_test(f'canary {cname}', bool(killed), f'killed by {killed[0]}' if killed else 'mutant still passes the frame check')
    # "at any position in a bulk list": each entry of make_readable_bulk is a function of that entry and the settings alone - the per-iteration obligation of check C12 (engine A)
    from vf.engine_a import verify_many
    ck.absorb_A(verify_many([('cm_colors.core.cm_colors:make_readable_bulk', None)], variant='c12'))
    bad = e_twin(ck, args.seed)
    if bad:
        if ck.violations:
            for v in ck.violations: v['witness'] = bad
        else:
            ck.violation('dynamic twin: ' + bad['clause'], 'E', {'note': 'frame obligations discharged but a run-time difference was observed: analysis gap'}, bad)
    ck.add_obligation('E', 'dynamic purity twin (bounded)', 'failed' if bad else 'discharged', 'enumeration(bounded)')
    ck.trust('CPython objects (float, tuple, str, re cache, math) are thread-safe; tinycss2 / click / rich keep no state that reaches a result',
             'the effect tables of vf/effects.py for builtins and stdlib calls (pure / stdout / filesystem / nondeterministic)')
    ck.assume('threads and separate interpreter processes: implication from the frame proof, plus the bounded twin - no schedule model',
              'a complete-key memoiser would be flagged by this check although it keeps the property (conservative frame proof): reported with no-failing-input-found')
    return ck.finish()


def replay(args):
    ck = Check('C15', 'quick', 0, 'proof')
    bad = e_twin(ck, 0)
    obls = c_part(Program())
    failed = [o['name'] for o in obls if o['ok'] is False]
    print('replay: frame obligations failing now:', failed[:5], '; dynamic twin:', bad)
    if bad or failed:
        print(f'VIOLATION property=C15 replay={args.replay}' + ('' if bad else ' no-failing-input-found')); return 1
    return 0
