import random, time
from .common import *
from vf import rtc


def _rel_case(job):
    t, b, large = job
    lib = rtc.load_lib()
    out = []
    res = {}
    for mode in (1, 2):
        for very in (False, True):
            res[(mode, very)] = lib.ColorPair(t, b, large).make_readable(mode, very)
    for very in (False, True):
        r1, r2 = res[(1, very)], res[(2, very)]
        if r1[1] and r2 != r1: out.append(('mode2_covers_mode1', {'very_readable': very, 'mode1': r1, 'mode2': r2}))
    for mode in (1, 2):
        if res[(mode, True)][1] and not res[(mode, False)][1]:
            out.append(('readable_covers_very_readable', {'mode': mode, 'very': res[(mode, True)], 'plain': res[(mode, False)]}))
    r0v, r0 = lib.ColorPair(t, b, large).make_readable(0, True), lib.ColorPair(t, b, large).make_readable(0, False)
    if r0v[1] and not r0[1]: out.append(('readable_covers_very_readable', {'mode': 0, 'very': r0v, 'plain': r0}))
    return job, out


def relational_E(ck, prog, args=None):
    import multiprocessing as mp
    n = 160 if ck.tier == 'quick' else 4000
    rng = random.Random(ck.seed + 16)
    gen = rtc.pair_stream(rng, near_frac=0.8)
    jobs = [(*next(gen), bool(rng.getrandbits(1))) for _ in range(n)]
    t0 = time.time()
    with mp.get_context('fork').Pool(16) as pool:
        res = pool.map(_rel_case, jobs, chunksize=4)
    bad = [(j, o) for j, o in res if o]
    ck.bounded.append({'engine': 'E', 'what': 'relational clause on the real code: mode 1 success => mode 2 identical; very_readable success => plain success (modes 0,1,2)',
                       'evaluations': len(jobs) * 6, 'seed': ck.seed, 'wall_s': round(time.time() - t0, 1), 'bound': f'{len(jobs)} generated pairs x 6 calls'})
    ck.evaluations += len(jobs) * 6
    for j, o in bad[:1]:
        ck.violation(f'ColorPair.make_readable/{o[0][0]} (run-time relational contract)', 'E', o[0][1],
                     {'text': j[0], 'bg': j[1], 'large': j[2], 'clause': o[0][0], 'observed': o[0][1]}, {'kind': 'relational'})


EXPL = ("C16 clause 1 (mode 2 covers mode 1) is decided by engine A: _strategy_relaxed ensures REC(args).success => result == REC(args) where REC is the "
        "function symbol of _strategy_recursive (sound because the strategies are pure: check C15); check_and_fix_contrast dispatches mode 1 to REC and "
        "mode 2 to the relaxed strategy with the SAME arguments (mode1_is_rec, mode2_covers_rec), and make_readable wraps both identically (wraps_caf, "
        "format_kept). Clause 2 (readable covers very-readable) is relational between two runs; the unary facts it needs (same target, min_lo <= min_hi) "
        "are proved, but the 2-run product proof is not built: that clause is a BOUNDED run-time check on the real code (engine E), never counted as proved.")


def run(args):
    closure = [f'{COL}:ColorPair.make_readable', f'{OPT}:check_and_fix_contrast', f'{OPT}:_strategy_relaxed']
    ck = standard_check('C16', args, 'other', EXPL, closure, ['shape'], n_quick=60, n_thorough=400, extra=relational_E)
    ck.assume('_strategy_recursive is deterministic and effect-free (function symbol REC): check C15, engine C',
              'clause 2 (very_readable => readable) is checked only on generated pairs (bounded)')
    return ck.finish()


def replay(args):
    import json
    r = json.load(open(args.replay)); w = r.get('concrete_input')
    if w and w.get('clause'):
        j, out = _rel_case((tuple(w['text']), tuple(w['bg']), w['large']))
        print('replay', w['text'], w['bg'], w['large'], '->', out)
        if out:
            print(f'VIOLATION property=C16 replay={args.replay}'); return 1
        return 0
    from .replay import replay_make_readable
    return replay_make_readable('C16', args)
