import random, time
from .common import *
from vf import rtc


def _rel_case(job):
    t, b, large = job
    lib = rtc.load_lib()
    out = []
    res = {}
    for mode in (1, 2):
        for very in (False, True):
            res[(mode, very)] = lib.ColorPair(t, b, large).make_readable(mode, very)
    for very in (False, True):
        r1, r2 = res[(1, very)], res[(2, very)]
        if r1[1] and r2 != r1: out.append(('mode2_covers_mode1', {'very_readable': very, 'mode1': r1, 'mode2': r2}))
    for mode in (1, 2):
        if res[(mode, True)][1] and not res[(mode, False)][1]:
            out.append(('readable_covers_very_readable', {'mode': mode, 'very': res[(mode, True)], 'plain': res[(mode, False)]}))
    r0v, r0 = lib.ColorPair(t, b, large).make_readable(0, True), lib.ColorPair(t, b, large).make_readable(0, False)
    if r0v[1] and not r0[1]: out.append(('readable_covers_very_readable', {'mode': 0, 'very': r0v, 'plain': r0}))
    return job, out


def relational_E(ck, prog, args=None):
    import multiprocessing as mp
    n = 160 if ck.tier == 'quick' else 4000
    rng = random.Random(ck.seed + 16)
    gen = rtc.pair_stream(rng, near_frac=0.8)
    jobs = [(*next(gen), bool(rng.getrandbits(1))) for _ in range(n)]
    t0 = time.time()
    with mp.get_context('fork').Pool(16) as pool:
        res = pool.map(_rel_case, jobs, chunksize=4)
    bad = [(j, o) for j, o in res if o]
    ck.bounded.append({'engine': 'E', 'what': 'relational clause on the real code: mode 1 success => mode 2 identical; very_readable success => plain success (modes 0,1,2)',
                       'evaluations': len(jobs) * 6, 'seed': ck.seed, 'wall_s': round(time.time() - t0, 1), 'bound': f'{len(jobs)} generated pairs x 6 calls'})
    ck.evaluations += len(jobs) * 6
    for j, o in bad[:1]:
        # the verifier's failed two-run obligations get this concrete pair as their failing input (replayed on the real code)
        for v in ck.violations:
            if v['engine'] == 'A' and v.get('witness') is None and ('~rel' in v['obligation']) == (o[0][0] == 'readable_covers_very_readable'):
                v['witness'] = {'text': j[0], 'bg': j[1], 'large': j[2], 'clause': o[0][0], 'observed': o[0][1]}
        ck.violation(f'ColorPair.make_readable/{o[0][0]} (run-time relational contract)', 'E', o[0][1],
                     {'text': j[0], 'bg': j[1], 'large': j[2], 'clause': o[0][0], 'observed': o[0][1]}, {'kind': 'relational'})


EXPL = ("C16 clause 1 (mode 2 covers mode 1) is decided by engine A: _strategy_relaxed ensures REC(args).success => result == REC(args) where REC is the "
        "function symbol of _strategy_recursive (sound because the strategies are pure: check C15); check_and_fix_contrast dispatches mode 1 to REC and "
        "mode 2 to the relaxed strategy with the SAME arguments (mode1_is_rec, mode2_covers_rec), and make_readable wraps both identically (wraps_caf, "
        "format_kept). Clause 2 (readable covers very-readable) relates two runs: it is decided by the relational driver of engine A (vf/relational.py), "
        "which executes the real body twice in lock-step (hi = stricter minimum, lo = weaker minimum, all other arguments shared) and discharges a chain of "
        "relational contracts, each used by its caller as a contract: generate_accessible_color [min_lo <= min_hi => result_lo == result_hi or "
        "CR(result_lo,bg) >= min_lo; product loop over the tolerance schedule with invariant 'same best candidate'], the three strategies "
        "[success_hi => success_lo; product loops, `the stricter run never gets ahead`], check_and_fix_contrast [premium_lo => premium_hi gives "
        "success_hi => success_lo: same target, ordered minima, same strategy], and make_readable returns the flag of check_and_fix_contrast (wraps_caf). "
        "The bounded run-time relational check on the real code (engine E) stays as cross-check and to make a failed obligation concrete.")

REL = [f'{OPT}:generate_accessible_color~rel', f'{OPT}:_strategy_strict~rel', f'{OPT}:_strategy_recursive~rel', f'{OPT}:_strategy_relaxed~rel',
       f'{OPT}:check_and_fix_contrast~rel']


def run(args):
    closure = [f'{COL}:ColorPair.make_readable', f'{OPT}:check_and_fix_contrast', f'{OPT}:_strategy_relaxed'] + REL
    ck = standard_check('C16', args, 'proof', EXPL, closure, ['shape'], n_quick=60, n_thorough=400, extra=relational_E)
    ck.assume('the strategies, generate_accessible_color and check_and_fix_contrast are deterministic and effect-free (function symbols; relational contracts '
              'instantiated between two calls): check C15, engine C',
              'relational driver: the unary loop invariants of the same functions are assumed on both runs (discharged by checks C01/C02/C04 on the same source)',
              'composition step make_readable(very_readable=v).flag == check_and_fix_contrast(premium=v).flag is the unary postcondition wraps_caf; the two-run '
              'statement at make_readable follows by instantiating the relational contract of check_and_fix_contrast (not re-executed as a product)')
    return ck.finish()


def replay(args):
    import json
    r = json.load(open(args.replay)); w = r.get('concrete_input')
    if w and w.get('clause'):
        j, out = _rel_case((tuple(w['text']), tuple(w['bg']), w['large']))
        print('replay', w['text'], w['bg'], w['large'], '->', out)
        if out:
            print(f'VIOLATION property=C16 replay={args.replay}'); return 1
        return 0
    from .replay import replay_make_readable
    return replay_make_readable('C16', args)
