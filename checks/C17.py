import json, os, random, sys, tempfile, time
from .common import *
from vf import effects, rtc
from vf.program import Program
from contracts.effects import DECLARED

VI = 'cm_colors.core.visualiser'
BK = 'cm_colors.core.cm_colors'
EXPL = ("C17: (C) frame obligations: the only functions of the library allowed any output or file effect are to_console (stdout), to_html_bulk / generate_report (one open(output_path,'w')), "
        "make_readable / make_readable_bulk (through those) and the CLI; every other function reachable from Color / ColorPair / make_readable_bulk is PURE, checked modularly on the real ASTs. "
        "(A) on make_readable's real AST: every path that performs an effect satisfies `show or save_report` (so the plain call is silent and file-free); the returned tuple is the same function "
        "of check_and_fix_contrast's result and the format tag whatever show/save_report are (wraps_caf, format_kept); the preview is called with three '#rrggbb' strings built by the library's own "
        "hex formatter (precondition of to_console, needs the C06 read-back lemma) and nothing in the block can raise. rich accepting such styles and the report write succeeding are assumed. "
        "(E, bounded) the real calls with stdout/stderr captured at file-descriptor level and the working directory listed before/after.")


def _fd_capture(fn):
    """run fn() with fds 1 and 2 redirected to files; returns (result, exception, captured bytes)"""
    sys.stdout.flush(); sys.stderr.flush()
    with tempfile.TemporaryFile() as f1, tempfile.TemporaryFile() as f2:
        o1, o2 = os.dup(1), os.dup(2)
        os.dup2(f1.fileno(), 1); os.dup2(f2.fileno(), 2)
        res = exc = None
        try:
            res = fn()
        except Exception as e:
            exc = e
        finally:
            sys.stdout.flush(); sys.stderr.flush()
            os.dup2(o1, 1); os.dup2(o2, 2); os.close(o1); os.close(o2)
        f1.seek(0); f2.seek(0)
        return res, exc, f1.read() + f2.read()


def _e_case(job):
    sp, bg, large, mode, very = job
    lib = rtc.load_lib()
    import cm_colors.core.cm_colors as bulkmod
    cwd = os.getcwd()
    sp_in = list(sp) if isinstance(sp, list) else sp
    with tempfile.TemporaryDirectory() as d:
        os.chdir(d)
        try:
            def plain():
                p = lib.ColorPair(sp_in, bg, large); p.is_valid; p.is_readable; p.errors
                return p.make_readable(mode, very), bulkmod.make_readable_bulk([(sp_in, bg, large), ('#777', '#fff')], mode=mode, very_readable=very)
            (res, exc, out) = _fd_capture(plain)
            if exc: return job, f'plain call raised {exc!r}'
            if out: return job, f'plain call wrote to stdout/stderr: {out[:120]!r}'
            if os.listdir(d): return job, f'plain call created files: {os.listdir(d)}'
            single, bulk = res
            for show, save in ((True, False), (False, True), (True, True)):
                r2, exc, out = _fd_capture(lambda: lib.ColorPair(sp_in, bg, large).make_readable(mode, very, show=show, save_report=save))
                if exc: return job, f'show={show} save_report={save}: raised {exc!r}'
                if r2 != single: return job, f'show={show} save_report={save}: returned {r2!r}, plain call returned {single!r}'
                want = ['cm_colors_quick_report.html'] if save else []
                if not set(os.listdir(d)) <= set(want): return job, f'show={show} save_report={save}: files {os.listdir(d)} (allowed: {want})'
                for f in os.listdir(d): os.remove(os.path.join(d, f))
            r3, exc, out = _fd_capture(lambda: bulkmod.make_readable_bulk([(sp_in, bg, large), ('#777', '#fff')], mode=mode, very_readable=very, save_report=True))
            if exc: return job, f'bulk save_report raised {exc!r}'
            if r3 != bulk: return job, f'bulk with save_report returned {r3!r}, plain {bulk!r}'
            if not set(os.listdir(d)) <= {'cm_colors_bulk_report.html'}: return job, f'bulk save_report: files {os.listdir(d)}'
            # asked again in the same directory (a report of an earlier call exists): still only the documented files
            _fd_capture(lambda: bulkmod.make_readable_bulk([(sp_in, bg, large)], mode=mode, very_readable=very, save_report=True))
            _fd_capture(lambda: lib.ColorPair(sp_in, bg, large).make_readable(mode, very, save_report=True))
            _fd_capture(lambda: lib.ColorPair(sp_in, bg, large).make_readable(mode, very, save_report=True))
            if not set(os.listdir(d)) <= {'cm_colors_bulk_report.html', 'cm_colors_quick_report.html'}: return job, f'repeated save_report in one directory: files {sorted(os.listdir(d))}'
        finally:
            os.chdir(cwd)
    return job, None


def run(args):
    import multiprocessing as mp
    ck = Check('C17', args.tier, args.seed, 'proof')
    ck.explanation = EXPL
    prog = Program()
    # ---- engine C: frames of everything reachable from the Python API
    t0 = time.time()
    obls, sums, an = effects.check_all(prog, DECLARED)
    api = [o for o in obls if 'qual' in o and o['qual'].startswith('cm_colors.core.')]
    for o in api:
        ck.add_obligation('C', o['name'], 'discharged' if o['ok'] else ('unknown' if o['ok'] is None else 'failed'), 'effect-checker', (time.time() - t0) / max(1, len(api)), o['detail'])
        if o['ok'] is False:
            eff = [d for d in o['detail'] if any(k in d['effect'] for k in ('stdout', 'fs_', 'unknown_call'))]
            if eff: ck.violation(o['name'], 'C', {'offending': eff})
        ck.functions.append(o['qual'])
    for cname, mod, old, new in [('debug print in Color._parse', COL, '        if self._parsed:\n            return\n', '        if self._parsed:\n            return\n        print("parsing", self.original)\n'),
                                 ('warning on percent alpha', 'cm_colors.core.color_parser', '            # interpret as percent (e.g., "50" -> 50% -> 0.5)\n', '            import warnings\n            warnings.warn("alpha read as percent")\n'),
                                 ('report written by the bulk helper under another name', BK, 'output_path="cm_colors_bulk_report.html"', 'output_path=str(len(report_data)) + "_report.html"')]:
        mp_ = prog.mutate(mod, old, new)
        if mp_ is None: ck.notes.append(f"canary '{cname}': pattern no longer matches - skipped"); continue
        o2, _, _ = effects.check_all(mp_, DECLARED)
        killed = [o['name'] for o in o2 if o['ok'] is False]
        if 'another name' in cname:      # file NAME is judged by engine A/E, not by the frame: expected to survive C
            continue
        ck.self_test(f'canary {cname}', bool(killed), f'killed by {killed[0]}' if killed else 'mutant still passes the frame check')
    # ---- engine A: guard, result invariance, preview arguments
    canaries = [
        C('print outside the show/save_report guard', '        tuned_rgb_str, success = result\n', '        tuned_rgb_str, success = result\n        print(tuned_rgb_str)\n', 'ColorPair.make_readable', 'effects_only_if', mod=COL),
        C('preview re-derives the returned flag', '            tuned_rgb, success = result\n', '            tuned_rgb, success = result\n            result = (tuned_rgb, new_level != "FAIL")\n', 'ColorPair.make_readable', 'wraps_caf', mod=COL),
        C('preview gets the raw formatted colour instead of hex', '                        if c.is_valid:\n                            tuned_hex = c.to_hex()', '                        if False:\n                            tuned_hex = c.to_hex()', 'ColorPair.make_readable', 'call[to_console]/pre', mod=COL),
    ]
    run_A(ck, [f'{COL}:ColorPair.make_readable'], canaries, prog)
    # ---- engine E
    from oracles import spellings as spx
    rng = random.Random(args.seed + 17)
    gen = rtc.pair_stream(rng)
    jobs = []
    npairs = 10 if args.tier == 'quick' else 150
    for i in range(npairs):
        t, b = next(gen)
        sps = spx.opaque_spellings(t) + [(f'rgba({t[0]}, {t[1]}, {t[2]}, 0.6)', 'hex'), ((t[0], t[1], t[2], 0.4), 'hex'), ('not a colour', None),
               (f'rgba({t[0]}, {t[1]}, {t[2]}, 40)', 'hex'), ((t[0], t[1], t[2], 60), 'hex'), (f'rgba({t[0]}, {t[1]}, {t[2]}, 50%)', 'hex')]
        for k, (sp, kind) in enumerate(sps):
            if (i + k) % 3 == 0 or args.tier == 'thorough': jobs.append((sp, b, bool(i & 1), (i + k) % 3, bool((i + k) & 2)))
    with mp.get_context('fork').Pool(16) as pool:
        res = pool.map(_e_case, jobs, chunksize=2)
    bad = [(j, b) for j, b in res if b]
    ck.bounded.append({'engine': 'E', 'what': 'real calls with fd-level capture of stdout/stderr and directory listing: plain calls silent and file-free; show/save_report: same result, no exception, only the documented report file', 'evaluations': len(jobs) * 5, 'seed': args.seed,
                       'bound': f'{npairs} pairs x spellings (incl. translucent, hsl, invalid) x settings round-robin'})
    ck.add_obligation('E', 'API calls: output / files / result invariance (bounded)', 'failed' if bad else 'discharged', 'enumeration(bounded)')
    ck.evaluations += len(jobs) * 5
    if bad:
        j, b = bad[0]
        w = {'call': 'ColorPair(text,bg,large).make_readable(mode, very, show, save_report) / make_readable_bulk', 'text': j[0], 'bg': j[1], 'large': j[2], 'mode': j[3], 'very_readable': j[4], 'observed': b}
        if ck.violations:
            for v in ck.violations: v['witness'] = v.get('witness') or w
        else: ck.violation('API calls: output / files / result invariance', 'E', {'detail': b}, w)
    ck.assume("rich.Style / Console accept '#rrggbb' colours and print without raising; html.escape and the report write succeed in a writable working directory",
              'the report file NAME is a string literal at the two call sites (engine A sees the literal; engine E lists the directory)')
    ck.trust('the effect tables of vf/effects.py', 'os-level fd redirection captures everything the process writes to fds 1 and 2')
    return ck.finish()


def replay(args):
    r = json.load(open(args.replay)); w = r.get('concrete_input') or {}
    if 'text' in w:
        t = w['text']; t = tuple(t) if isinstance(t, list) and r.get('extra', {}).get('tuple') else t
        j, b = _e_case((t, tuple(w['bg']), w['large'], w['mode'], w['very_readable'])); print('replay', j, '->', b)
        if b: print(f'VIOLATION property=C17 replay={args.replay}'); return 1
        return 0
    print('no concrete input: re-running'); return run(args)
