import json, random, re, time, os
from .common import *
from . import cli_harness as H
from vf import rtc
from vf.program import Program

CLI = 'cm_colors.cli.main'
EXPL = ("C18: (C, structure - proved on the real ASTs) get_css_files yields, in the directory branch, only paths guarded by `not p.name.endswith('_cm.css')`; in main every statement of the per-file loop lies inside "
        "one try whose handler catches Exception and neither re-raises, breaks nor returns (so an undecodable / unreadable / unserialisable file cannot stop the run); the per-file state (rules, variables, "
        "rule_declarations_map) is (re)bound inside the loop before use and no module-level state exists (C15), so what is written for a file depends only on that file's content and the options. "
        "(E, BOUNDED) byte-identity on real directory trees is checked by running the real command on generated trees (<= 6 stylesheets, every fault kind of the statement at every position: non-UTF-8 "
        "bytes, a directory and a dangling symlink named *.css, an unserialisable sheet, an empty file, an orphan *_cm.css, custom properties defined in other files) twice in a row and comparing every "
        "_cm.css with the single-file run.")


def structure(prog):
    import ast
    out = []
    try:
        fn, m = prog.func(f'{CLI}:get_css_files')
        ys = [n for n in ast.walk(fn) if isinstance(n, ast.Yield)]
        parents = {}
        for n in ast.walk(fn):
            for c in ast.iter_child_nodes(n): parents[c] = n
        def guards(node):
            g = []; c = node
            while c in parents:
                p = parents[c]
                if isinstance(p, ast.If) and any(c is x or c in ast.walk(x) for x in p.body): g.append(ast.unparse(p.test))
                c = p
            return g
        dir_yields = [y for y in ys if any('is_dir' in g for g in guards(y))]
        ok = bool(dir_yields) and all(any(re.fullmatch(r"not \w+\.name\.endswith\('_cm\.css'\)", g) for g in guards(y)) for y in dir_yields)
        out.append(("get_css_files/directory_branch[every yielded path is guarded by not p.name.endswith('_cm.css')]", ok, [guards(y) for y in ys]))
        it = [ast.unparse(n.iter) for n in ast.walk(fn) if isinstance(n, ast.For)]
        out.append(("get_css_files/traversal[path.rglob('*.css')]", it == ["path.rglob('*.css')"], it))
    except KeyError as e:
        out.append(('get_css_files/structure', None, str(e)))
    try:
        from . import cli_struct as CS
        fn, m = prog.func(f'{CLI}:main')
        loops = CS.files_loop(fn)
        N1 = 'main/per_file_loop[whole body inside try/except Exception; handler does not re-raise, break or return]'
        N2 = 'main/per_file_state[everything handed to the per-rule processing is an option of main, the file itself, the report accumulator, or (re)bound earlier in the same iteration]'
        N3 = 'main/no_cross_file_state[the only function-level names the loop body reads are the options and the report accumulator]'
        if len(loops) != 1:
            out.append((N1, None, f'{len(loops)} loops over the stylesheet list'))
        else:
            lp = loops[0]
            body = [st for st in lp.body if not (isinstance(st, ast.Expr) and isinstance(st.value, ast.Constant))]
            if len(body) == 1 and isinstance(body[0], ast.Try):
                tr = body[0]
                hs = tr.handlers
                catches = [ast.unparse(h.type) if h.type is not None else 'BaseException' for h in hs]
                escapes = [type(x).__name__ for h in hs for st in h.body for x in ast.walk(st) if isinstance(x, (ast.Raise, ast.Break, ast.Return))]
                detail = {'catches': catches, 'escapes': escapes, 'finally': bool(tr.finalbody)}
                ok = ('Exception' in catches or 'BaseException' in catches) and not escapes and not any(isinstance(x, (ast.Break,)) for st in tr.body for x in ast.walk(st) if not isinstance(st, (ast.For, ast.While)))
                out.append((N1, ok, detail))
            else:
                out.append((N1, False, 'loop body is not a single try statement'))
            call, acc = CS.processing_call_args(fn, lp)
            params = {a.arg for a in fn.args.args}
            loop_targets = {x.id for x in ast.walk(lp.target) if isinstance(x, ast.Name)}
            bound_in_loop = {}
            for x in ast.walk(lp):
                if isinstance(x, ast.Assign):
                    for t in x.targets:
                        for y in ast.walk(t):
                            if isinstance(y, ast.Name) and isinstance(y.ctx, ast.Store): bound_in_loop.setdefault(y.id, x.lineno); bound_in_loop[y.id] = min(bound_in_loop[y.id], x.lineno)
                elif isinstance(x, ast.With):
                    for it in x.items:
                        if isinstance(it.optional_vars, ast.Name): bound_in_loop.setdefault(it.optional_vars.id, x.lineno)
                elif isinstance(x, ast.ExceptHandler) and x.name: bound_in_loop.setdefault(x.name, x.lineno)
                elif isinstance(x, (ast.For, ast.comprehension)):
                    for y in ast.walk(x.target):
                        if isinstance(y, ast.Name): bound_in_loop.setdefault(y.id, getattr(x, 'lineno', lp.lineno))
            if call is None:
                out.append((N2, None, 'no single process_nodes_recursive call inside the loop'))
            else:
                argn = [a.id for a in list(call.args) + [k.value for k in call.keywords] if isinstance(a, ast.Name)]
                bad = [n for n in argn if not (n in params or n in loop_targets or n == acc or (n in bound_in_loop and bound_in_loop[n] < call.lineno))]
                out.append((N2, not bad and acc is not None, {'arguments': argn, 'accumulator': acc, 'not_rebound_per_file': bad}))
            used = {x.id for st in lp.body for x in ast.walk(st) if isinstance(x, ast.Name) and isinstance(x.ctx, ast.Load)}
            inner = set(bound_in_loop) | loop_targets
            inside = set(id(x) for x in ast.walk(lp))
            outer = {t.id for x in ast.walk(fn) if isinstance(x, ast.Assign) and id(x) not in inside for t in x.targets if isinstance(t, ast.Name)}
            shared = sorted((used & outer) - inner - params - ({acc} if acc else set()))
            out.append((N3, not shared, shared))
    except KeyError as e:
        out.append(('main/per_file_loop', None, str(e)))
    out.append(output_name_lemma(prog))
    return out


def output_name_lemma(prog):
    """the name main() writes is never taken as an input by a later directory run: resolve the expression opened for writing
    to a concatenation of <input>.stem / <input>.suffix / string literals (single-assignment dataflow on the real AST, name-independent),
    then z3 strings: for every input name yielded by get_css_files (suffix == '.css', or the dot-file '.css' whose suffix is empty)
    the written name ends with '_cm.css' or does not end with '.css'.  A counter-model is a concrete file name (replayed by the twin)."""
    import z3
    from . import cli_struct as CS
    name = "main/output_name_filtered[the file written for x.css is skipped by get_css_files: ends with '_cm.css' or not '.css'] (dataflow + z3 strings)"
    build, det = CS.written_name(prog)
    if build is None: return (name, None, det)
    if build == 'INPUT': return (name, False, det)
    stem, suf = z3.String('stem'), z3.String('suffix')
    try: t = build(z3, stem, suf)
    except ValueError as e: return (name, None, f'written name contains {e} (not stem / suffix / literal)')
    for case, sub in (("suffix=='.css'", [(suf, z3.StringVal('.css'))]), ("dot-file '.css'", [(suf, z3.StringVal('')), (stem, z3.StringVal('.css'))])):
        tc = z3.simplify(z3.substitute(t, *sub))
        so = z3.Solver(); so.set('timeout', 20000)
        so.add(z3.Length(stem) >= 1, z3.Not(z3.Contains(stem, z3.StringVal('/'))))
        so.add(z3.SuffixOf(z3.StringVal('.css'), tc), z3.Not(z3.SuffixOf(z3.StringVal('_cm.css'), tc)))
        r = so.check()
        if r == z3.sat:
            mdl = so.model()
            st_ = '.css' if case.startswith('dot') else mdl.eval(stem, True).as_string()
            return (name, False, dict(det, case=case, counterexample_input_name=st_ + ('' if case.startswith('dot') else '.css')))
        if r != z3.unsat: return (name, None, f'z3 ({case}): {so.reason_unknown()}')
    return (name, True, det)


GOOD = ['.a { color: #888; background-color: #fff }\n', ':root { --m: #8a8a8a }\n.b { color: var(--m) }\n@media print { .c { color: #999 } }\n', '/* only a comment */\n.d { margin: 0 }\n',
        '.e { color: var(--m); background-color: #fff }\n.f { background-color: var(--m, #fff); color: #777 }\n', 'html { --m: #222 }\n.g { color: #8b8b8b; background-color: var(--m) }\n', '.h { color: black }\n']


def gen_tree(rng, idx):
    files = {}
    n = rng.randrange(2, 6)
    names = []
    for i in range(n):
        d = rng.choice(['', 'sub/', 'sub/deep/', 'z/'])
        nm = f'{d}f{idx}_{i}' + rng.choice(['', '', '.min', '.v1.2', '_cm.min', '.css']) + '.css'; names.append(nm)
        files[nm] = rng.choice(GOOD)
    faults = rng.sample(['nonutf8', 'dir', 'dangling', 'unserialisable', 'empty', 'orphan_cm', 'vars_elsewhere', 'unreadable'], rng.randrange(1, 4))
    for f in faults:
        d = rng.choice(['', 'sub/', 'a/'])
        if f == 'nonutf8': files[d + 'bad_bytes.css'] = b'.x { color: #888 } \xff\xfe\xfa'
        elif f == 'dir': files[d + 'looks_like.css'] = ('dir',)
        elif f == 'dangling': files[d + 'dangling.css'] = ('symlink', 'nowhere/none.css')
        elif f == 'unserialisable': files[d + 'hack.css'] = '.v { *zoom: 1; color: #888; background-color: #fff }\n'
        elif f == 'empty': files[d + 'empty.css'] = ''
        elif f == 'orphan_cm': files[d + 'orphan_cm.css'] = '.o { color: #888; background-color: #fff }\n'
        elif f == 'vars_elsewhere': files[d + 'aaa_vars.css'] = ':root { --m: #000; --undefined-elsewhere: #fff }\n'; files[d + 'zzz_vars.css'] = 'html { --m: #fff }\n'
        elif f == 'unreadable': files[d + 'noperm.css'] = '.n { color: #888 }\n'
    return files, faults


def tree_case(job):
    files, faults, opts = job
    probs = []
    r1 = H.run_cli(files, '.', opts)
    if r1['exit'] != 0 or r1['exc']: probs.append(f"directory run exit={r1['exit']} exception={r1['exc']}")
    after1 = r1['after']
    good = [n for n, c in files.items() if isinstance(c, str) and not n.endswith('_cm.css')]
    for n in good:
        single = H.run_cli({os.path.basename(n): files[n]}, os.path.basename(n), opts)
        want = single['after'].get(os.path.basename(n)[:-4] + '_cm.css')
        got = after1.get(n[:-4] + '_cm.css')
        if got != want:
            probs.append(f'{n}: output in the directory run differs from the single-file run ({"missing" if got is None else "different bytes"}; single-file run wrote {"nothing" if want is None else "a file"})')
    for n, c in files.items():
        if n.endswith('_cm.css') and (n[:-4] + '_cm.css') in after1: probs.append(f'{n} (an output-named file) was taken as input: {n[:-4]}_cm.css written')
        if after1.get(n) != r1['before'].get(n): probs.append(f'input {n} modified')
    # second run over the resulting tree reproduces the same outputs
    tree2 = {}
    for n, c in after1.items():
        if n == 'cm_colors_report.html': continue
        tree2[n] = c if isinstance(c, (bytes, tuple)) else c
    for n, c in files.items():
        if isinstance(c, tuple) and c[0] == 'dir': tree2[n] = c
    r2 = H.run_cli(tree2, '.', opts)
    a2 = {k: v for k, v in r2['after'].items() if k != 'cm_colors_report.html'}
    a1 = {k: v for k, v in after1.items() if k != 'cm_colors_report.html'}
    if a2 != a1:
        d = sorted(set(a2) ^ set(a1)) or [k for k in a1 if a1[k] != a2.get(k)]
        probs.append(f'repeating the run changed the tree: {d[:4]}')
    nbad = sum(1 for f in faults if f in ('nonutf8', 'dir', 'dangling', 'unserialisable'))
    return {'files': {k: (v if isinstance(v, (str, tuple)) else repr(v)) for k, v in files.items()}, 'faults': faults, 'opts': list(opts), 'problems': probs, 'stderr_lines': r1['err'].count('Error processing')}


def run(args):
    import multiprocessing as mp
    ck = Check('C18', args.tier, args.seed, 'other')
    ck.explanation = EXPL
    prog = Program()
    res = structure(prog)
    for name, ok, detail in res:
        ck.add_obligation('C', name, 'discharged' if ok else ('unknown' if ok is None else 'failed'), 'ast-structure', 0.0, detail)
        if ok is False: ck.violation(name, 'C', {'found': detail})
        elif ok is None: ck.undecide(name, str(detail))
    ck.functions += [f'{CLI}:get_css_files', f'{CLI}:main']
    for cname, old, new in [
        ('variables hoisted out of the per-file loop', ['            variables = {}\n            # We need a way', '    for file_path in files:\n        try:'], ['            # We need a way', '    variables = {}\n    for file_path in files:\n        try:']),
        ('_cm.css filter dropped', '            if not p.name.endswith("_cm.css"):\n                yield p', '            if True:\n                yield p'),
        ('handler re-raises', '            click.echo(f"Error processing {file_path}: {e}", err=True)', '            click.echo(f"Error processing {file_path}: {e}", err=True)\n            raise'),
        ('output named <stem>_cm.min.css', 'output_filename = file_path.stem + "_cm" + file_path.suffix', 'output_filename = file_path.stem + "_cm.min" + file_path.suffix'),
        ('only decode errors are caught', '        except Exception as e:\n            click.echo(f"Error processing', '        except UnicodeDecodeError as e:\n            click.echo(f"Error processing'),
    ]:
        ov = mutate(prog, CLI, old, new)
        if ov is None: ck.notes.append(f"canary '{cname}': pattern no longer matches - skipped"); continue
        killed = [n for n, ok, d in structure(Program(overrides=ov)) if ok is False]
        ck.self_test(f'canary {cname}', bool(killed), f'killed by {killed[0]}' if killed else 'mutant still passes')
    rng = random.Random(args.seed + 18)
    ntrees = 24 if args.tier == 'quick' else 600
    jobs = []
    for i in range(ntrees):
        files, faults = gen_tree(random.Random(20261018 + i) if i < ntrees // 2 else rng, i)
        jobs.append((files, faults, H.SETTINGS[i % len(H.SETTINGS)]))
    t0 = time.time()
    with mp.get_context('fork').Pool(16) as pool:
        out = pool.map(tree_case, jobs, chunksize=1)
    ck.evaluations = sum(len(r['files']) for r in out); ck.distinct = len(out)
    ck.rule = 'one case = one generated directory tree run twice through the real command and file-by-file alone; counted in files; distinct = trees'
    ck.bounded.append({'engine': 'E', 'trees': len(out), 'files': ck.evaluations, 'seed': args.seed, 'wall_s': round(time.time() - t0, 1), 'fault_kinds': ['nonutf8', 'dir', 'dangling', 'unserialisable', 'empty', 'orphan_cm', 'vars_elsewhere', 'unreadable(not enforced as root)']})
    ck.sample({'tree': out[0]['files'], 'faults': out[0]['faults'], 'options': out[0]['opts'], 'problems': out[0]['problems']})
    bad = [r for r in out if r['problems']]
    ck.add_obligation('E', f'cm-colors on {len(out)} generated directory trees: per-file isolation, bad files skipped, outputs not re-consumed, idempotent re-run (bounded)', 'failed' if bad else 'discharged', 'enumeration(bounded)')
    groups = {}
    for r in bad:
        for p in r['problems']:
            k = 'differs-from-single-file' if 'differs from the single-file' in p else ('output-reconsumed' if 'taken as input' in p else ('rerun-changes-tree' if 'repeating' in p else ('run-aborted' if 'directory run exit' in p else 'input-modified')))
            groups.setdefault(k, []).append((r, p))
    for k, items in sorted(groups.items()):
        r, p = items[0]
        w = {'call': 'cm-colors . ' + ' '.join(r['opts']), 'tree': r['files'], 'options': r['opts'], 'observed': p}
        hit = [v for v in ck.violations if v['engine'] == 'C' and v.get('witness') is None]
        ck.violation(f'cm-colors(directory)/{k}', 'E', {'cases': len(items), 'first_message': p}, w, {'witness_key': k})
        for v in hit: v['witness'] = w
    ck.assume('BOUNDED for byte-identity on real trees; the structural clauses are proved on the AST', 'file-system and click behaviour are external', 'unreadable files cannot be produced when the check runs as root (fault kind listed, not enforced)')
    ck.trust('click.testing.CliRunner', 'tinycss2')
    return ck.finish()


def replay(args):
    r = json.load(open(args.replay)); w = r.get('concrete_input') or {}
    if 'tree' in w:
        files = {k: (tuple(v) if isinstance(v, list) else (eval(v) if isinstance(v, str) and v.startswith("b'") else v)) for k, v in w['tree'].items()}
        out = tree_case((files, [], tuple(w['options'])))
        print('replay problems:', out['problems'])
        if out['problems']: print(f'VIOLATION property=C18 replay={args.replay}'); return 1
        return 0
    return run(args)
