import json, os, random, tempfile, time, itertools, html as _html
from html.parser import HTMLParser
from .common import *
from vf import htmlprov, rtc
from vf.program import Program

VI = 'cm_colors.core.visualiser'
REP = 'cm_colors.cli.html_report'
BK = 'cm_colors.core.cm_colors'
EXPL = ("C19 is decided on the real ASTs of generate_report, to_html and to_html_bulk by string provenance: every hole of every f-string that reaches a report is, by dataflow inside the "
        "function, html.escape(...) (quote not disabled) of the value, a composite of such, the HTML returned by to_html (which carries the same obligation), a constant, or a level badge; "
        "every hole sits in element text (outside style/script/comment) or in a DOUBLE-quoted attribute value, the two contexts escaped text cannot leave; composites placed in attributes "
        "contain no quote characters. The badge pass-through branch is closed by obligations at the call sites that build report data: the level arguments are get_wcag_level results / None / "
        "'FAIL' (and get_wcag_level returns one of three constants: check C05). html.escape's contract (rewrites & < > \" ') is assumed for the stdlib and checked exhaustively on all strings of "
        "length <= 4 over a metacharacter alphabet (engine D). Engine E (bounded twin): markup-bearing strings in every user-controlled slot of both generators, reports parsed with html.parser, "
        "element/attribute structure compared with the benign run and the text required to appear verbatim.")


def prov_obligations(prog):
    out = []
    specs = [(f'{VI}:to_html', ()), (f'{VI}:to_html_bulk', ('to_html',)), (f'{REP}:generate_report', ())]
    for qual, safe in specs:
        try:
            p = htmlprov.Prov(prog, qual, safe_html_funcs=safe).run()
        except KeyError as e:
            out.append((f'{qual}/provenance', None, {'undecided': str(e)})); continue
        out.append((f'{qual.split(":")[1]}/provenance[every hole is html.escape(...)/safe composite/constant/badge]', not p.problems, {'holes': len(p.holes), 'problems': p.problems[:4]}))
        cp, n = htmlprov.check_contexts(p.fn)
        out.append((f'{qual.split(":")[1]}/context[holes only in element text or double-quoted attribute values]', not cp, {'holes_located': n, 'problems': cp[:4]}))
    # level arguments at the sites that build report data
    import ast
    for qual, keys in ((f'{COL}:ColorPair.make_readable', ('original_level', 'new_level')), (f'{BK}:make_readable_bulk', ('original_level', 'new_level'))):
        try: fn, m = prog.func(qual)
        except KeyError as e:
            out.append((f'{qual}/levels', None, {'undecided': str(e)})); continue
        bad = []
        assigns = {}
        for n in ast.walk(fn):
            if isinstance(n, ast.Assign) and len(n.targets) == 1 and isinstance(n.targets[0], ast.Name): assigns.setdefault(n.targets[0].id, []).append(n.value)
        def level_ok(e, depth=0):
            if isinstance(e, ast.Constant): return e.value in (None, 'FAIL', 'AA', 'AAA')
            if isinstance(e, ast.Call): return ast.unparse(e.func) == 'get_wcag_level'
            if isinstance(e, ast.Name) and depth < 4: return e.id in assigns and all(level_ok(v, depth + 1) for v in assigns[e.id])
            return False
        found = 0
        for n in ast.walk(fn):
            if isinstance(n, ast.Dict):
                for k, v in zip(n.keys, n.values):
                    if isinstance(k, ast.Constant) and k.value in keys:
                        found += 1
                        if not level_ok(v): bad.append({'key': k.value, 'value': ast.unparse(v), 'line': v.lineno})
        out.append((f'{qual.split(":")[1]}/report_levels[level fields are get_wcag_level results, None or a level constant]', found > 0 and not bad, {'fields': found, 'problems': bad}))
    return out


class Shape(HTMLParser):
    def __init__(self):
        super().__init__(convert_charrefs=True); self.tags = []; self.text = []
    def handle_starttag(self, tag, attrs): self.tags.append((tag, tuple(sorted(a for a, _ in attrs))))
    def handle_data(self, d): self.text.append(d)


def shape_of(doc):
    s = Shape(); s.feed(doc); s.close(); return s.tags, ''.join(s.text)


PAYLOADS = ['<script>alert(1)</script>', '"><img src=x onerror=alert(1)>', "' onmouseover='x", '</div><b>x</b>', '&amp;<i>', '`${x}`', 'a" style="color:red', '</style><p>', '--><h1>',
            '&lt;b&gt;', '&#39;&quot;', 'x\\"y', '<!--', 'onerror=alert(1)', '</title>']


def _e_reports(seed, tier):
    """both generators on the real code with payloads in every user slot"""
    lib = rtc.load_lib()
    import importlib
    vis = importlib.import_module(VI); rep = importlib.import_module(REP)
    rng = random.Random(seed + 19)
    bad = None; n = 0
    with tempfile.TemporaryDirectory() as d:
        def gen_cli(sel, file, bg, orig, tuned):
            p = os.path.join(d, 'r1.html')
            rep.generate_report([{'file': file, 'selector': sel, 'bg': bg, 'original_text': orig, 'tuned_text': tuned, 'original_level': 'FAIL', 'new_level': 'AA'}], output_path=p)
            return open(p, encoding='utf-8').read()
        def gen_api(sel, file, bg, fg, tuned):
            p = os.path.join(d, 'r2.html')
            vis.to_html_bulk([{'fg': fg, 'bg': bg, 'tuned_fg': tuned, 'original_level': 'FAIL', 'new_level': 'AA', 'selector': sel, 'file': file}], output_path=p)
            return open(p, encoding='utf-8').read()
        for name, gen in (('generate_report', gen_cli), ('to_html_bulk', gen_api)):
            benign = ['sel', 'file.css', 'white', '#777777', '#767676']
            base_tags, base_text = shape_of(gen(*benign))
            slots = ['selector', 'file', 'bg', 'original/fg', 'tuned']
            plist = PAYLOADS if tier == 'thorough' else PAYLOADS[:9]
            for si in range(5):
                for pl in plist:
                    args = list(benign); args[si] = pl; n += 1
                    tags, text = shape_of(gen(*args))
                    if tags != base_tags: bad = bad or {'generator': name, 'slot': slots[si], 'payload': pl, 'observed': 'element/attribute structure changed', 'extra_or_missing': str([t for t in tags if t not in base_tags][:3])}
                    elif benign[si] in base_text and pl not in text: bad = bad or {'generator': name, 'slot': slots[si], 'payload': pl, 'observed': 'text not displayed verbatim'}
            for _ in range(20 if tier == 'quick' else 300):
                args = [''.join(rng.choice(['<', '>', '&', '"', "'", '`', 'script', 'style=', 'onerror=', '</div>', ' ', 'a', '/', '=']) for _ in range(rng.randrange(1, 8))) for _ in range(5)]
                n += 1
                tags, text = shape_of(gen(*args))
                if tags != base_tags: bad = bad or {'generator': name, 'slot': 'all', 'payload': args, 'observed': 'element/attribute structure changed'}
    return bad, n


def run(args):
    ck = Check('C19', args.tier, args.seed, 'proof')
    ck.explanation = EXPL
    prog = Program()
    t0 = time.time()
    res = prov_obligations(prog)
    for name, ok, detail in res:
        ck.add_obligation('C', name, 'discharged' if ok else ('unknown' if ok is None else 'failed'), 'provenance-analysis', (time.time() - t0) / len(res), detail)
        if ok is False: ck.violation(name, 'C', detail)
        elif ok is None: ck.undecide(name, str(detail))
    ck.sample({'engine': 'C', 'obligation': res[0][0], 'detail': res[0][2]})
    ck.functions += [f'{VI}:to_html', f'{VI}:to_html_bulk', f'{VI}:_get_level_badge', f'{REP}:generate_report', f'{COL}:ColorPair.make_readable', f'{BK}:make_readable_bulk']
    for cname, mod, old, new in [
        ('escape removed from the selector (API report)', VI, '{html.escape(str(selector))}', '{str(selector)}'),
        ('quote=False on the colour strings', VI, '    bg = html.escape(str(bg))', '    bg = html.escape(str(bg), quote=False)'),
        ('CLI: tuned colour not escaped', REP, 'tuned_text = html.escape(str(pair["tuned_text"]))', 'tuned_text = str(pair["tuned_text"])'),
        ('hole moved into a single-quoted attribute', VI, '<div class="selector">{html.escape(str(selector))}</div>', "<div class='selector' title='{html.escape(str(selector))}'>x</div>"),
        ('report data carries a raw level', COL, '"original_level": original_level,', '"original_level": str(self.text.original),'),
    ]:
        mp_ = prog.mutate(mod, old, new)
        if mp_ is None: ck.notes.append(f"canary '{cname}': pattern no longer matches - skipped"); continue
        killed = [n for n, ok, d in prov_obligations(mp_) if ok is False]
        ck.self_test(f'canary {cname}', bool(killed), f'killed by {killed[0]}' if killed else 'mutant still passes')
    # ---- engine D: html.escape contract on all short strings over a metacharacter alphabet
    alpha = ['<', '>', '&', '"', "'", '`', 'a', '=', '/', ' ']
    n = 0; esc_bad = None
    for L in range(0, 5 if args.tier == 'thorough' else 4):
        for tup in itertools.product(alpha, repeat=L):
            s = ''.join(tup); e = _html.escape(s, quote=True); n += 1
            stripped = e.replace('&amp;', '').replace('&lt;', '').replace('&gt;', '').replace('&quot;', '').replace('&#x27;', '')
            if any(c in stripped for c in '<>"\'&') or _html.unescape(e) != s: esc_bad = esc_bad or {'input': s, 'escaped': e}
    ck.exhaustive.append({'engine': 'D', 'what': 'html.escape(s, quote=True): no < > " \' and & only as entity start; unescape is its inverse', 'domain': f'all strings of length <= {4 if args.tier == "thorough" else 3} over {alpha}', 'evaluations': n, 'exhaustive': True})
    ck.add_obligation('D', 'html.escape/contract[short strings over the metacharacter alphabet]', 'failed' if esc_bad else 'discharged', 'exhaustive')
    if esc_bad: ck.violation('html.escape/contract', 'D', esc_bad, esc_bad)
    # ---- engine E
    bad, ne = _e_reports(args.seed, args.tier)
    ck.bounded.append({'engine': 'E', 'what': 'markup-bearing strings in every user-controlled slot of generate_report and to_html_bulk; parsed structure equals the benign run, text verbatim', 'evaluations': ne, 'seed': args.seed, 'bound': 'fixed payload list x 5 slots x 2 generators + seeded random strings'})
    ck.add_obligation('E', 'reports: structure preserved under markup payloads (bounded)', 'failed' if bad else 'discharged', 'enumeration(bounded)')
    ck.evaluations += n + ne
    if bad:
        if ck.violations:
            for v in ck.violations: v['witness'] = v.get('witness') or bad
        else: ck.violation('reports: structure preserved under markup payloads', 'E', bad, bad)
    ck.assume("html.escape behaves as documented for all strings (checked exhaustively only up to the stated length)",
              'CSS-level injection inside a style="..." value (no new elements or attributes result) is outside the statement',
              'the provenance analysis is intraprocedural single-assignment dataflow: a name bound on several paths keeps the weaker class')
    ck.trust('stdlib html.parser as the structure oracle of the bounded twin')
    return ck.finish()


def replay(args):
    bad, n = _e_reports(0, 'thorough')
    res = [n_ for n_, ok, d in prov_obligations(Program()) if ok is False]
    print('replay: provenance obligations failing:', res[:4], '; dynamic:', bad)
    if bad or res:
        print(f'VIOLATION property=C19 replay={args.replay}' + ('' if bad else ' no-failing-input-found')); return 1
    return 0
