"""Engine-E harness for the cm-colors command (C08 / C09 / C18): runs the REAL click command in a temp directory on
generated stylesheets and judges the outcome with oracles of its own (tinycss2's tokenizer as trusted CSS reader, the
reference colour parser and WCAG oracle of /verif/oracles, an own custom-property resolver)."""
from __future__ import annotations
import os, re, sys, json, random, tempfile, hashlib, itertools
from html.parser import HTMLParser

from vf import rtc


# ------------------------------------------------------------------------------------------------ running the tool
def run_cli(files, target, opts=(), cwd_name='work'):
    """files: {relative path: str|bytes|('symlink', dest)|('dir',)}.  Runs `cm-colors <target> <opts>` with cwd = a fresh
    directory `cwd_name` next to nothing else.  Returns dict(exit, out, err, exc, before, after) with file snapshots."""
    rtc.load_lib()
    from click.testing import CliRunner
    import importlib
    main = importlib.import_module('cm_colors.cli.main').main
    old = os.getcwd()
    with tempfile.TemporaryDirectory() as top:
        d = os.path.join(top, cwd_name); os.makedirs(d)
        for rel, content in files.items():
            p = os.path.join(d, rel); os.makedirs(os.path.dirname(p), exist_ok=True)
            if isinstance(content, tuple) and content[0] == 'symlink': os.symlink(content[1], p)
            elif isinstance(content, tuple) and content[0] == 'dir': os.makedirs(p, exist_ok=True)
            elif isinstance(content, bytes): open(p, 'wb').write(content)
            else: open(p, 'w', encoding='utf-8', newline='').write(content)
        before = snapshot(d)
        os.chdir(d)
        try:
            try: runner = CliRunner(mix_stderr=False)
            except TypeError: runner = CliRunner()
            res = runner.invoke(main, [target] + list(opts), catch_exceptions=True)
            err = ''
            try: err = res.stderr
            except Exception: pass
            out = res.stdout if hasattr(res, 'stdout') else res.output
        finally:
            os.chdir(old)
        after = snapshot(d)
        return {'exit': res.exit_code, 'out': out, 'err': err, 'exc': repr(res.exception) if res.exception and not isinstance(res.exception, SystemExit) else None, 'before': before, 'after': after}


def snapshot(d):
    out = {}
    for dp, dn, fn in os.walk(d):
        for f in fn:
            p = os.path.join(dp, f); rel = os.path.relpath(p, d)
            if os.path.islink(p): out[rel] = ('symlink', os.readlink(p))
            else:
                try: out[rel] = open(p, 'rb').read()
                except OSError as e: out[rel] = ('unreadable', str(e))
        for x in dn:
            p = os.path.join(dp, x)
            if os.path.islink(p): out[os.path.relpath(p, d)] = ('symlink', os.readlink(p))
    return out


# ------------------------------------------------------------------------------------------------ reading stylesheets (oracle side)
def parse_sheet(text):
    import tinycss2
    return tinycss2.parse_stylesheet(text, skip_whitespace=True, skip_comments=True)


def walk_rules(rules, depth=0):
    """qualified rules in document order, descending into @media / @supports to any depth -> (selector, declarations, depth)"""
    import tinycss2
    from tinycss2.ast import QualifiedRule, AtRule
    for r in rules:
        if isinstance(r, QualifiedRule):
            decls = [d for d in tinycss2.parse_declaration_list(r.content, skip_whitespace=True, skip_comments=True) if d.type == 'declaration']
            bad = [d for d in tinycss2.parse_declaration_list(r.content, skip_whitespace=True, skip_comments=True) if d.type == 'error']
            yield tinycss2.serialize(r.prelude).strip(), decls, depth, bool(bad)
        elif isinstance(r, AtRule) and r.lower_at_keyword in ('media', 'supports') and r.content:
            yield from walk_rules(tinycss2.parse_rule_list(r.content, skip_whitespace=True, skip_comments=True), depth + 1)


def decl_value(d):
    import tinycss2
    return tinycss2.serialize(d.value).strip()


def custom_properties(text):
    """custom properties defined in top-level :root / html rules, by the CSS cascade: both selectors match the root element,
    `:root` (pseudo-class, specificity 0,1,0) outranks `html` (type selector, 0,0,1) whatever the source order; among
    definitions of equal specificity the later one wins; !important is not modelled (the corpus does not use it on custom properties)"""
    best = {}
    order = 0
    for sel, decls, depth, _ in walk_rules(parse_sheet(text)):
        if depth == 0 and sel in (':root', 'html'):
            spec = 10 if sel == ':root' else 1
            for d in decls:
                order += 1
                if d.name.startswith('--') and (d.name not in best or (spec, order) >= best[d.name][0]): best[d.name] = ((spec, order), decl_value(d))
    return {k: v[1] for k, v in best.items()}


_VAR = re.compile(r'^var\(\s*(--[\w-]+)\s*(?:,\s*(.*))?\)$', re.S)


def resolve(value, props, seen=()):
    """CSS semantics for a value that is exactly one var() reference (the only form the statement covers): the
    property's value if defined (recursively), else the fallback; None if neither"""
    v = value.strip()
    m = _VAR.match(v)
    if not m: return v if 'var(' not in v else None
    name, fb = m.group(1), m.group(2)
    if name in props and name not in seen:
        r = resolve(props[name], props, seen + (name,))
        if r is not None: return r
    if fb is not None: return resolve(fb, props, seen + (name,))
    return None


def rule_colours(decls, props, default_bg):
    """(raw text, raw bg, resolved text, resolved bg) of a rule: last `color`, last `background-color` else default"""
    col = [d for d in decls if d.lower_name == 'color']
    if not col: return None
    bg = [d for d in decls if d.lower_name == 'background-color']
    raw_t = decl_value(col[-1]); raw_b = decl_value(bg[-1]) if bg else default_bg
    return raw_t, raw_b, resolve(raw_t, props), resolve(raw_b, props)


def css_rgb(value):
    """opaque CSS colour value -> 8-bit triple (reference parser; translucent values are not opaque)"""
    from oracles import css3
    if value is None: return None
    r = css3.parse(value, allow_bare_hex=False)
    if r is None or r[1] != 1: return None
    return tuple(min(css3.nearest8(x)) for x in r[0])


class ReportCards(HTMLParser):
    """cards of the CLI report: selector, file, before / after colour codes"""
    def __init__(self):
        super().__init__(convert_charrefs=True); self.cards = []; self.cur = None; self.cls = None
    def handle_starttag(self, tag, attrs):
        c = dict(attrs).get('class', '')
        if c == 'card': self.cur = {'codes': []}; self.cards.append(self.cur)
        self.cls = c
    def handle_data(self, d):
        if self.cur is None or not d.strip(): return
        if self.cls == 'selector': self.cur['selector'] = self.cur.get('selector', '') + d
        elif self.cls == 'file-info': self.cur['file'] = self.cur.get('file', '') + d
        elif self.cls == 'color-code': self.cur['codes'].append(d.strip())
    def handle_endtag(self, tag): self.cls = None


def parse_report(html_text):
    p = ReportCards(); p.feed(html_text); p.close()
    return [{'selector': c.get('selector', '').strip(), 'file': c.get('file', '').strip(), 'before': c['codes'][0] if c['codes'] else None,
             'after': c['codes'][1] if len(c['codes']) > 1 else None} for c in p.cards if 'selector' in c]


def parse_stdout(out):
    g = lambda pat: int(m.group(1)) if (m := re.search(pat, out)) else 0
    listed = re.findall(r'^  (\S.*?) -> (.*)$', out, re.M)
    return {'accessible': g(r'(\d+) color pairs already readable'), 'tuned': g(r'(\d+) color pairs adjusted'), 'failed': g(r'(\d+) color pairs need your attention'), 'listed': listed}


# ------------------------------------------------------------------------------------------------ stylesheet corpus
FIXABLE = ['#888', '#8a8a8a', 'rgb(140, 140, 140)', 'hsl(0, 0%, 55%)', 'gray', '#7B7B7B', '#999999']        # on white: below 4.5, fixable
OK = ['#000', 'black', 'rgb(20, 20, 20)', '#333333', 'hsl(240, 100%, 20%)', 'navy']
HARD = ['#ff0', 'yellow', '#fefefe']                                                                   # on white: not fixable in strict mode
LIGHT = ['#ccc', '#bbb', '#aaa', '#ddd', '#b0b0b0', '#9ac', 'silver']                                   # on white: far below AA; AAA out of reach in default mode while the attempt may cross AA
INVALID = ['notacolor', '12px', 'inherit', 'rgb(1,2)', 'currentcolor']
BGS = [None, '#fff', 'white', '#222', 'rgb(250, 250, 250)', '#f0f0f0']
CARRY = ['@charset "utf-8";', '@import url("a;b}.css");', '@font-face { font-family: "X{}"; src: url(x.woff) }', '@keyframes k { from { color: #888 } to { color: #999 } }',
         '@page { margin: 1cm }', '@unknown-thing foo { a: b }', '/* a } comment { with ; braces */', '.empty { }', '.vendor { *zoom: 1; _height: 1px; filter: alpha(opacity=50) }',
         '.str { content: "};/* not a comment */"; background: url("data:image/png;base64,AA}{;") }', '.esc\\:name { margin: 0 }', '.uni-é中 { font-family: "ü" }',
         '.imp { margin: 0 !important }']


def gen_sheets(seed, n):
    """deterministic corpus: each sheet is (name, css, features).  Features describe what the sheet contains so that a
    failure can be attributed to a trigger (and matched against a recorded known finding)."""
    rng = random.Random(seed)
    sheets = []
    def colour(kind):
        if kind == 'rand': return '#%02x%02x%02x' % (rng.randrange(256), rng.randrange(256), rng.randrange(256))
        return rng.choice({'fix': FIXABLE, 'ok': OK, 'hard': HARD, 'bad': INVALID, 'light': LIGHT}[kind])
    for idx in range(n):
        feats = set(); parts = []; root = []; redefs = []
        nrules = rng.randrange(1, 4)
        for j in range(nrules):
            kind = rng.choice(['fix', 'fix', 'ok', 'hard', 'bad', 'light', 'rand'])
            col = colour(kind); feats.add(f'colour:{kind}')
            bg = rng.choice(BGS)
            form = rng.choice(['literal', 'literal', 'literal', 'var', 'var-chain', 'var-fallback', 'var-undefined-fallback', 'var-undefined', 'var-shared', 'important', 'repeated', 'root-own', 'vendor-hack', 'var-redefined'])
            sel = f'.r{idx}_{j}'
            decls = []
            if form == 'literal': decls.append(f'color: {col}')
            elif form == 'important': decls.append(f'color: {col} !important'); feats.add('important')
            elif form == 'repeated': decls += [f'color: {colour("ok")}', f'color: {col}']; feats.add('repeated-declaration')
            elif form == 'var': root.append(f'--c{j}: {col}'); decls.append(f'color: var(--c{j})'); feats.add('var')
            elif form == 'var-chain': root += [f'--base{j}: {col}', f'--c{j}: var(--base{j})']; decls.append(f'color: var(--c{j})'); feats.add('var-chain')
            elif form == 'var-fallback': root.append(f'--c{j}: {col}'); decls.append(f'color: var(--c{j}, #123456)'); feats.add('var-with-fallback')
            elif form == 'var-undefined-fallback': decls.append(f'color: var(--nope{j}, {col})'); feats.add('var-undefined-with-fallback')
            elif form == 'var-undefined': decls.append(f'color: var(--nope{j})'); feats.add('var-undefined')
            elif form == 'var-redefined':
                # the property is defined more than once: `extra` holds further top-level blocks placed before / after the main one
                decoy = colour(rng.choice(['ok', 'fix', 'light']))
                how = rng.choice(['same-selector-later-wins', 'root-beats-later-html', 'html-then-root'])
                root.append(f'--c{j}: {col}'); decls.append(f'color: var(--c{j})'); feats.add('var-redefined:' + how)
                redefs.append((how, f'--c{j}: {decoy}'))
            elif form == 'var-shared':
                root.append(f'--shared: {col}'); decls.append('color: var(--shared)'); feats.add('var-shared')
                parts.append(f'.other{idx}_{j} {{ color: var(--shared); background-color: {rng.choice(["#222", "#fff", "#ddd"])} }}')
            elif form == 'root-own':
                sel = rng.choice([':root', 'html']); decls.append(f'color: {col}'); feats.add('root-rule-own-colour')
            elif form == 'vendor-hack': decls += ['*zoom: 1', f'color: {col}']; feats.add('unserialisable-declaration')
            if bg is not None:
                decls.append(f'background-color: {bg}'); feats.add('own-background')
                if form == 'repeated' and rng.random() < 0.5:
                    # the text colour in force comes AFTER the background declaration (last `color` wins wherever it stands)
                    decls.remove(f'color: {col}'); decls.append(f'color: {col}'); feats.add('repeated-after-background')
            if rng.random() < 0.3: decls.insert(0, 'margin: 0 /* c */')
            body = '; '.join(decls) + (';' if rng.random() < 0.5 else '')
            if len(decls) > 1 and rng.random() < 0.25:
                body = body.replace('; ', '; /* between declarations */ ', 1); feats.add('comment-between-declarations')
            rule = f'{sel} {{ {body} }}'
            depth = rng.choice([0, 0, 0, 1, 2, 3])
            for k in range(depth):
                rule = (f'@media (min-width: {k}0px) {{ {rule} }}' if (k + j) % 2 == 0 else f'@supports (display: grid) {{ {rule} }}')
            if depth: feats.add(f'nested:{depth}')
            parts.append(rule)
        for c in rng.sample(CARRY, rng.randrange(0, 4)): parts.insert(rng.randrange(len(parts) + 1), c); feats.add('carry-through')
        if root:
            rsel = rng.choice([':root', 'html'])
            if any(h == 'root-beats-later-html' for h, _ in redefs): rsel = ':root'
            if any(h == 'html-then-root' for h, _ in redefs): rsel = ':root'
            pos = 0 if rng.random() < 0.7 else len(parts)
            parts.insert(pos, f'{rsel} {{ ' + '; '.join(root) + ' }')
            if pos != 0: feats.add('root-after-use')
            for how, d in redefs:
                # the main block carries the value in force; the decoy block is placed where the cascade makes it lose
                if how == 'same-selector-later-wins': parts.insert(pos, f'{rsel} {{ {d} }}')                  # earlier block of the same selector
                elif how == 'root-beats-later-html': parts.insert(pos + 1, f'html {{ {d} }}')                  # later, lower specificity
                elif how == 'html-then-root': parts.insert(pos, f'html {{ {d} }}')                             # earlier, lower specificity
        # @charset / @import must stay first if present: keep order as generated (tool must carry them through anyway)
        css = '\n'.join(parts) + '\n'
        sheets.append((f's{idx}.css', css, feats))
    return sheets


CORE_SHEETS = [
    # AAA out of reach in default mode while the best attempt crosses AA (premium failure path); light greys on light backgrounds
    ('core_light1.css', '.a { color: #ccc; background-color: #fff }\n', {'core', 'colour:light'}),
    ('core_light2.css', '.a { color: #bbb }\n.b { color: silver; background-color: #f0f0f0 }\n', {'core', 'colour:light'}),
    ('core_light3.css', '@media (min-width: 1px) { .a { color: #ddd; background-color: white } }\n.b { color: #9ac; background-color: #fff }\n', {'core', 'colour:light', 'nested:1'}),
    ('core_light4.css', ':root { --x: #ccc }\n.a { color: var(--x); background-color: #fff }\n', {'core', 'colour:light', 'var'}),
    ('core_light5.css', '.a { color: var(--nope, #bbb); background-color: #fff }\n', {'core', 'colour:light', 'var-undefined-with-fallback'}),
    # one property defined twice
    ('core_redef1.css', 'html { --x: #ccc }\nhtml { --x: #888 }\n.a { color: var(--x); background-color: #fff }\n', {'core', 'var-redefined:same-selector-later-wins'}),
    ('core_redef2.css', ':root { --x: #222 }\nhtml { --x: #ccc }\n.a { color: var(--x); background-color: #fff }\n', {'core', 'var-redefined:root-beats-later-html'}),
    ('core_redef3.css', 'html { --x: #222 }\n:root { --x: #999 }\n.a { color: var(--x); background-color: #fff }\n', {'core', 'var-redefined:html-then-root'}),
    # reference cycles and self-reference among custom properties (no colour can be resolved: needs attention, nothing written, nothing raised)
    ('core_cycle1.css', ':root { --a: var(--b); --b: var(--a) }\n.x { color: var(--a); background-color: #fff }\n.y { color: #888; background-color: #fff }\n', {'core', 'var-cycle'}),
    ('core_cycle2.css', 'html { --a: var(--a); --c: var(--c) }\n.x { color: var(--a, #999); background-color: #fff }\n.y { color: var(--b, var(--c)); }\n', {'core', 'var-cycle'}),
    # last `color` wins wherever it stands; comments between declarations of an adjusted rule
    ('core_repeat.css', '.a { color: #222; background-color: white; color: #999 }\n.b { color: #999; background-color: white; color: #222 }\n', {'core', 'repeated-after-background'}),
    ('core_comments.css', '.a { /* lead */ color: #888; /* between */ background-color: #fff; /* tail */ }\n@media print { .b { margin: 0; /* m */ color: #8a8a8a /* in value */; } }\n', {'core', 'comment-between-declarations'}),
    # same selector twice, different outcomes; deep nesting
    ('core_same_sel.css', '.a { color: #000; background-color: #fff }\n@media print { @supports (display: grid) { .a { color: #999; background-color: #fff } } }\n.a { color: #fefefe; background-color: #fff }\n', {'core', 'nested:2'}),
    ('core_deep.css', '@media (min-width: 1px) { @supports (display: grid) { @media print { .a { color: #8a8a8a; background-color: #fff } } } }\n', {'core', 'nested:3'}),
]
ALL_SETTINGS = [tuple(x for x in (*(('--mode', str(m)) if m is not None else ()), *(('--premium',) if pr else ()), *(('--default-bg', bg) if bg else ()))) for m in (None, 0, 1, 2) for pr in (False, True) for bg in (None, '#222')]


def core_jobs():
    """deterministic core: every corner sheet under every (mode, premium, default-bg) combination"""
    return [(n, c, f, opts) for n, c, f in CORE_SHEETS for opts in ALL_SETTINGS]


SETTINGS = [(), ('--mode', '0'), ('--mode', '2'), ('--premium',), ('--default-bg', '#222'), ('--default-bg', 'black', '--mode', '0'), ('--premium', '--mode', '2'), ('--default-bg', 'white')]


def settings_of(opts):
    mode = int(opts[opts.index('--mode') + 1]) if '--mode' in opts else 1
    premium = '--premium' in opts
    dbg = opts[opts.index('--default-bg') + 1] if '--default-bg' in opts else 'white'
    return mode, premium, dbg
