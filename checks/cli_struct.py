"""Name-independent dataflow helpers for the structural obligations on cm_colors.cli.main:main (checks C09, C18).
Locals are resolved through their single assignment, never by their spelling, so renaming a local does not change a verdict."""
import ast

CLI = 'cm_colors.cli.main'


def single_assignments(fn):
    assigns = {}
    for n in ast.walk(fn):
        if isinstance(n, ast.Assign) and len(n.targets) == 1 and isinstance(n.targets[0], ast.Name): assigns.setdefault(n.targets[0].id, []).append(n.value)
    return assigns


def resolver(fn):
    assigns = single_assignments(fn)
    def res(e):
        d = 0
        while isinstance(e, ast.Name) and len(assigns.get(e.id, [])) == 1 and d < 8: e = assigns[e.id][0]; d += 1
        return e
    return res


def files_loop(fn):
    """the per-file loop of main: the `for` whose iterable resolves to list(get_css_files(path)) / get_css_files(path)"""
    res = resolver(fn)
    out = []
    for l in ast.walk(fn):
        if isinstance(l, ast.For):
            it = res(l.iter)
            if any(isinstance(c, ast.Call) and ast.unparse(c.func) == 'get_css_files' for c in ast.walk(it)): out.append(l)
    return out


def written_name(prog):
    """-> (status, detail): the expression main() opens for writing, resolved to <input>.parent / NAME or <input>.with_name(NAME)
    with NAME a concatenation of <input>.stem / <input>.suffix / <input>.name / string literals; returned as a builder of a z3 term"""
    try: fn, m = prog.func(f'{CLI}:main')
    except KeyError as e: return None, str(e)
    res = resolver(fn)
    opens = [n for n in ast.walk(fn) if isinstance(n, ast.Call) and ast.unparse(n.func) == 'open' and len(n.args) >= 2 and isinstance(n.args[1], ast.Constant) and 'w' in str(n.args[1].value)]
    opens += [n for n in ast.walk(fn) if isinstance(n, ast.Call) and isinstance(n.func, ast.Attribute) and n.func.attr in ('write_text', 'write_bytes')]
    if len(opens) != 1: return None, f'{len(opens)} files opened for writing in main'
    loops = files_loop(fn)
    if len(loops) != 1: return None, f'{len(loops)} loops over the stylesheet list'
    lv = ast.unparse(loops[0].target)
    o = opens[0]
    target = res(o.args[0]) if ast.unparse(o.func) == 'open' else res(o.func.value)
    target = inline_helper(m, target, res)
    if isinstance(target, ast.BinOp) and isinstance(target.op, ast.Div) and ast.unparse(res(target.left)) == f'{lv}.parent': nm = res(target.right)
    elif isinstance(target, ast.Call) and ast.unparse(target.func) == f'{lv}.with_name' and len(target.args) == 1: nm = res(target.args[0])
    elif ast.unparse(target) == lv: return 'INPUT', {'written_path': lv, 'note': 'the file opened for writing is the input stylesheet itself'}
    else: return None, f'written path {ast.unparse(target)!r} is not <input>.parent / NAME nor <input>.with_name(NAME)'
    def build(z3, stem, suf):
        def term(e):
            e = res(e)
            if isinstance(e, ast.BinOp) and isinstance(e.op, ast.Add): return z3.Concat(term(e.left), term(e.right))
            if isinstance(e, ast.Constant) and isinstance(e.value, str): return z3.StringVal(e.value)
            if ast.unparse(e) == f'{lv}.stem': return stem
            if ast.unparse(e) == f'{lv}.suffix': return suf
            if ast.unparse(e) == f'{lv}.name': return z3.Concat(stem, suf)
            if isinstance(e, ast.Call) and isinstance(e.func, ast.Attribute) and e.func.attr in ('removesuffix', 'removeprefix') and len(e.args) == 1 and isinstance(e.args[0], ast.Constant) and isinstance(e.args[0].value, str):
                x, lit = term(e.func.value), z3.StringVal(e.args[0].value); k = len(e.args[0].value)
                if e.func.attr == 'removesuffix': return z3.If(z3.SuffixOf(lit, x), z3.SubString(x, 0, z3.Length(x) - k), x)
                return z3.If(z3.PrefixOf(lit, x), z3.SubString(x, k, z3.Length(x) - k), x)
            if isinstance(e, ast.JoinedStr):
                parts = [term(v.value) if isinstance(v, ast.FormattedValue) and v.conversion == -1 and v.format_spec is None else term(v) for v in e.values]
                return z3.Concat(*parts) if len(parts) > 1 else parts[0]
            raise ValueError(ast.unparse(e))
        return term(nm)
    return build, {'written_name': ast.unparse(nm), 'input': lv}


def processing_call_args(fn, loop):
    """the call of process_nodes_recursive inside the per-file loop -> (call node, accumulator name passed as `stats`)"""
    calls = [c for c in ast.walk(loop) if isinstance(c, ast.Call) and ast.unparse(c.func) == 'process_nodes_recursive']
    if len(calls) != 1: return None, None
    c = calls[0]
    acc = None
    if len(c.args) >= 3 and isinstance(c.args[2], ast.Name): acc = c.args[2].id
    for k in c.keywords:
        if k.arg == 'stats' and isinstance(k.value, ast.Name): acc = k.value.id
    return c, acc


def inline_helper(m, e, res):
    """a call of a module-level helper whose body is straight-line single assignments ending in one `return <expr>`:
    replaced by that expression with the parameters substituted (anything else is returned unchanged -> undecided upstream)"""
    if not (isinstance(e, ast.Call) and isinstance(e.func, ast.Name) and e.func.id in m.funcs and not e.keywords): return e
    fd = m.funcs[e.func.id]
    body = [st for st in fd.body if not (isinstance(st, ast.Expr) and isinstance(st.value, ast.Constant))]
    if not body or not isinstance(body[-1], ast.Return) or body[-1].value is None: return e
    if not all(isinstance(st, ast.Assign) and len(st.targets) == 1 and isinstance(st.targets[0], ast.Name) for st in body[:-1]): return e
    names = [a.arg for a in fd.args.args]
    if len(names) != len(e.args): return e
    env = {n: res(a) for n, a in zip(names, e.args)}
    for st in body[:-1]:
        if st.targets[0].id in env: return e
        env[st.targets[0].id] = st.value
    class Sub(ast.NodeTransformer):
        def visit_Name(self, n):
            if n.id in env: return Sub().visit(ast.parse(ast.unparse(env[n.id]), mode='eval').body) if n.id not in names else ast.parse(ast.unparse(env[n.id]), mode='eval').body
            return n
    return Sub().visit(ast.parse(ast.unparse(body[-1].value), mode='eval').body)
