"""Shared pieces of the engine-A based checks (C01, C02, C04, C16): closures, canaries, E replay search."""
from __future__ import annotations
import json, random, time
from vf.program import Program, repo_state
from vf.engine_a import verify_many
from vf.runner import Check
from vf import rtc

OPT = 'cm_colors.core.optimisation'
COL = 'cm_colors.core.colors'
CHAIN = [f'{COL}:ColorPair.make_readable', f'{OPT}:check_and_fix_contrast', f'{OPT}:_strategy_strict', f'{OPT}:_strategy_recursive',
         f'{OPT}:_strategy_relaxed', f'{OPT}:generate_accessible_color', f'{OPT}:binary_search_lightness', f'{OPT}:gradient_descent_oklch']

TRUSTED = [
    'CPython 3.12 compiles the AST as parsed (ast module); stdlib math/str/float/int/round behave as documented',
    'z3 5.1.0 (python API) / cvc5 1.0.3 decide QF_UFLIRA queries correctly',
    'floats are treated as reals where they are only compared (order-only); kernels return finite non-NaN values (closed by checks C05/C11)',
    'no monkey-patching / reflection on the package at run time',
]


def mutate(prog, mod, old, new):
    """old/new may be lists of equal length: several replacements in the same module"""
    olds, news = (old, new) if isinstance(old, list) else ([old], [new])
    mp = prog
    for o, n in zip(olds, news):
        mp = mp.mutate(mod, o, n)
        if mp is None: return None
    return mp.overrides


def run_A(ck, quals, canaries, prog=None):
    """verify `quals` on the working tree and every canary mutant, in one pool"""
    prog = prog or Program()
    jobs = [(q, None) for q in quals]
    cjobs = []
    for cn in canaries:
        ov = mutate(prog, cn['mod'], cn['old'], cn['new'])
        cjobs.append(None if ov is None else (cn['fn'], ov))
    allj = jobs + [j for j in cjobs if j is not None]
    # regression self-test for a soundness hole found by seed C04d: a function replaced by a decorator's result must not be verified through its body
    wq = f'{OPT}:generate_accessible_color'
    wov = mutate(prog, OPT, 'def generate_accessible_color(', 'def _passthrough_for_the_self_test(f):\n    return f\n\n\n@_passthrough_for_the_self_test\ndef generate_accessible_color(') if wq in quals else None
    if wov is not None: allj = allj + [(wq, wov)]
    reps = verify_many(allj)
    if wov is not None:
        wrep = reps.pop()
        ck.self_test('a decorated function is not taken for its undecorated body', 'wrapped by decorator' in str(wrep.get('error')), str(wrep.get('error'))[:120])
    ck.absorb_A(reps[:len(jobs)])
    it = iter(reps[len(jobs):])
    ck.absorb_canaries(canaries, [None if j is None else next(it) for j in cjobs])
    ck.trust(*TRUSTED)
    api = prog.public_api_problems()
    ck.add_obligation('C', 'package/public_api_is_the_code_under_contract[cm_colors.ColorPair / Color / make_readable_bulk are plain re-exports; no subclass]', 'unknown' if api else 'discharged', 'ast-structure', 0.0, api)
    if api: ck.undecide('package/public_api_is_the_code_under_contract', '; '.join(api) + ' - the contracts are on the definitions in cm_colors.core, what users import may be something else')
    st = repo_state()
    ck.notes.append(f"repo HEAD {st['head'][:12]} dirty={st['dirty']} source digest {prog.digest()}")
    return reps[:len(jobs)]


def search_witness(ck, budget_s, seed, labels, modes=(0, 1, 2), n=400):
    """engine E: look for a concrete (pair, settings) on which the run-time contract of make_readable fails for
    one of `labels`.  Used (a) as bounded cross-check on every run, (b) to make a failed obligation concrete."""
    from contracts.registry import build
    rng = random.Random(seed)
    jobs = []
    gen = rtc.pair_stream(rng)
    for i in range(n):
        t, b = next(gen)
        jobs.append((t, b, bool(rng.getrandbits(1)), modes[i % len(modes)], bool(rng.getrandbits(1))))
    t0 = time.time()
    cases = []
    for i, j in enumerate(jobs):
        kw = {'self': ('ColorPair', j[0], j[1], j[2]), 'mode': j[3], 'very_readable': j[4], 'show': False, 'save_report': False}
        if i % 4 == 3:      # every 4th case: the probe call is preceded by calls with other settings on the same object
            kw['_history'] = [(j[3], not j[4]), ((j[3] + 1) % 3, j[4])]
        cases.append((f'{COL}:ColorPair.make_readable', kw, labels))
    res = rtc.run_cases(cases)
    fails = [(kw, f) for kw, f, sk in res if f]
    skipped = sum(sk for _, _, sk in res)
    return jobs, fails, skipped, time.time() - t0


def C(name, old, new, fn, expect=None, mod=OPT):
    return {'name': name, 'mod': mod, 'old': old, 'new': new, 'fn': f'{mod}:{fn}', 'expect': expect}


CANARIES = {
    'C01': [
        C('strict judges target not minimum', "success = final_contrast >= min_contrast", "success = final_contrast >= target_contrast", '_strategy_strict', 'flag_iff'),
        C('recursive: stuck branch reports True', "            else:\n                return next_rgb, False", "            else:\n                return next_rgb, True", '_strategy_recursive', 'flag_iff'),
        C('relaxed: final fallback (text, True)', "        return rec_rgb, False", "        return text_rgb, True", '_strategy_relaxed', 'flag_iff'),
        C('premium x large cell 4.5 -> 3.0', "        if large:\n            min_contrast = 4.5\n            target_contrast = 4.5", "        if large:\n            min_contrast = 3.0\n            target_contrast = 4.5", 'check_and_fix_contrast', 'flag_iff'),
        C('recursive: zero iterations', "max_iterations = 10", "max_iterations = 0", '_strategy_recursive', 'flag_iff'),
        C('make_readable: success forced after formatting', "result = (formatted_color, success)", "result = (formatted_color, True)", 'ColorPair.make_readable', 'flag_iff', mod=COL),
        C('make_readable: invalid pair reports (None, True)', "            return None, False", "            return None, True", 'ColorPair.make_readable', 'shape', mod=COL),
    ],
    'C02': [
        C('best_contrast starts at 0.0', "    best_contrast = current_contrast\n", "    best_contrast = 0.0\n", 'generate_accessible_color', 'no_harm'),
        C('best-candidate update > -> <', "            if result_contrast > best_contrast:\n                best_contrast = result_contrast\n                best_candidate = binary_result", "            if result_contrast < best_contrast:\n                best_contrast = result_contrast\n                best_candidate = binary_result", 'generate_accessible_color', 'no_harm'),
        C('early return compares with target', "required_contrast_for_check = min_contrast", "required_contrast_for_check = target_contrast", 'check_and_fix_contrast', 'keep_if_ok'),
        C('relaxed returns original text on failure... with lower bound lost', "        return rec_rgb, False", "        return bg_rgb, False", '_strategy_relaxed', 'no_harm'),
    ],
    'C04': [
        C('lightness search: tolerance guard removed', "            if delta_e > delta_e_threshold:\n                if search_up:", "            if False:\n                if search_up:", 'binary_search_lightness', 'within_tol'),
        C('descent: final tolerance test removed', "            if final_delta_e <= delta_e_threshold:\n                return final_rgb", "            if True:\n                return final_rgb", 'gradient_descent_oklch', 'within_tol'),
        C('default schedule extended to 6.0', "            4.0,\n            5.0,\n        ]\n\n    best_candidate", "            4.0,\n            6.0,\n        ]\n\n    best_candidate", 'generate_accessible_color', 'bounded'),
        C('default-mode step schedule 3.0 -> 3.5', "strict_sequence = [0.8, 1.0, 1.2, 1.4, 1.6, 1.8, 2.0, 2.2, 2.5, 2.8, 3.0]\n\n    for _ in range(max_iterations):", "strict_sequence = [0.8, 1.0, 1.2, 1.4, 1.6, 1.8, 2.0, 2.2, 2.5, 2.8, 3.5]\n\n    for _ in range(max_iterations):", '_strategy_recursive', 'chain_le_3'),
        C('mode dispatch swapped (mode 1 gets relaxed)', "    elif mode == 2:\n        tuned_rgb, success = _strategy_relaxed(", "    elif mode == 1:\n        tuned_rgb, success = _strategy_relaxed(", 'check_and_fix_contrast', 'chain'),
        C('recursive step restarts from the original text', "        next_rgb = generate_accessible_color(\n            current_rgb,\n            bg_rgb,\n            large=large,\n            target_contrast=target_contrast,\n            min_contrast=min_contrast,\n            delta_e_sequence=strict_sequence,\n        )\n\n        if next_rgb == current_rgb:\n            # Stuck", "        next_rgb = generate_accessible_color(\n            current_rgb,\n            bg_rgb,\n            large=large,\n            target_contrast=target_contrast,\n            min_contrast=min_contrast,\n            delta_e_sequence=[6.0],\n        )\n\n        if next_rgb == current_rgb:\n            # Stuck", '_strategy_recursive', 'chain_le_3'),
    ],
    'C16': [
        C('relaxed skips the default-strategy shortcut', "    if rec_success:\n        return rec_rgb, True\n", "    if False:\n        return rec_rgb, True\n", '_strategy_relaxed', 'covers_mode1'),
        C('mode dispatch swapped', "    elif mode == 2:\n        tuned_rgb, success = _strategy_relaxed(", "    elif mode == 1:\n        tuned_rgb, success = _strategy_relaxed(", 'check_and_fix_contrast', 'mode1_is_rec'),
        # relational canaries (clause 2): each keeps every unary contract of the function true
        C('rel: early stop when BELOW the minimum', "            and best_contrast >= min_contrast\n", "            and best_contrast < min_contrast\n", 'generate_accessible_color~rel', 'hi_never_ahead'),
        C('rel: early stop for AA-level minimum whatever the contrast', "            and best_contrast >= min_contrast\n", "            and min_contrast <= 4.5\n", 'generate_accessible_color~rel', 'lo_returns_first'),
        C('rel: fewer default-mode steps for the ordinary request', "    max_iterations = 10\n", "    max_iterations = 10 if min_contrast >= 7.0 else 3\n", '_strategy_recursive~rel', 'same_iterable'),
        C('rel: relaxed option B only for AAA requests', "    opt_b_success = calculate_contrast_ratio(opt_b_rgb, bg_rgb) >= min_contrast\n", "    opt_b_success = calculate_contrast_ratio(opt_b_rgb, bg_rgb) >= min_contrast and min_contrast >= 7.0\n", '_strategy_relaxed~rel', 'very_readable_implies_readable'),
        C('rel: ordinary request aims only at its own minimum', "            target_contrast = (\n                7.0  # Aim a bit higher (AAA) if possible, but AA is the floor\n            )", "            target_contrast = (\n                4.5\n            )", 'check_and_fix_contrast~rel', 'very_readable_implies_readable'),
    ],
}
# a harmless edit that must NOT raise an alarm (checked like a canary with inverted expectation)
HARMLESS = [C('recursive: max_iterations = 12 (harmless)', "max_iterations = 10", "max_iterations = 12", '_strategy_recursive')]
HARMLESS_EXTRA = {'C16': [C('rel: max_iterations = 12 for both requests (harmless)', "max_iterations = 10", "max_iterations = 12", '_strategy_recursive~rel'),
                          C('rel: strict strategy locals renamed (harmless)', "    success = final_contrast >= min_contrast\n    return tuned_rgb, success", "    ok = final_contrast >= min_contrast\n    return tuned_rgb, ok", '_strategy_strict~rel')]}


def standard_check(pid, args, level, explanation, closure, labels_E, n_quick=300, n_thorough=6000, extra=None):
    ck = Check(pid, args.tier, args.seed, level)
    ck.explanation = explanation
    prog = Program()
    canaries = CANARIES.get(pid, [])
    run_A(ck, closure, canaries + HARMLESS + HARMLESS_EXTRA.get(pid, []), prog)
    # the harmless edit must verify: fix up its self-test verdict (absorb_canaries marks 'still verifies' as failure)
    for s in ck.selftest:
        if '(harmless)' in s['name']:
            s['ok'] = not s['ok'] if 'still verifies' in s['detail'] or 'killed' in s['detail'] else s['ok']
            s['detail'] = 'harmless edit: ' + s['detail']
    if extra: extra(ck, prog)
    # engine E: bounded run-time contracts on the real make_readable (cross-check of the contracts; witness search)
    n = n_quick if args.tier == 'quick' else n_thorough
    jobs, fails, skipped, dt = search_witness(ck, 0, args.seed, labels_E, n=n)
    ck.bounded.append({'engine': 'E', 'what': f'run-time contract {labels_E} of ColorPair.make_readable on the real code', 'evaluations': len(jobs),
                       'skipped_near_ties': skipped, 'seed': args.seed, 'wall_s': round(dt, 1), 'bound': f'{len(jobs)} generated (pair, large, mode, very_readable) cases'})
    ck.evaluations = len(jobs)
    ck.sample({'engine': 'E', 'case': {'text': jobs[0][0], 'bg': jobs[0][1], 'large': jobs[0][2], 'mode': jobs[0][3], 'very_readable': jobs[0][4]}, 'result': 'contract held'})
    have_witness = None
    for kw, f in fails:
        have_witness = {'call': 'ColorPair(text,bg,large).make_readable(mode, very_readable)', 'text': kw['self'][1], 'bg': kw['self'][2], 'large': kw['self'][3],
                        'mode': kw['mode'], 'very_readable': kw['very_readable'], 'failed_labels': [x[0] for x in f], 'observed': f[0][1]}
        break
    if have_witness:
        # attach the concrete input to the deductive violations; if the proof went through but the run-time contract
        # fails, that is a violation found by the bounded engine alone
        if ck.violations:
            for v in ck.violations: v['witness'] = have_witness
        else:
            ck.violation(f'ColorPair.make_readable/{have_witness["failed_labels"][0]} (run-time contract)', 'E', {'note': 'deductive obligations discharged but the run-time contract fails: contract/assumption gap'}, have_witness)
    return ck


def roundtrip_lemma(ck, tier, formats=('hex', 'rgb', 'hsl', 'rgb_tuple'), force_quick=False):
    """engine D lemma READ(format_color(c,f)) == CSS(format_color(c,f)) == c on the colour cube (real formatter + parsers)"""
    from vf import fdx
    n, fails, stats, exhaustive, wall = fdx.sweep('checks.d_workers', 'roundtrip', 'quick' if force_quick else tier, {'formats': list(formats)})
    ck.exhaustive.append({'engine': 'D', 'what': 'READ(format_color(c,f)) == c and CSS(format_color(c,f)) == c, real formatter + real parser + reference parser',
                          'domain': 'all 16,777,216 colours x 4 formats' if exhaustive else 'quick domain (52^3 lattice + greys + channel sweeps + 60k pseudo-random) x 4 formats',
                          'evaluations': n, 'exhaustive': exhaustive, 'css_rounding_ties': stats.get('ties', 0), 'wall_s': round(wall, 1)})
    ck.add_obligation('D', 'format_color/round_trip[colours x {hex,rgb,hsl,rgb_tuple}]', 'failed' if fails else 'discharged', 'exhaustive' if exhaustive else 'lattice(bounded)', wall)
    ck.evaluations += n
    ck.sample({'engine': 'D', 'case': {'colour': [26, 187, 255], 'format': 'hsl'}, 'checked': 'format -> library parser -> equal; format -> CSS reference parser -> equal'})
    if fails:
        f = fails[0]
        ck.violation('format_color/round_trip', 'D', {'failures_shown': fails[:5], 'n_failures_at_least': len(fails)},
                     {'call': 'parse_color_to_rgb(format_color(colour, format))', **f}, {'witness_key': f"{f['format']}:{f['stage']}"})
    return exhaustive


def run_ranges(ck, prog, quals, canaries=()):
    """engine R (vf/ranges.py): range contracts of `quals` on the working tree + in-memory canaries (name, module, function, old, new)"""
    from vf.ranges import verify_range
    from contracts.ranges import contracts as range_contracts
    rcs = range_contracts()
    failed = False
    for q in quals:
        obls, err = verify_range(prog, rcs, q)
        if q not in ck.functions: ck.functions.append(q)
        if err: ck.undecide(f'{q}~ranges', err); continue
        for o in obls:
            ck.add_obligation('R', o.name, 'discharged' if o.ok else ('unknown' if o.ok is None else 'failed'), o.backend, o.secs, o.detail)
            if o.ok is False: failed = True; ck.violation(o.name, 'R', {'function': q, 'back_end': o.backend, 'reason': o.detail})
            elif o.ok is None: ck.undecide(o.name, o.detail)
    for cname, mod, fn_, old, new in canaries:
        mp_ = prog.mutate(mod, old, new)
        if mp_ is None: ck.notes.append(f"canary '{cname}': pattern no longer matches - skipped"); continue
        if failed or any(u['what'].endswith('~ranges') for u in ck.undecided): ck.notes.append(f"canary '{cname}': base failing or undecided - not judged"); continue
        ob2, e2 = verify_range(mp_, rcs, f'{mod}:{fn_}')
        killed = [o.name for o in ob2 if o.ok is False]
        harmless = '(harmless)' in cname
        ck.self_test(f'canary {cname}', (not killed and not e2) if harmless else bool(killed), f'killed by {killed[0]}' if killed else ('verifies' if not e2 else e2))
    ck.assume('range contracts (engine R) are over the REALS with path-insensitive joins; pre-conditions are the ranges stated in contracts/ranges.py')
