"""Engine-D workers: each evaluates REAL library functions on a chunk of the 2^24 colours."""
import re
from vf.fdx import rgb_of

_hex = re.compile(r'#([0-9a-f]{2})([0-9a-f]{2})([0-9a-f]{2})\Z')
_rgb = re.compile(r'rgb\((\d+), (\d+), (\d+)\)\Z')


def roundtrip(chunk, extra):
    """C06: for every colour and format: READ(format_color(c,f)) == c (library parser) and
    CSS(format_color(c,f)) == c (independent reference parser)"""
    from cm_colors.core.color_parser import format_color, parse_color_to_rgb
    from oracles import css3
    fmts = extra['formats']
    fails = []; n = 0; ties = 0
    for i in chunk:
        c = rgb_of(i)
        for f in fmts:
            n += 1
            try:
                s = format_color(c, f)
            except Exception as e:
                fails.append({'colour': c, 'format': f, 'stage': 'format_color raised', 'detail': f'{type(e).__name__}: {e}'}); continue
            if f == 'rgb_tuple':
                if s != c or type(s) is not tuple or not all(type(x) is int for x in s):
                    fails.append({'colour': c, 'format': f, 'stage': 'tuple', 'value': repr(s)})
                continue
            if not isinstance(s, str) or not s:
                fails.append({'colour': c, 'format': f, 'stage': 'not a non-empty string', 'value': repr(s)}); continue
            try:
                back = parse_color_to_rgb(s)
            except Exception as e:
                back = f'{type(e).__name__}: {e}'
            if back != c:
                fails.append({'colour': c, 'format': f, 'stage': 'library parser', 'value': s, 'read_back': back})
                if len(fails) > 40: break
                continue
            # reference parser: fast paths for the two fixed-shape formats, full parser otherwise
            if f == 'hex':
                m = _hex.match(s); ref = tuple(int(x, 16) for x in m.groups()) if m else None
                ok = ref == c
            elif f == 'rgb':
                m = _rgb.match(s); ref = tuple(int(x) for x in m.groups()) if m else None
                ok = ref == c and css3.parse(s) is not None if i % 4096 == 0 else ref == c
            else:
                r = css3.parse(s)
                if r is None or r[1] != 1: ok = False; ref = None
                else:
                    near = [css3.nearest8(x) for x in r[0]]
                    ties += sum(len(s_) > 1 for s_ in near)
                    ok = all(v in s_ for v, s_ in zip(c, near)); ref = [sorted(s_) for s_ in near]
            if not ok:
                fails.append({'colour': c, 'format': f, 'stage': 'CSS reference parser', 'value': s, 'css_reads': repr(ref)})
        if len(fails) > 40: break
    return {'n': n, 'fails': fails[:40], 'stats': {'ties': ties}}
