"""Engine-D workers: each evaluates REAL library functions on a chunk of the 2^24 colours."""
import re
from vf.fdx import rgb_of

_hex = re.compile(r'#([0-9a-f]{2})([0-9a-f]{2})([0-9a-f]{2})\Z')
_rgb = re.compile(r'rgb\((\d+), (\d+), (\d+)\)\Z')


def roundtrip(chunk, extra):
    """C06: for every colour and format: READ(format_color(c,f)) == c (library parser) and
    CSS(format_color(c,f)) == c (independent reference parser)"""
    from cm_colors.core.color_parser import format_color, parse_color_to_rgb
    from oracles import css3
    fmts = extra['formats']
    fails = []; n = 0; ties = 0
    for i in chunk:
        c = rgb_of(i)
        for f in fmts:
            n += 1
            try:
                s = format_color(c, f)
            except Exception as e:
                fails.append({'colour': c, 'format': f, 'stage': 'format_color raised', 'detail': f'{type(e).__name__}: {e}'}); continue
            if f == 'rgb_tuple':
                if s != c or type(s) is not tuple or not all(type(x) is int for x in s):
                    fails.append({'colour': c, 'format': f, 'stage': 'tuple', 'value': repr(s)})
                continue
            if not isinstance(s, str) or not s:
                fails.append({'colour': c, 'format': f, 'stage': 'not a non-empty string', 'value': repr(s)}); continue
            try:
                back = parse_color_to_rgb(s)
            except Exception as e:
                back = f'{type(e).__name__}: {e}'
            if back != c:
                fails.append({'colour': c, 'format': f, 'stage': 'library parser', 'value': s, 'read_back': back})
                if len(fails) > 40: break
                continue
            # reference parser: fast paths for the two fixed-shape formats, full parser otherwise
            if f == 'hex':
                m = _hex.match(s); ref = tuple(int(x, 16) for x in m.groups()) if m else None
                ok = ref == c
            elif f == 'rgb':
                m = _rgb.match(s); ref = tuple(int(x) for x in m.groups()) if m else None
                ok = ref == c and css3.parse(s) is not None if i % 4096 == 0 else ref == c
            else:
                r = css3.parse(s)
                if r is None or r[1] != 1: ok = False; ref = None
                else:
                    near = [css3.nearest8(x) for x in r[0]]
                    ties += sum(len(s_) > 1 for s_ in near)
                    ok = all(v in s_ for v, s_ in zip(c, near)); ref = [sorted(s_) for s_ in near]
            if not ok:
                fails.append({'colour': c, 'format': f, 'stage': 'CSS reference parser', 'value': s, 'css_reads': repr(ref)})
        if len(fails) > 40: break
    return {'n': n, 'fails': fails[:40], 'stats': {'ties': ties}}


# ---------------------------------------------------------------------------------------------- C05
_REF = {}


def _ref_tables():
    """reference linearisation table from the WCAG definition at 50 digits, as numpy longdouble"""
    if 'T' not in _REF:
        import numpy as np
        from oracles import colour as oc
        K = oc.MpK(50)
        T = [oc.srgb_decode(K, v) for v in range(256)]
        _REF['T'] = np.array([np.longdouble(K.mp.nstr(x, 40)) for x in T], dtype=np.longdouble)
        _REF['Tf'] = [float(x) for x in T]
    return _REF['T']


def luminance_sweep(chunk, extra):
    """C05: relative luminance of the REAL function on every colour vs the WCAG definition (longdouble reference
    built from a 50-digit table); also ratio against black and white, symmetry bit-for-bit, range"""
    import numpy as np
    from cm_colors.core.contrast import calculate_relative_luminance as lum, calculate_contrast_ratio as cr
    T = _ref_tables()
    W = (np.longdouble('0.2126'), np.longdouble('0.7152'), np.longdouble('0.0722'))
    TOL = 8.9e-16
    fails = []; n = 0; maxerr = 0.0; zeros = ones = 0
    BL, WH = (0, 0, 0), (255, 255, 255)
    for i in chunk:
        c = rgb_of(i); n += 1
        v = lum(c)
        ref = W[0] * T[c[0]] + W[1] * T[c[1]] + W[2] * T[c[2]]
        err = abs(float(np.longdouble(v) - ref))
        if err > maxerr: maxerr = err
        if not (err <= TOL) or v != v:
            fails.append({'colour': c, 'what': 'luminance', 'library': v, 'reference': float(ref), 'abs_err': err})
        if v == 0.0: zeros += 1
        if v == 1.0: ones += 1
        for other, name in ((BL, 'black'), (WH, 'white')):
            a, b = cr(c, other), cr(other, c)
            lo, hi = (ref, T[other[0]]) if ref <= T[other[0]] else (T[other[0]], ref)
            rr = float((hi + np.longdouble('0.05')) / (lo + np.longdouble('0.05')))
            if a != b or not (1.0 <= a <= 21.0) or abs(a - rr) > 1e-12:
                fails.append({'colour': c, 'what': f'ratio against {name}', 'library': [a, b], 'reference': rr})
        if len(fails) > 20: break
    return {'n': n, 'fails': fails[:20], 'stats': {'max_abs_err': maxerr, 'lum_is_zero': zeros, 'lum_is_one': ones}}


# ---------------------------------------------------------------------------------------------- C11 / C10
def _np_tables():
    if 'np' not in _REF:
        import numpy as np
        _ref_tables()
        LD = np.longdouble
        _REF['np'] = np
        _REF['MXYZ'] = np.array([[LD('0.4124564'), LD('0.3575761'), LD('0.1804375')], [LD('0.2126729'), LD('0.7151522'), LD('0.0721750')], [LD('0.0193339'), LD('0.1191920'), LD('0.9503041')]], dtype=LD)
        _REF['WHITE'] = np.array([LD('95.047'), LD('100.000'), LD('108.883')], dtype=LD)
        _REF['EPS'] = LD(216) / LD(24389); _REF['KAPPA'] = LD(24389) / LD(27)
        from oracles import colour as oc
        _REF['M1'] = np.array([[LD(x) for x in row] for row in oc.M1], dtype=LD)
        _REF['M2'] = np.array([[LD(x) for x in row] for row in oc.M2], dtype=LD)
    return _REF['np']


def lab_sweep(chunk, extra):
    """C11: CIE L*a*b* (D65) of the REAL rgb_to_lab on every colour vs the CIE definition (exact epsilon/kappa, longdouble), tolerance 0.05"""
    np = _np_tables()
    from cm_colors.core.conversions import rgb_to_lab
    ids = np.fromiter(chunk, dtype=np.int64)
    ch = np.stack([(ids >> 16) & 255, (ids >> 8) & 255, ids & 255], axis=1)
    lin = _REF['T'][ch]                                   # (n,3) longdouble
    xyz = lin @ _REF['MXYZ'].T * np.longdouble(100)
    t = xyz / _REF['WHITE']
    f = np.where(t > _REF['EPS'], np.cbrt(t), (_REF['KAPPA'] * t + 16) / 116)
    ref = np.stack([116 * f[:, 1] - 16, 500 * (f[:, 0] - f[:, 1]), 200 * (f[:, 1] - f[:, 2])], axis=1)
    fails = []; maxerr = 0.0
    for k, i in enumerate(ids.tolist()):
        c = rgb_of(i)
        try:
            v = rgb_to_lab(c)
        except Exception as e:
            fails.append({'colour': c, 'what': 'rgb_to_lab raised', 'detail': f'{type(e).__name__}: {e}'}); continue
        err = max(abs(float(np.longdouble(v[j]) - ref[k, j])) for j in range(3))
        if err > maxerr: maxerr = err
        if not err <= 0.05:
            fails.append({'colour': c, 'library': list(v), 'reference': [float(x) for x in ref[k]], 'max_abs_err': err})
            if len(fails) > 20: break
    return {'n': len(ids), 'fails': fails[:20], 'stats': {'max_abs_err': maxerr}}


def oklch_sweep(chunk, extra):
    """C10: rgb_to_oklch of the REAL function on every colour vs the OKLab definition (longdouble), ranges in floats,
    and the round trip oklch_to_rgb(rgb_to_oklch(c)) == c"""
    np = _np_tables()
    from cm_colors.core.conversions import rgb_to_oklch, oklch_to_rgb, rgb_to_oklch_safe, oklch_to_rgb_safe
    ids = np.fromiter(chunk, dtype=np.int64)
    ch = np.stack([(ids >> 16) & 255, (ids >> 8) & 255, ids & 255], axis=1)
    lin = _REF['T'][ch]
    lms = np.cbrt(lin @ _REF['M1'].T)
    lab = lms @ _REF['M2'].T
    Lr = np.clip(lab[:, 0], 0, 1); Cr = np.sqrt(lab[:, 1] ** 2 + lab[:, 2] ** 2)
    Hr = np.degrees(np.arctan2(lab[:, 2], lab[:, 1])); Hr = np.where(Hr < 0, Hr + 360, Hr)
    fails = []; mL = mC = mH = 0.0; n = 0
    for k, i in enumerate(ids.tolist()):
        c = rgb_of(i); n += 1
        try:
            L, C, H = rgb_to_oklch(c)
            back = oklch_to_rgb((L, C, H))
            s1 = rgb_to_oklch_safe(c); s2 = oklch_to_rgb_safe((L, C, H))
        except Exception as e:
            fails.append({'colour': c, 'what': 'raised', 'detail': f'{type(e).__name__}: {e}'}); continue
        eL, eC = abs(float(np.longdouble(L) - Lr[k])), abs(float(np.longdouble(C) - Cr[k]))
        eH = 0.0
        if float(Cr[k]) >= 1e-6:
            eH = abs(float(np.longdouble(H) - Hr[k])); eH = min(eH, 360 - eH)
        mL, mC, mH = max(mL, eL), max(mC, eC), max(mH, eH)
        bad = None
        if not (0.0 <= L <= 1.0 and C >= 0.0 and 0.0 <= H < 360.0): bad = 'range'
        elif eL > 1e-12 or eC > 1e-12 or eH > 1e-7: bad = 'definition'
        elif back != c: bad = 'round trip'
        elif s1 != (L, C, H) or s2 != back: bad = 'safe variant differs from plain on valid input'
        if bad:
            fails.append({'colour': c, 'what': bad, 'library': [L, C, H], 'reference': [float(Lr[k]), float(Cr[k]), float(Hr[k])], 'back': back, 'safe': [s1, s2]})
            if len(fails) > 20: break
    return {'n': n, 'fails': fails[:20], 'stats': {'max_err_L': mL, 'max_err_C': mC, 'max_err_H_deg': mH}}


def hex_sweep(chunk, extra):
    """C07: every #rrggbb string (lower case) parses to its colour; upper case every 257th"""
    from cm_colors.core.color_parser import parse_color_to_rgb
    fails = []; n = 0
    for i in chunk:
        c = rgb_of(i); s = '#%02x%02x%02x' % c; n += 1
        try: got = parse_color_to_rgb(s)
        except Exception as e: got = f'{type(e).__name__}: {e}'
        if got != c: fails.append({'input': s, 'expected': c, 'observed': got})
        if i % 257 == 0:
            for v in (s.upper(), s[1:], ' ' + s[1:].upper() + '\t'):
                try: got = parse_color_to_rgb(v)
                except Exception as e: got = f'{type(e).__name__}: {e}'
                if got != c: fails.append({'input': v, 'expected': c, 'observed': got})
        if len(fails) > 20: break
    return {'n': n, 'fails': fails[:20], 'stats': {}}
