import importlib, sys, traceback
from vf.runner import parse_args


def main():
    args = parse_args()
    try:
        mod = importlib.import_module(f'checks.{args.pid}')
    except ModuleNotFoundError:
        print(f'no check for {args.pid}'); return 3
    try:
        if args.replay: return mod.replay(args)
        return mod.run(args)
    except Exception:
        traceback.print_exc()
        print(f'CHECKER-CRASH property={args.pid}')
        return 3


if __name__ == '__main__':
    sys.exit(main())
