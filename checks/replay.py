"""--replay: re-execute the concrete input of a replay file on the current tree (run-time contract), or, when the
file has no concrete input, re-run the named deductive obligation."""
import json
from vf import rtc
from vf.engine_a import verify_many


def replay_make_readable(pid, args):
    r = json.load(open(args.replay))
    w = r.get('concrete_input')
    if w and 'text' in w:
        from contracts.registry import build
        lib = rtc.load_lib(); reg = build()
        c = reg.get('cm_colors.core.colors:ColorPair.make_readable')
        pair = lib.ColorPair(tuple(w['text']) if isinstance(w['text'], list) else w['text'], tuple(w['bg']) if isinstance(w['bg'], list) else w['bg'], w['large'])
        fails, sk = rtc.check_call(c, {'self': pair, 'mode': w['mode'], 'very_readable': w['very_readable'], 'show': False, 'save_report': False}, lib, None)
        res = pair.make_readable(w['mode'], w['very_readable'])
        print(f'replay input {w} -> {res}; failing contract clauses now: {[f[0] for f in fails or []]}')
        if fails:
            print(f'VIOLATION property={pid} replay={args.replay}'); return 1
        print('replayed input satisfies the contract on the current tree'); return 0
    fn = (r.get('verifier_output') or {}).get('function')
    if fn:
        rep = verify_many([(fn, None)])[0]
        bad = [x for x in rep['results'] if x['name'] == r['obligation'] and x['status'] != 'discharged']
        print(f"re-verified {r['obligation']}: {'still failing' if bad else 'discharged'}")
        if bad:
            print(f'VIOLATION property={pid} replay={args.replay} no-failing-input-found'); return 1
        return 0
    print('replay file has neither a concrete input nor a function'); return 2
