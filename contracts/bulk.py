"""C12: make_readable_bulk is exactly a map of the single-pair API.

The callee here is the ColorPair API *as a user sees it*: ColorPair(text, bg, large) is a deterministic function of its
three arguments (PAIR symbol; determinism = check C15), its make_readable(mode, very_readable) and is_readable are
function symbols MR / ISR of the pair and the settings.  The obligation on the real AST of make_readable_bulk is that
every iteration appends exactly one element and that element is ENTRY(item) written from the statement of C12."""
import z3
from vf.contracts import Contract, LoopSpec
from vf.values import *
from vf import symex as sx

CO = 'cm_colors.core.colors'
BK = 'cm_colors.core.cm_colors'


def sym_leaves(S, sym):
    ts = []
    for v in sym:
        if isinstance(v, VStr): ts.append(v.code)
        elif isinstance(v, VBool): ts.append(z3.If(v.t, z3.IntVal(1), z3.IntVal(0)))
        elif isinstance(v, VInt): ts.append(v.t)
        else: raise TypeError(f'opaque input expected, got {v!r}')
    return ts


def P(S, name, sym, rng):
    return S.app(name, sym_leaves(S, sym), rng)


def pair_valid(S, sym):
    return z3.And(z3.Not(P(S, 'PAIR_text_invalid', sym, B)), z3.Not(P(S, 'PAIR_bg_invalid', sym, B)))


def MR(S, sym, mode, very):
    args = sym_leaves(S, sym) + [S.i(mode), z3.If(S.b(very), z3.IntVal(1), z3.IntVal(0))]
    return VStr(code=S.app('MR_colour', args, I)), VBool(S.app('MR_success', args, B))


def ISR(S, sym):
    return VStr(code=P(S, 'IS_READABLE', sym, I))


def _symlist(S, p):
    L = fresh(I, 'npairs'); S.fact('npairs>=0', L >= 0)
    return VRef(p.alloc({'len': L, 'symbolic': True}), 'list')


def register_c12(reg):
    # ---- ColorPair(text, bg, large): the API as a function of its arguments
    ctor = Contract(f'{CO}:ColorPair.__init__', params={}, result='unk', posts={}, pure=True, raises=(),
                    assumed='ColorPair(text, bg, large) is a deterministic, effect-free function of its arguments (check C15); never raises (check C14)')
    def ctor_apply(ex, p, ns, node, ctor=None):
        S = ex.S
        sym = (ns.text_color, ns.bg_color, ns.large_text)
        try: sym_leaves(S, sym)
        except TypeError: return ex.opaque_call('ColorPair(non-opaque input)', p, node)
        q = p.fork()
        def color(which):
            rgb = VTuple([VInt(P(S, f'PAIR_{which}_rgb{i}', sym, I)) for i in range(3)])
            isn = P(S, f'PAIR_{which}_invalid', sym, B)
            q.pc = q.pc + [z3.Or(isn, S.rgb8(rgb))]
            return VRef(q.alloc({'__class__': f'{CO}:Color', '__open__': True, '_rgb': VOpt(isn, rgb), 'original': sym[0] if which == 'text' else sym[1],
                                 '_format': VStr(code=P(S, f'PAIR_{which}_format', sym, I)), '_error': VUnk('err')}), f'{CO}:Color')
        ref = VRef(q.alloc({'__class__': f'{CO}:ColorPair', '__sym__': sym, 'text': color('text'), 'bg': color('bg'), 'large': sym[2]}), f'{CO}:ColorPair')
        return [(q, ref)]
    ctor.apply = ctor_apply
    reg.add(ctor)

    mr = Contract(f'{CO}:ColorPair.make_readable', params={}, result='unk', posts={}, pure=True, raises=(),
                  assumed='make_readable is a function of the pair and (mode, very_readable); returns a non-empty str or a 3-tuple for a valid pair (check C01 shape, C15)')
    def mr_apply(ex, p, ns, node, ctor=None):
        S = ex.S
        cell = p.cell(ns.self.oid)
        if '__sym__' not in cell: return ex.opaque_call('make_readable on a non-API pair', p, node)
        if not (isinstance(ns.show, VBool) and z3.is_false(z3.simplify(ns.show.t)) and isinstance(ns.save_report, VBool) and z3.is_false(z3.simplify(ns.save_report.t))):
            return ex.opaque_call('make_readable with show/save_report', p, node)
        col, ok = MR(S, cell['__sym__'], ns.mode, ns.very_readable)
        q = p.fork(z3.Implies(pair_valid(S, cell['__sym__']), S.str_nonempty(col)))
        return [(q, VTuple([col, ok]))]
    mr.apply = mr_apply
    reg.add(mr)

    isr = Contract(f'{CO}:ColorPair.is_readable', params={}, result='str', posts={}, pure=True, raises=(),
                   assumed='is_readable is a function of the pair (check C15); its three strings: check C05')
    def isr_apply(ex, p, ns, node, ctor=None):
        cell = p.cell(ns.self.oid)
        if '__sym__' not in cell: return ex.opaque_call('is_readable on a non-API pair', p, node)
        return [(p, ISR(ex.S, cell['__sym__']))]
    isr.apply = isr_apply
    reg.add(isr)

    # ---- make_readable_bulk
    def elem(S, k):
        t, b = VStr(code=fresh(I, 'text')), VStr(code=fresh(I, 'bg'))
        l = VBool(fresh(B, 'large'))
        return [(VTuple([t, b]), []), (VTuple([t, b, l]), [])]

    def entry_ok(S, a, st, k, elem):
        """the single element appended in this iteration is ENTRY(item) from the statement of C12"""
        item = elem.xs[1]
        text, bg = item.xs[0], item.xs[1]
        large = item.xs[2] if len(item.xs) == 3 else VBool(False)
        sym = (text, bg, large)
        cell = st._path.cell(st.results.oid)
        log = cell.get('log')
        out = {'one_per_entry': S.true if log is not None and len(log) == 1 else S.false}
        if log is None or len(log) != 1 or not (isinstance(log[0], VTuple) and len(log[0].xs) == 2 and all(isinstance(x, VStr) for x in log[0].xs)):
            out['entry_is_single_pair_result'] = S.false; out['invalid_entries_kept'] = S.false
            return out
        col, status = log[0].xs
        mcol, _ = MR(S, sym, a.mode, a.very_readable)
        label = ISR(S, (mcol, bg, large))
        low = S.str_method(label, 'lower', [], st._path, None)[0][1]
        valid = pair_valid(S, sym)
        out['entry_is_single_pair_result'] = z3.Implies(valid, z3.And(col.code == mcol.code, status.code == low.code))
        out['invalid_entries_kept'] = z3.Implies(z3.Not(valid), z3.And(col.code == text.code, status.code == S.lit('invalid color').code))
        return out

    def inv(S, a, st, k):
        cell = st._path.cell(st.results.oid)
        ln = z3.IntVal(len(cell['items'])) if cell.get('items') is not None else cell['len']
        return {'one_per_entry': ln == k}

    def result_post(S, a, r, path):
        if not isinstance(r, VRef): return S.false
        cell = path.cell(r.oid); pl = path.cell(a.pairs.oid)['len']
        ln = z3.IntVal(len(cell['items'])) if cell.get('items') is not None else cell['len']
        return ln == pl

    reg.add(Contract(
        f'{BK}:make_readable_bulk',
        params={'pairs': lambda S, p, ex: _symlist(S, p), 'mode': 'int', 'very_readable': 'bool', 'save_report': 'bool'},
        pre=None, result='unk', pure=False, raises=(),
        posts={'one_result_per_entry': result_post},
        effects_only_if=lambda S, a: a.save_report,
        props={'one_result_per_entry': ['C12'], 'inv:one_per_entry': ['C12'], 'one_per_entry': ['C12'], 'entry_is_single_pair_result': ['C12', 'C15'], 'invalid_entries_kept': ['C12', 'C14'],
               'effects_only_if': ['C17']},
        loops=[LoopSpec('enumerate(pairs)', inv, elem=elem, body_post=entry_ok, shapes={'new_level': 'unk', 'original_level': 'unk', 'c_tuned': 'unk'}, pos=0,
                        roles={'appended': ['results', 'report_data'],
                               'local': ['text', 'bg', 'large', 'pair', 'tuned_color', 'success', 'original_level', 'new_level', 'new_pair', 'current_readability', 'c_tuned', 'fg_str', 'bg_str', 'tuned_fg_str']})],
    ))
