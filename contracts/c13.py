"""C13: translucent text is judged as it will be seen over its own background.

Wiring (engine A on the real ASTs): ColorPair.__init__ builds the background first and without context, the text with the
background as context; Color._parse passes the context's rgb iff it is valid; in parse_color_to_rgb every alpha branch
hands THAT background (white when there is none) to the blend; the blend functions are source-over within the stated
tolerance with the exact corner cases alpha = 0 / 1."""
import z3
from vf.contracts import Contract
from vf.values import *
from .c14 import opt_rgb8_bg, rgb8_ints

CP = 'cm_colors.core.color_parser'
CV = 'cm_colors.core.conversions'
CO = 'cm_colors.core.colors'
WHITE = (255, 255, 255)


def calls_of(path, short):
    return [t[2] for t in path.trace if isinstance(t, tuple) and len(t) == 3 and t[0] == 'call' and t[1] == short]


def is_tuple_eq(S, v, t):
    if isinstance(v, VRef): return S.false
    if not (isinstance(v, VTuple) and len(v.xs) == 3): return S.false
    return z3.And([S.i(x) == (y if isinstance(y, int) else S.i(y)) for x, y in zip(v.xs, t)])


def register_c13(reg):
    from . import c14
    c14.register_c14(reg)
    # ---- the blends on valid input
    def rgba_valid(S, p, ex):
        return VTuple([VInt(fresh(I, f'c{j}')) for j in range(3)] + [VReal(fresh(R, 'alpha'))])
    def pre_rgba(S, a):
        return z3.And(S.rgb8(VTuple(a.rgba.xs[:3])), a.rgba.xs[3].t >= 0, a.rgba.xs[3].t <= 1, S.rgb8(a.background))
    def nearest(S, a, r):
        al = a.rgba.xs[3].t
        return z3.And([z3.And(z3.ToReal(o.t) - (z3.ToReal(c.t) * al + z3.ToReal(S.i(b)) * (1 - al)) <= z3.RealVal('1/2'),
                              (z3.ToReal(c.t) * al + z3.ToReal(S.i(b)) * (1 - al)) - z3.ToReal(o.t) <= z3.RealVal('1/2')) for o, c, b in zip(r.xs, a.rgba.xs[:3], a.background.xs)])
    reg.add(Contract(f'{CV}:rgba_to_rgb#blend', params={'rgba': rgba_valid, 'background': 'rgb'}, pre=pre_rgba, result='rgb', pure=True, raises=(),
                     posts={'nearest_integer_of_source_over': nearest,
                            'alpha_1_is_the_colour': lambda S, a, r: z3.Implies(a.rgba.xs[3].t == 1, z3.And([o.t == c.t for o, c in zip(r.xs, a.rgba.xs[:3])])),
                            'alpha_0_is_the_background': lambda S, a, r: z3.Implies(a.rgba.xs[3].t == 0, z3.And([o.t == S.i(b) for o, b in zip(r.xs, a.background.xs)]))},
                     props={'nearest_integer_of_source_over': ['C13', 'C07'], 'alpha_1_is_the_colour': ['C13'], 'alpha_0_is_the_background': ['C13']}, opts={'exact_mul': True}))

    def hsla_valid(S, p, ex):
        return VTuple([VReal(fresh(R, 'h')), VReal(fresh(R, 's')), VReal(fresh(R, 'l')), VReal(fresh(R, 'alpha'))])
    def pre_hsla(S, a):
        xs = a.hsla_color.xs
        return z3.And(xs[1].t >= 0, xs[1].t <= 1, xs[2].t >= 0, xs[2].t <= 1, xs[3].t >= 0, xs[3].t <= 1)
    def hsl_result(S, path):
        """the ROUNDED HSL colour of this run: the value hsl_to_rgb returned (pure function symbol of the arguments of the recorded call)"""
        cs = calls_of(path, 'hsl_to_rgb')
        return S.pure_value('hsl_to_rgb', [cs[-1].hsl_color], 'rgb') if cs else None
    def bg_ints(S, a):
        bg = a.background
        if isinstance(bg, VOpt): return [z3.If(bg.isnone, z3.IntVal(255), x.t) for x in bg.inner.xs]
        if isinstance(bg, VNone): return [z3.IntVal(255)] * 3
        return [S.i(x) for x in bg.xs]
    def trunc_of_blend(S, a, r, path):
        hr = hsl_result(S, path)
        if hr is None or not (isinstance(r, VTuple) and len(r.xs) == 3): return S.false
        al = a.hsla_color.xs[3].t
        out = []
        for o, c, b in zip(r.xs, hr.xs, bg_ints(S, a)):
            blend = al * z3.ToReal(c.t) + (1 - al) * z3.ToReal(b)
            out.append(z3.Implies(al < 1, z3.And(z3.ToReal(S.i(o)) <= blend, blend < z3.ToReal(S.i(o)) + 1)))
        return z3.And(out)
    def alpha1(S, a, r, path):
        hr = hsl_result(S, path)
        if hr is None: return S.false
        return z3.Implies(a.hsla_color.xs[3].t == 1, z3.And([S.i(o) == c.t for o, c in zip(r.xs, hr.xs)]))
    def alpha0(S, a, r, path):
        return z3.Implies(a.hsla_color.xs[3].t == 0, z3.And([S.i(o) == b for o, b in zip(r.xs, bg_ints(S, a))]))
    reg.add(Contract(f'{CV}:hsla_to_rgb#blend', params={'hsla_color': hsla_valid, 'background': lambda S, p, ex: opt_rgb8_bg(S, p, ex)}, pre=pre_hsla, result='rgb', pure=True, raises=('ValueError',),
                     posts={'truncation_of_source_over_of_the_rounded_hsl_colour': trunc_of_blend, 'alpha_1_is_the_colour': alpha1, 'alpha_0_is_the_background_white_by_default': alpha0},
                     props={'truncation_of_source_over_of_the_rounded_hsl_colour': ['C13', 'C07'], 'alpha_1_is_the_colour': ['C13'], 'alpha_0_is_the_background_white_by_default': ['C13']}, opts={'exact_mul': True, 'feas_timeout_ms': 500}))

    # ---- parse_color_to_rgb: every alpha branch blends over the SUPPLIED background (white when none)
    def translucent(S, p, ex):
        k = fresh(I, 'spelling')
        rgba_t = VTuple([VInt(fresh(I, f'r{j}')) for j in range(3)] + [VReal(fresh(R, 'a'))])
        hsla_t = VTuple([VReal(fresh(R, f'f{j}')) for j in range(4)])
        S.fact('hsla-shape', z3.And([z3.And(x.t >= 0, x.t <= 1) for x in hsla_t.xs[:3]]))       # all three <= 1 and float-typed: the HSLA reading of a 4-tuple
        return VAny([(k == 0, rgba_t), (k == 1, hsla_t), (z3.Or(k < 0, k > 1), VStr(code=fresh(I, 'text')))])
    def supplied_bg(S, a, r, path):
        bg = a.background
        def same_as_supplied(v, white_if_none):
            """v is the tuple handed to the blend"""
            if isinstance(bg, VNone): exp_none = True
            elif isinstance(bg, VOpt): exp_none = None
            else: exp_none = False
            if isinstance(v, VNone):
                return bg.isnone if isinstance(bg, VOpt) else (S.true if isinstance(bg, VNone) else S.false)
            if not (isinstance(v, VTuple) and len(v.xs) == 3): return S.false
            if isinstance(bg, VOpt):
                return z3.If(bg.isnone, z3.And([S.i(x) == 255 for x in v.xs]) if white_if_none else S.false, z3.And([S.i(x) == y.t for x, y in zip(v.xs, bg.inner.xs)]))
            if isinstance(bg, VNone): return z3.And([S.i(x) == 255 for x in v.xs]) if white_if_none else S.false
            return z3.And([S.i(x) == S.i(y) for x, y in zip(v.xs, bg.xs)])
        out = [S.true]
        for ns in calls_of(path, 'rgba_to_rgb'): out.append(same_as_supplied(ns.background, True))
        for ns in calls_of(path, 'hsla_to_rgb'): out.append(same_as_supplied(ns.background, False))     # None is passed on: hsla_to_rgb defaults to white itself (its own obligation)
        return z3.And(out)
    def used_a_blend(S, a, r, path):
        """a translucent tuple spelling always goes through one of the two blend functions"""
        c = a.color
        if isinstance(c, VTuple) and len(c.xs) == 4:
            return S.true if (calls_of(path, 'rgba_to_rgb') or calls_of(path, 'hsla_to_rgb')) else S.false
        return S.true
    reg.add(Contract(f'{CP}:parse_color_to_rgb#wiring', params={'color': translucent, 'background': lambda S, p, ex: opt_rgb8_bg(S, p, ex)}, pre=None, result='rgb', pure=True, raises=('ValueError',),
                     posts={'blend_over_the_supplied_background': supplied_bg, 'translucent_tuples_are_blended': used_a_blend},
                     props={'blend_over_the_supplied_background': ['C13', 'C07'], 'translucent_tuples_are_blended': ['C13']}))

    # ---- Color.__init__: the parser receives the context's rgb iff the context is valid
    def ctx_param(S, p, ex):
        isn = fresh(B, 'ctx_none'); rgb = fresh_of('rgb', 'ctxrgb'); inv = fresh(B, 'ctx_invalid')
        S.fact('ctx-inv', z3.Or(inv, S.rgb8(rgb)))
        ref = VRef(p.alloc({'__class__': f'{CO}:Color', '__open__': True, '_rgb': VOpt(inv, rgb), '_error': VUnk('e'), '_format': VStr(code=fresh(I, 'f')), 'original': VUnk('o')}), f'{CO}:Color')
        return VOpt(isn, ref)
    def ctx_passed(S, a, r, path):
        cs = calls_of(path, 'parse_color_to_rgb')
        if len(cs) != 1: return S.false
        got = cs[0].background
        ctx = a.background_context
        if isinstance(ctx, VNone): return S.true if isinstance(got, VNone) else S.false
        ref = ctx.inner if isinstance(ctx, VOpt) else ctx
        crgb = path.cell(ref.oid)['_rgb']
        none_expected = z3.Or(ctx.isnone if isinstance(ctx, VOpt) else False, crgb.isnone if isinstance(crgb, VOpt) else isinstance(crgb, VNone))
        if isinstance(got, VNone): return none_expected
        if isinstance(got, VTuple):
            inner = crgb.inner if isinstance(crgb, VOpt) else crgb
            return z3.And(z3.Not(none_expected), z3.And([S.i(x) == y.t for x, y in zip(got.xs, inner.xs)]))
        return S.false
    reg.add(Contract(f'{CO}:Color.__init__#context', params={'self': ('obj', f'{CO}:Color', {}), 'color_input': 'str', 'background_context': ctx_param},
                     pre=None, result='none', pure=False, raises=(), posts={'parser_gets_the_context_rgb_iff_valid': ctx_passed}, props={'parser_gets_the_context_rgb_iff_valid': ['C13']}))


def register_c13_pair(reg):
    """ColorPair.__init__: background first and without context; text with the pair's own background as context"""
    register_c13(reg)
    col = reg.get(f'{CO}:Color.__init__')
    def ctor_apply(ex, p, ns, node, ctor=None):
        S = ex.S
        q = p.fork()
        rgb = fresh_of('rgb', 'c_rgb'); inv = fresh(B, 'c_invalid')
        q.pc = q.pc + [z3.Or(inv, S.rgb8(rgb))]
        ref = VRef(q.alloc({'__class__': f'{CO}:Color', '__open__': True, '_rgb': VOpt(inv, rgb), '_error': VUnk('err'), '_format': VStr(code=fresh(I, 'c_fmt')),
                            'original': ns.color_input, 'background_context': ns.background_context}), f'{CO}:Color')
        q.trace = q.trace + (('call', 'Color', (ns.color_input, ns.background_context, ref)),)
        return [(q, ref)]
    col.apply = ctor_apply
    def wiring(S, a, r, path):
        cs = calls_of(path, 'Color')
        cell = path.cell(a.self.oid)
        if len(cs) != 2 or not isinstance(cell.get('bg'), VRef) or not isinstance(cell.get('text'), VRef): return S.false
        (in1, ctx1, ref1), (in2, ctx2, ref2) = cs
        ok = in1 is a.bg_color and isinstance(ctx1, VNone) and ref1.oid == cell['bg'].oid and in2 is a.text_color and isinstance(ctx2, VRef) and ctx2.oid == cell['bg'].oid and ref2.oid == cell['text'].oid
        return S.true if ok else S.false
    reg.add(Contract(f'{CO}:ColorPair.__init__#wiring', params={'self': ('obj', f'{CO}:ColorPair', {}), 'text_color': 'str', 'bg_color': 'str', 'large_text': 'bool'},
                     pre=None, result='none', pure=False, raises=(), posts={'background_first_text_over_it': wiring}, props={'background_first_text_over_it': ['C13']}))
