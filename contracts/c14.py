"""C14: invalid colour input is reported, never raised.  Contracts VERIFIED by engine A on the real ASTs of the
parser stack, over the property's input domain: any str, or a tuple/list of any length 0..5 whose elements are drawn
from {int of moderate magnitude, bool, finite float, nan, +inf, -inf, str, None} (symbolic tag, resolved by path split).

raises ⊆ {ValueError} on every function of the stack; every ValueError constructed in the library has a non-empty
message; results are int triples in 0..255; Color.__init__ raises nothing and establishes the class invariant."""
import z3
from vf.contracts import Contract
from vf.values import *

CP = 'cm_colors.core.color_parser'
CV = 'cm_colors.core.conversions'
CO = 'cm_colors.core.colors'


def container(S, p, ex, name, lens, with_str=True, elem=any_element):
    """a str, or a tuple / list of one of the given lengths with arbitrary elements of the C14 domain"""
    k = fresh(I, name + '_kind')
    alts = []
    i = 0
    if with_str:
        alts.append((k == i, VStr(code=fresh(I, name + '_text')))); i += 1
    for n in lens:
        alts.append((k == i, VTuple([elem(f'{name}{n}t{j}', S=S) for j in range(n)]))); i += 1
        alts.append((k == i, ex.new_list(p, [elem(f'{name}{n}l{j}', S=S) for j in range(n)]))); i += 1
    alts[-1] = (z3.Or(k < 0, k >= i - 1), alts[-1][1])
    return VAny(alts)


def opt_rgb8_bg(S, p, ex, name='bg'):
    t = fresh_of('rgb', name); isn = fresh(B, name + '_none')
    S.fact(f'{name}-rgb8', z3.Or(isn, S.rgb8(t)))
    return VOpt(isn, t)


def int8(S, x):
    """x is a Python int (not bool) in 0..255; alternatives are judged one by one under their guards"""
    if isinstance(x, VInt): return z3.And(x.t >= 0, x.t <= 255)
    if isinstance(x, VAny): return z3.And([z3.Implies(c, int8(S, v)) for c, v in x.alts])
    return S.false


def rgb8_ints(S, a, r):
    if isinstance(r, VAny): return z3.And([z3.Implies(c, rgb8_ints(S, a, v)) for c, v in r.alts])
    return z3.And([int8(S, x) for x in r.xs]) if isinstance(r, VTuple) and len(r.xs) == 3 else S.false


PROPS = {'rgb8_ints': ['C14', 'C07', 'C13'], 'error_message_nonempty': ['C14'], 'int3_identity': ['C07', 'C01', 'C13']}


def register_c14(reg):
    reg.mark_inline(f'{CV}:_parse_hue', f'{CV}:_parse_hsl_percentage_or_decimal', f'{CV}:_parse_rgb_component')
    # ---- leaf helpers
    reg.add(Contract(f'{CP}:_parse_number_token', params={'tok': 'str', 'component': 'bool'}, pre=None, result='real', pure=True, raises=('ValueError',),
                     posts={'range': lambda S, a, r: S.If(a.component, S.And(S.ge(r, 0), S.le(r, 255)), S.And(S.ge(r, 0), S.le(r, 1))) if isinstance(r, VReal) else S.false},
                     props={'range': ['C14', 'C07', 'C13'], 'error_message_nonempty': ['C14']}))
    c = Contract(f'{CP}:_extract_number_tokens', params={'s': 'str'}, pre=None, result='unk', pure=False, raises=(), posts={'is_list': lambda S, a, r: S.true if isinstance(r, VRef) and r.cls == 'list' else S.false},
                 props={'is_list': ['C14']})
    def tokens_apply(ex, p, ns, node, ctor=None):
        q = p.fork(); return [(q, ex.new_symlist(q, 'tokens'))]
    c.apply = tokens_apply
    reg.add(c)
    def hex_post(S, a, r):
        if isinstance(r, VStr): return S.true           # string=True: the CSS rgb() spelling (not used by the parser)
        return rgb8_ints(S, a, r)
    reg.add(Contract(f'{CV}:hex_to_rgb', params={'hex_str': 'str', 'string': 'bool'}, pre=None, result='rgb', pure=True, raises=('ValueError',),
                     posts={'rgb8_ints': hex_post}, props={'rgb8_ints': ['C14', 'C07'], 'error_message_nonempty': ['C14']},
                     note='uses the finite-table lemma: int(two hex digits, 16) is in 0..255 and does not raise (engine D, all 22^2 digit pairs, checks C07/C14)'))

    # ---- conversions with alpha / hsl
    reg.add(Contract(f'{CV}:rgba_to_rgb', params={'rgba': lambda S, p, ex: container(S, p, ex, 'rgba', (3, 4, 5), with_str=True), 'background': lambda S, p, ex: container(S, p, ex, 'rbg', (2, 3), with_str=False)},
                     pre=None, result='rgb', pure=True, raises=('ValueError',), posts={'rgb8_ints': rgb8_ints}, props=PROPS, ))
    # the local interpolation helper f(p, q, t) of hsl_to_rgb: always between p and q (a convex combination) - also for a nan hue
    def between(S, a, r):
        lo = z3.If(S.r(a.p) <= S.r(a.q), S.r(a.p), S.r(a.q)); hi = z3.If(S.r(a.p) <= S.r(a.q), S.r(a.q), S.r(a.p))
        return z3.And(S.r(r) >= lo, S.r(r) <= hi) if isinstance(r, VReal) else S.false
    def hue_t(S, p, ex):
        k = fresh(I, 'tkind'); return VAny([(k == 0, VSpec('nan')), (k != 0, VReal(fresh(R, 't')))])
    def t_pre(S, a):
        t = a.t
        def ok(v): return S.true if isinstance(v, VSpec) and v.kind == 'nan' else (z3.And(v.t >= -1, v.t <= 2) if isinstance(v, VReal) else S.false)
        if isinstance(t, VAny): return z3.And([z3.Implies(c, ok(v)) for c, v in t.alts])
        return ok(t)
    reg.add(Contract(f'{CV}:hsl_to_rgb.<locals>.f', params={'p': 'real', 'q': 'real', 't': hue_t}, pre=t_pre, result='real', pure=True, raises=(),
                     posts={'between_p_and_q': between}, props={'between_p_and_q': ['C14', 'C07']}, opts={'exact_mul': True}))
    # hsl_to_rgb is verified in two parts: (1) on the FULL input domain: raises only ValueError, returns three Python ints
    # (type structure; multiplication abstract); (2) the numeric range 0..255: everything after the validation statement sees
    # only (h, s, l) = (a float in [0,360) or nan, a float in [0,1], a float in [0,1]) however the input was spelled, so the
    # range is proved on the domain {any str, any triple of floats} with EXACT non-linear real arithmetic (z3 nlsat).
    def ints3(S, a, r):
        if isinstance(r, VAny): return z3.And([z3.Implies(c, ints3(S, a, v)) for c, v in r.alts])
        def isint(x): return S.true if isinstance(x, VInt) else (z3.And([z3.Implies(c, isint(v)) for c, v in x.alts]) if isinstance(x, VAny) else S.false)
        return z3.And([isint(x) for x in r.xs]) if isinstance(r, VTuple) and len(r.xs) == 3 else S.false
    reg.add(Contract(f'{CV}:hsl_to_rgb#structure', params={'hsl_color': lambda S, p, ex: container(S, p, ex, 'hsl', (2, 3, 4))},
                     pre=None, result='rgb', pure=True, raises=('ValueError',), posts={'three_ints': ints3}, props={'three_ints': ['C14', 'C07'], 'error_message_nonempty': ['C14']}))
    def float_triple(S, p, ex):
        k = fresh(I, 'hslkind')
        return VAny([(k == 0, VStr(code=fresh(I, 'hsltext'))), (k != 0, VTuple([VReal(fresh(R, f'hsl{j}')) for j in range(3)]))])
    reg.add(Contract(f'{CV}:hsl_to_rgb', params={'hsl_color': float_triple},
                     pre=None, result='rgb', pure=True, raises=('ValueError',), posts={'rgb8_ints': rgb8_ints}, props=PROPS, opts={'exact_mul': True, 'feas_timeout_ms': 300}))
    reg.add(Contract(f'{CV}:hsla_to_rgb', params={'hsla_color': lambda S, p, ex: container(S, p, ex, 'hsla', (3, 4, 5)), 'background': lambda S, p, ex: opt_rgb8_bg(S, p, ex)},
                     pre=None, result='rgb', pure=True, raises=('ValueError',), posts={'rgb8_ints': rgb8_ints}, props=PROPS))

    # ---- the parser
    def identity(S, a, r):
        c = a.color
        items = c.xs if isinstance(c, VTuple) else (a._path.cell(c.oid).get('items') if isinstance(c, VRef) and c.cls == 'list' else None)
        if items is None or len(items) != 3 or not all(isinstance(x, VInt) for x in items) or not (isinstance(r, VTuple) and len(r.xs) == 3): return S.true
        ok = z3.And([z3.And(x.t >= 0, x.t <= 255) for x in items])
        return z3.Implies(ok, z3.And([S.i(x) == y.t for x, y in zip(r.xs, items)]))
    def no_raise_for_int3(S, a):
        c = a.color
        items = c.xs if isinstance(c, VTuple) else (a._path.cell(c.oid).get('items') if isinstance(c, VRef) and c.cls == 'list' else None)
        if items is None or len(items) != 3 or not all(isinstance(x, VInt) for x in items): return S.true
        return z3.Not(z3.And([z3.And(x.t >= 0, x.t <= 255) for x in items]))
    reg.add(Contract(f'{CP}:parse_color_to_rgb', params={'color': lambda S, p, ex: container(S, p, ex, 'color', (0, 1, 2, 3, 4, 5)), 'background': lambda S, p, ex: opt_rgb8_bg(S, p, ex)},
                     pre=None, result='rgb', pure=True, raises=('ValueError',), posts={'rgb8_ints': rgb8_ints, 'int3_identity': identity},
                     exc_posts={'ValueError': no_raise_for_int3}, props=PROPS))
    def tuple_tags(S, a, r):
        c = a.color
        items = c.xs if isinstance(c, VTuple) else (a._path.cell(c.oid).get('items') if isinstance(c, VRef) and c.cls == 'list' else None)
        if items is None or not isinstance(r, VStr): return S.true
        want = {3: 'rgb_tuple', 4: 'rgba_tuple'}.get(len(items), 'unknown')
        return S.str_eq(r, S.lit(want))
    reg.add(Contract(f'{CP}:detect_color_format', params={'color': lambda S, p, ex: container(S, p, ex, 'color', (0, 1, 2, 3, 4, 5))}, pre=None, result='str', pure=True, raises=(),
                     posts={'is_str': lambda S, a, r: S.true if isinstance(r, VStr) else S.false, 'tuple_tags': tuple_tags}, props={'is_str': ['C14', 'C06'], 'tuple_tags': ['C06']}))

    # ---- Color / ColorPair constructors
    COLOR_FIELDS = {'original': 'unk', 'background_context': 'unk', '_rgb': ('opt', 'rgb'), '_error': 'unk', '_parsed': 'bool', '_format': 'str'}
    def ctx_param(S, p, ex):
        """None, or a Color object that satisfies the class invariant (valid or invalid)"""
        isn = fresh(B, 'ctx_none')
        rgb = fresh_of('rgb', 'ctxrgb'); inv = fresh(B, 'ctx_invalid')
        S.fact('ctx-inv', z3.Or(inv, S.rgb8(rgb)))
        ref = VRef(p.alloc({'__class__': f'{CO}:Color', '__open__': True, '_rgb': VOpt(inv, rgb), '_error': VUnk('e'), '_format': VStr(code=fresh(I, 'f')), 'original': VUnk('o')}), f'{CO}:Color')
        return VOpt(isn, ref)
    def color_inv(S, a, r, path):
        cell = path.cell(a.self.oid)
        rgb, err = cell.get('_rgb'), cell.get('_error')
        if isinstance(rgb, VNone):
            return S.And(S.true if isinstance(err, VStr) else S.false, S.str_nonempty(err) if isinstance(err, VStr) else S.false)
        if isinstance(rgb, VTuple):
            return S.And(rgb8_ints(S, a, rgb), S.true if isinstance(err, VNone) else S.false)
        return S.false
    reg.add(Contract(f'{CO}:Color.__init__', params={'self': ('obj', f'{CO}:Color', {}), 'color_input': lambda S, p, ex: container(S, p, ex, 'input', (0, 1, 2, 3, 4, 5)), 'background_context': ctx_param},
                     pre=None, result='none', pure=False, raises=(), posts={'valid_xor_error': color_inv}, props={'valid_xor_error': ['C14'], 'error_message_nonempty': ['C14']}))


def register_c14_pair(reg):
    """ColorPair.__init__ over the same input domain, using Color.__init__'s verified contract at its two call sites"""
    col = reg.get(f'{CO}:Color.__init__')
    def ctor_apply(ex, p, ns, node, ctor=None):
        S = ex.S
        q = p.fork()
        rgb = fresh_of('rgb', 'c_rgb'); inv = fresh(B, 'c_invalid')
        q.pc = q.pc + [z3.Or(inv, S.rgb8(rgb))]
        err = VAny([(inv, VStr(code=fresh(I, 'c_err'), sym=('excmsg', None))), (z3.Not(inv), NONE)])
        ref = VRef(q.alloc({'__class__': f'{CO}:Color', '__open__': True, '_rgb': VOpt(inv, rgb), '_error': err, '_format': VStr(code=fresh(I, 'c_fmt')),
                            'original': ns.color_input, 'background_context': ns.background_context, '_parsed': VBool(True)}), f'{CO}:Color')
        return [(q, ref)]
    col.apply = ctor_apply
    def pair_inv(S, a, r, path):
        cell = path.cell(a.self.oid)
        ok = S.true
        for f in ('text', 'bg'):
            c = cell.get(f)
            if not isinstance(c, VRef): return S.false
            rgb = path.cell(c.oid).get('_rgb')
            ok = z3.And(ok, S.opt_rgb8(rgb) if isinstance(rgb, (VOpt, VNone, VTuple)) else S.false)
        return ok
    reg.add(Contract(f'{CO}:ColorPair.__init__', params={'self': ('obj', f'{CO}:ColorPair', {}), 'text_color': lambda S, p, ex: container(S, p, ex, 'text', (0, 1, 2, 3, 4, 5)),
                                                         'bg_color': lambda S, p, ex: container(S, p, ex, 'bgc', (0, 1, 2, 3, 4, 5)), 'large_text': 'bool'},
                     pre=None, result='none', pure=False, raises=(), posts={'both_colours_satisfy_the_invariant': pair_inv}, props={'both_colours_satisfy_the_invariant': ['C14']}))
