"""C08: the per-rule accounting of the CLI, on the real statement block of process_nodes_recursive that handles a rule with a
text colour (extracted mechanically on every run: vf/extract.py; what the extraction drops is listed there).

The callees are the Python API *as the CLI sees it*, as function symbols of the CSS strings (same style as contracts/bulk.py):

    BG_invalid(bg), BGRGB_i(bg)                     Color(bg)                    - the background parsed on its own
    TX_invalid(text, bg), TXRGB_i(text, bg)         Color(text, context=bg)      - the text parsed against that background
    MR_colour(text, bg, large, mode, very), MR_success(...)                       ColorPair(text, bg, large).make_readable(mode, very)

with the facts the library's own (proved) contracts give for a valid pair: the returned colour is a non-empty string that the
library reads as a valid colour against the same background (C01 valid, C06 round trip), and success <=> that colour reaches
MIN(large, very) against the background (C01 flag_iff).  tinycss2-facing helpers are ASSUMED total (listed in the evidence).

Postconditions are the per-rule clauses of C08: exactly one of the three counters goes up by one; `readable` only when the
ratio of the pair reaches 7.0 / 4.5; `adjusted` only on success of make_readable(mode, premium) for THIS pair, the colour
written (into the rule's own declaration or into the referenced custom property) and the colour reported being exactly the
API's colour; `needs attention`: listed with the rule's selector, nothing written.
"""
import ast
import z3
from vf.contracts import Contract, LoopSpec
from vf.values import *
from vf import symex as sx

CLI = 'cm_colors.cli.main'
CO = 'cm_colors.core.colors'
Q = f'{CLI}:process_nodes_recursive__coloured_rule'
DECL = ('obj', 'tinycss2.ast:Declaration', {})


def _c(v):
    if isinstance(v, VStr): return v.code
    raise TypeError(f'CSS string expected, got {v!r}')


def bg_invalid(S, b): return S.app('BG_invalid', [_c(b)], B)
def bg_rgb(S, b): return VTuple([VInt(S.app(f'BGRGB{i}', [_c(b)], I)) for i in range(3)])
def tx_invalid(S, t, b): return S.app('TX_invalid', [_c(t), _c(b)], B)
def tx_rgb(S, t, b): return VTuple([VInt(S.app(f'TXRGB{i}', [_c(t), _c(b)], I)) for i in range(3)])
def pair_valid(S, t, b): return z3.And(z3.Not(tx_invalid(S, t, b)), z3.Not(bg_invalid(S, b)))
def _flag(x): return z3.If(x, z3.IntVal(1), z3.IntVal(0))
def mr_args(S, t, b, large, mode, very): return [_c(t), _c(b), _flag(S.b(large)), S.i(mode), _flag(S.b(very))]
def MR(S, t, b, large, mode, very):
    a = mr_args(S, t, b, large, mode, very)
    return VStr(code=S.app('MR_colour', a, I)), VBool(S.app('MR_success', a, B))


def register_c08(reg):
    # ------------------------------------------------------------------ tinycss2-facing helpers (assumed total)
    reg.add(Contract(f'{CLI}:extract_color_from_decl', params={'decl': DECL}, result='str', posts={}, pure=False, raises=(),
                     assumed='tinycss2.serialize(decl.value).strip() of a parsed declaration is a str and does not raise (tinycss2 trusted)'))
    reg.add(Contract(f'{CLI}:serialize_prelude', params={'prelude': 'unk'}, result='str', posts={}, pure=False, raises=(),
                     assumed='tinycss2.serialize(prelude).strip() of a parsed prelude is a str and does not raise (tinycss2 trusted)'))
    # resolve_variable is VERIFIED (engine A), no longer assumed: on a str and the map main() builds it returns a str or None and never raises,
    # for every depth of the recursion (the recursive calls are checked against this same contract: partial correctness, termination not proved)
    def rv_variables(S, p, ex):
        def mkval(ex2, q):
            return ex2.new_dict(q, {'decl': VRef(q.alloc({'__class__': 'tinycss2.ast:Declaration', '__open__': True}), 'tinycss2.ast:Declaration'), 'value': VStr(code=fresh(I, 'varvalue'))})
        return VRef(p.alloc({'map': {}, 'open': True, 'mkval': mkval}), 'dict')
    def rv_visited(S, p, ex):
        return VOpt(fresh(B, 'visited_isnone'), VRef(p.alloc({'open': True}), 'set'))
    def rv_pre(S, a):
        ok = isinstance(a.value_str, VStr) and (isinstance(a.visited, (VNone, VOpt)) or (isinstance(a.visited, VRef) and a.visited.cls == 'set')) \
             and isinstance(a.variables, VRef) and a.variables.cls == 'dict'
        return S.true if ok else S.false
    reg.add(Contract(f'{CLI}:resolve_variable', params={'value_str': 'str', 'variables': rv_variables, 'visited': rv_visited}, pre=rv_pre, result=['str', 'none'],
                     posts={'result_is_str_or_none': lambda S, a, r: S.true if isinstance(r, (VStr, VNone)) else S.false}, pure=False, raises=(),
                     opts={'match_objects': True}, props={'*': ['C08']}))
    reg.add(Contract(f'{CLI}:update_decl_value', params={'decl': 'unk', 'new_value_str': 'str'},
                     pre=lambda S, a: S.true if isinstance(a.new_value_str, VStr) else S.false,          # tinycss2.parse_component_value_list wants text
                     result='none', posts={}, pure=False, raises=(), effects=('decl_write',),
                     assumed='tinycss2.parse_component_value_list(str) does not raise; assigning decl.value is the only effect'))

    # ------------------------------------------------------------------ the Python API as functions of the CSS strings
    ctor = Contract(f'{CO}:ColorPair.__init__', params={}, result='unk', posts={}, pure=True, raises=(),
                    assumed='ColorPair(text, bg) on two strings: a deterministic, effect-free function of them (check C15) that never raises (check C14); text is read against bg, bg on its own')
    def ctor_apply(ex, p, ns, node, ctor=None):
        S = ex.S
        t, b, large = ns.text_color, ns.bg_color, ns.large_text
        if not (isinstance(t, VStr) and isinstance(b, VStr) and isinstance(large, VBool)): return ex.opaque_call('ColorPair(non-string input)', p, node)
        q = p.fork()
        q.trace = q.trace + (('call', 'ColorPair', ns),)
        def color(isn, rgb, orig):
            q.pc = q.pc + [z3.Or(isn, S.rgb8(rgb))]
            err = VAny([(isn, VStr(code=fresh(I, 'err'), sym=('excmsg', None))), (z3.Not(isn), NONE)])
            return VRef(q.alloc({'__class__': f'{CO}:Color', '__open__': True, '_rgb': VOpt(isn, rgb), 'original': orig, '_error': err, '_format': VStr(code=fresh(I, 'fmt'))}), f'{CO}:Color')
        ref = VRef(q.alloc({'__class__': f'{CO}:ColorPair', '__api__': (t, b, large), 'text': color(tx_invalid(S, t, b), tx_rgb(S, t, b), t), 'bg': color(bg_invalid(S, b), bg_rgb(S, b), b), 'large': large}), f'{CO}:ColorPair')
        return [(q, ref)]
    ctor.apply = ctor_apply
    reg.add(ctor)

    mr = Contract(f'{CO}:ColorPair.make_readable', params={}, result='unk', posts={}, pure=True, raises=(),
                  assumed=('make_readable(mode, very_readable) on a valid pair of strings returns (non-empty str, bool): the str is a colour the library itself reads as valid against the same '
                           'background (checks C01 valid, C06), the flag is True exactly when that colour reaches MIN(large, very_readable) against the background (check C01 flag_iff); '
                           'deterministic and silent without show/save_report (checks C15, C17)'))
    def mr_apply(ex, p, ns, node, ctor=None):
        S = ex.S
        cell = p.cell(ns.self.oid)
        if '__api__' not in cell: return ex.opaque_call('make_readable on a non-API pair', p, node)
        for f in (ns.show, ns.save_report):
            if not (isinstance(f, VBool) and z3.is_false(z3.simplify(f.t))): return ex.opaque_call('make_readable with show/save_report', p, node)
        t, b, large = cell['__api__']
        col, ok = MR(S, t, b, large, ns.mode, ns.very_readable)
        v = pair_valid(S, t, b)
        q = p.fork(z3.Implies(v, z3.And(S.str_nonempty(col), z3.Not(tx_invalid(S, col, b)),
                                        ok.t == (S.CR(tx_rgb(S, col, b), bg_rgb(S, b)) >= S.MIN(large, ns.very_readable)))))
        q.trace = q.trace + (('call', 'make_readable', ns),)
        return [(q, VTuple([col, ok]))]
    mr.apply = mr_apply
    reg.add(mr)
    reg.mark_inline(f'{CO}:ColorPair.errors')

    # ------------------------------------------------------------------ the block under contract
    def stats_param(S, p, ex):
        mp = {k: VInt(fresh(I, k + '0')) for k in ('accessible', 'tuned', 'failed')}
        mp['failed_details'] = ex.new_list(p, []); mp['fixed_details'] = ex.new_list(p, [])
        return ex.new_dict(p, mp)
    def variables_param(S, p, ex):
        # the map main() builds: unknown keys; every value is a dict {'decl': Declaration, 'value': str, ...} (dict literal at the only place entries are created)
        def mkval(ex2, q):
            return ex2.new_dict(q, {'decl': VRef(q.alloc({'__class__': 'tinycss2.ast:Declaration', '__open__': True}), 'tinycss2.ast:Declaration'), 'value': VStr(code=fresh(I, 'varvalue'))})
        return VRef(p.alloc({'map': {}, 'open': True, 'mkval': mkval}), 'dict')
    def setup(S, a, p, ex):
        S.__dict__['_c08_init'] = dict(p.cell(a.stats.oid)['map'])

    def final(S, a, path):
        m0 = S._c08_init; m1 = path.cell(a.stats.oid)['map']
        d = {k: num(m1[k]) - num(m0[k]) for k in ('accessible', 'tuned', 'failed')}
        failed_log = path.cell(m1['failed_details'].oid).get('items') if isinstance(m1['failed_details'], VRef) else None
        fixed_log = path.cell(m1['fixed_details'].oid).get('items') if isinstance(m1['fixed_details'], VRef) else None
        calls = [t for t in path.trace if isinstance(t, tuple) and len(t) == 3 and t[0] == 'call']
        pairs = [ns for _, nm, ns in calls if nm == 'ColorPair']
        mrs = [ns for _, nm, ns in calls if nm == 'make_readable']
        writes = [ns for _, nm, ns in calls if nm == 'update_decl_value']
        return d, failed_log, fixed_log, pairs, mrs, writes

    def entry_field(path, log, key):
        """the value stored under `key` in the single dict appended to a details list (None if the shape differs)"""
        if log is None or len(log) != 1 or not isinstance(log[0], VRef) or log[0].cls != 'dict': return None
        return path.cell(log[0].oid).get('map', {}).get(key)

    def exactly_one(S, a, r, path):
        d, *_ = final(S, a, path)
        return z3.And(d['accessible'] >= 0, d['tuned'] >= 0, d['failed'] >= 0, d['accessible'] + d['tuned'] + d['failed'] == 1)

    def readable_means_target(S, a, r, path):
        d, fl, xl, pairs, mrs, writes = final(S, a, path)
        if not pairs: return d['accessible'] == 0
        ns = pairs[0]; t, b = ns.text_color, ns.bg_color
        tgt = z3.If(a.premium.t, z3.RealVal(7), z3.RealVal('4.5'))
        return z3.Implies(d['accessible'] == 1, z3.And(pair_valid(S, t, b), S.CR(tx_rgb(S, t, b), bg_rgb(S, b)) >= tgt))

    def adjusted_is_api_success(S, a, r, path):
        d, fl, xl, pairs, mrs, writes = final(S, a, path)
        if not pairs or not mrs: return d['tuned'] == 0
        ns = pairs[0]; t, b = ns.text_color, ns.bg_color
        m = mrs[0]
        col, ok = MR(S, t, b, VBool(False), a.mode, a.premium)
        same_call = z3.And(S.i(m.mode) == S.i(a.mode), S.b(m.very_readable) == a.premium.t, S.true if m.self is not None and path.cell(m.self.oid).get('__api__', (None,))[0] is t else S.false)
        tgt = z3.If(a.premium.t, z3.RealVal(7), z3.RealVal('4.5'))
        return z3.Implies(d['tuned'] == 1, z3.And(pair_valid(S, t, b), same_call, ok.t, S.CR(tx_rgb(S, col, b), bg_rgb(S, b)) >= tgt))

    def adjusted_written_and_reported(S, a, r, path):
        d, fl, xl, pairs, mrs, writes = final(S, a, path)
        if not pairs: return d['tuned'] == 0
        ns = pairs[0]; t, b = ns.text_color, ns.bg_color
        col, ok = MR(S, t, b, VBool(False), a.mode, a.premium)
        rep = entry_field(path, xl, 'tuned_text'); sel = entry_field(path, xl, 'selector')
        one_write = len(writes) == 1 and isinstance(writes[0].new_value_str, VStr)
        good = z3.And(S.true if one_write else S.false, writes[0].new_value_str.code == col.code if one_write else S.false,
                      (rep.code == col.code) if isinstance(rep, VStr) else S.false, S.true if isinstance(sel, VStr) else S.false)
        return z3.Implies(d['tuned'] == 1, good)

    def attention_listed_untouched(S, a, r, path):
        d, fl, xl, pairs, mrs, writes = final(S, a, path)
        sel = entry_field(path, fl, 'selector')
        return z3.Implies(d['failed'] == 1, z3.And(S.true if not writes else S.false, S.true if isinstance(sel, VStr) else S.false, S.true if (xl is not None and len(xl) == 0) else S.false))

    def readable_untouched(S, a, r, path):
        d, fl, xl, pairs, mrs, writes = final(S, a, path)
        return z3.Implies(d['accessible'] == 1, z3.And(S.true if not writes else S.false, S.true if (xl is not None and len(xl) == 0 and fl is not None and len(fl) == 0) else S.false))

    reg.add(Contract(
        Q, params={'node_list': 'unk', 'declarations_map': 'unk', 'color_decl': DECL, 'bg_decl': ('opt', DECL), 'default_bg': 'str', 'variables': variables_param, 'node': ('obj', 'tinycss2.ast:QualifiedRule', {}),
                   'stats': stats_param, 'premium': 'bool', 'file_path': ('obj', 'pathlib:Path', {'name': 'str'}), 'mode': 'int', 'modified': 'bool'},
        pre=None, setup=setup, result='unk', pure=False, raises=(),
        posts={'counted_exactly_once': exactly_one, 'readable_means_target': readable_means_target, 'adjusted_is_api_success': adjusted_is_api_success,
               'adjusted_written_and_reported': adjusted_written_and_reported, 'attention_listed_untouched': attention_listed_untouched, 'readable_untouched': readable_untouched},
        props={k: (['C08', 'C09'] if k in ('adjusted_written_and_reported', 'attention_listed_untouched', 'readable_untouched') else ['C08'])
               for k in ('counted_exactly_once', 'readable_means_target', 'adjusted_is_api_success', 'adjusted_written_and_reported', 'attention_listed_untouched', 'readable_untouched')}
              | {'pre:update_decl_value': ['C08'], 'pre:get_wcag_level': ['C08'], 'pre:calculate_contrast_ratio': ['C08']},
        opts={'match_objects': True, 'local_roles': ['color_decl', 'bg_decl', 'node', 'modified'],
              # role 1 is the name the block's own `if` tests (the rule's text-colour declaration), role 4 the flag the block returns
              'role_check': lambda fn, al: isinstance(fn.body[0], ast.If) and isinstance(fn.body[0].test, ast.Name) and fn.body[0].test.id == al['color_decl']
                                           and isinstance(fn.body[-1], ast.Return) and ast.unparse(fn.body[-1].value) == f"({al['modified']},)"},
        note='extracted block: see vf/extract.py; the four outer locals the block reads are named by role (order of first use)'))


    # ------------------------------------------------------------------ the at-rule block: descent into @media / @supports
    QA = f'{CLI}:process_nodes_recursive__at_rule'
    reg.add(Contract(f'{CLI}:process_nodes_recursive', params={}, result='none', posts={}, pure=False, raises=('Exception?',),
                     assumed='the recursive call: same function, one nesting level down (its own block proofs apply to every level); may raise whatever tinycss2 raises'))
    def at_param(S, p, ex):
        return VRef(p.alloc({'__class__': 'tinycss2.ast:AtRule', '__open__': True, 'lower_at_keyword': VStr(code=fresh(I, 'at_keyword')), 'content': VUnk('at-rule content')}), 'tinycss2.ast:AtRule')
    def descends(S, a, path): return z3.Or(a.node_kw.code == S.lit('media').code, a.node_kw.code == S.lit('supports').code)
    def setup_at(S, a, p, ex):
        S.__dict__['_c08_at'] = {'kw': p.cell(a.node.oid)['lower_at_keyword'], 'content': p.cell(a.node.oid)['content']}
    def calls_of(path):
        return [ns for t in path.trace if isinstance(t, tuple) and len(t) == 3 and t[0] == 'call' and t[1] == 'process_nodes_recursive' for ns in [t[2]]]
    def same(x, y):
        if isinstance(x, VRef) and isinstance(y, VRef): return x.oid == y.oid
        if isinstance(x, VStr) and isinstance(y, VStr): return x.code.eq(y.code)
        if isinstance(x, (VInt, VBool)) and isinstance(y, (VInt, VBool)): return x.t.eq(y.t)
        return x is y
    def settings_forwarded(S, a, r, path):
        cs = calls_of(path)
        ok = all(same(c.default_bg, a.default_bg) and same(c.stats, a.stats) and same(c.file_path, a.file_path) and same(c.variables, a.variables) and same(c.mode, a.mode) and same(c.premium, a.premium)
                 and isinstance(c.declarations_map, VNone) for c in cs)
        return S.true if ok else S.false
    def descends_exactly_when_media_or_supports(S, a, r, path):
        kw = S._c08_at['kw']
        is_ms = z3.Or(kw.code == S.lit('media').code, kw.code == S.lit('supports').code)
        n = len(calls_of(path))
        if n > 1: return S.false
        return z3.Implies(S.true if n == 1 else S.false, is_ms) if n == 1 else S.true      # (a content-less at-rule has nothing to descend into)
    def rebuilt_after_descent(S, a, r, path):
        # after a descent the at-rule's content is re-serialised from the processed nested rules (never left as parsed before)
        n = len(calls_of(path))
        final_content = path.cell(a.node.oid)['content']
        changed = final_content is not S._c08_at['content']
        effs = [t[1] for t in path.trace if isinstance(t, tuple) and len(t) == 3 and t[0] == 'effect']
        after = any(e.endswith('tinycss2.serialize') for e in effs) and any(e.endswith('tinycss2.parse_component_value_list') for e in effs)
        if n == 1: return S.true if (changed and after) else S.false
        return S.true if not changed else S.false
    reg.add(Contract(
        QA, params={'node_list': 'unk', 'declarations_map': 'unk', 'node': at_param, 'default_bg': 'str', 'stats': stats_param, 'file_path': ('obj', 'pathlib:Path', {'name': 'str'}), 'variables': variables_param, 'mode': 'int', 'premium': 'bool'},
        pre=None, setup=setup_at, result='unk', pure=False, raises=('Exception?',),
        posts={'settings_forwarded': settings_forwarded, 'descends_only_into_media_or_supports': descends_exactly_when_media_or_supports, 'rebuilt_after_descent': rebuilt_after_descent},
        props={k: ['C08', 'C09'] for k in ('settings_forwarded', 'descends_only_into_media_or_supports', 'rebuilt_after_descent')},
        opts={'local_roles': ['node']},
        note='extracted block: see vf/extract.py'))


    # ------------------------------------------------------------------ the declaration scan: "the last `color` / `background-color` declaration wins" (CSS), for lists of any length
    QS = f'{CLI}:process_nodes_recursive__decl_scan'
    DOBJ = ('obj', 'tinycss2.ast:Declaration', {'idx': 'int', 'name': 'str'})
    def NAME(S, lst, i): return S.app('DECL_NAME', [lst, i], I)                       # code of the name of the i-th declaration of the list
    def LAST(S, lst, lit, k):
        """spec function: index of the last declaration among the first k whose name is `lit`, -1 if none.
        Defined by recursion on k; the two defining equations are instantiated where the loop needs them."""
        f = S.fn('LAST_' + lit.replace('-', '_'), [I, I], I)
        return f(lst, k)
    def last_axioms(S, lst, lit, k):
        code = S.lit(lit).code
        S.fact(f'last0-{lit}-{lst}', LAST(S, lst, lit, z3.IntVal(0)) == -1)
        S.fact(f'laststep-{lit}-{lst}-{k}', LAST(S, lst, lit, k + 1) == z3.If(NAME(S, lst, k) == code, k, LAST(S, lst, lit, k)))
    def decls_param(S, p, ex):
        L = fresh(I, 'ndecls'); S.fact('ndecls>=0', L >= 0)
        return VRef(p.alloc({'len': L, 'objlist': True, 'id': fresh(I, 'decl_list')}), 'list')
    def scan_elem(S, k, ex, cell, path):
        # the k-th element: an opaque Declaration whose `name` is DECL_NAME(list, k); `idx` is a ghost field remembering which element it is
        ref = VRef(path.alloc({'__class__': 'tinycss2.ast:Declaration', '__open__': True, 'idx': VInt(k), 'name': VStr(code=NAME(S, cell['id'], k))}), 'tinycss2.ast:Declaration')
        return ref, []
    def is_last(S, path, v, lst, lit, k):
        """v (None or a Declaration with ghost idx) is exactly the last declaration named `lit` among the first k"""
        last = LAST(S, lst, lit, k)
        if isinstance(v, VNone): return last == -1
        if isinstance(v, VOpt):
            inner = v.inner
            idx = path.cell(inner.oid)['idx'].t if isinstance(inner, VRef) else None
            if idx is None: return S.false
            return z3.If(v.isnone, last == -1, z3.And(idx == last, last >= 0))
        if isinstance(v, VRef):
            return z3.And(path.cell(v.oid)['idx'].t == last, last >= 0)
        return S.false
    def scan_inv(S, a, st, k):
        lst = st._path.cell(a.valid_decls.oid)['id']
        last_axioms(S, lst, 'color', k); last_axioms(S, lst, 'background-color', k)
        return {'color_is_last': is_last(S, st._path, st.color_decl, lst, 'color', k), 'background_is_last': is_last(S, st._path, st.bg_decl, lst, 'background-color', k)}
    def scan_post(which, lit):
        def f(S, a, r, path):
            cell = path.cell(a.valid_decls.oid)
            v = S.item(r, which)
            return is_last(S, path, v, cell['id'], lit, cell['len'])
        return f
    reg.add(Contract(
        QS, params={'node_list': 'unk', 'declarations_map': 'unk', 'default_bg': 'str', 'stats': 'unk', 'file_path': 'unk', 'variables': 'unk', 'mode': 'int', 'premium': 'bool',
                    'valid_decls': decls_param, 'color_decl': 'none', 'bg_decl': 'none'},
        pre=None, result='unk', pure=False, raises=(),
        posts={'text_colour_is_the_last_color_declaration': scan_post(0, 'color'), 'background_is_the_last_background_color_declaration': scan_post(1, 'background-color')},
        props={'text_colour_is_the_last_color_declaration': ['C08'], 'background_is_the_last_background_color_declaration': ['C08'], 'inv:color_is_last': ['C08'], 'inv:background_is_last': ['C08']},
        loops=[LoopSpec('valid_decls', scan_inv, elem=scan_elem, pos=0, shapes={'color_decl': ('opt', DOBJ), 'bg_decl': ('opt', DOBJ)},
                        roles={'carried': ['color_decl', 'bg_decl']})],
        opts={'local_roles': ['valid_decls', 'color_decl', 'bg_decl']},
        note='extracted loop: see vf/extract.py; LAST is the recursive spec function "index of the last declaration with that name"'))
