"""Contracts on cm_colors/core/colors.py: ColorPair.make_readable (top of the C01/C02/C04/C06/C16 chains)."""
import z3
from vf.contracts import Contract
from vf.values import *
from .optimisation import within, REACH, STRICT_BOUND, STEP_BOUND, RELAXED_BOUND

CO = 'cm_colors.core.colors'
COLOR = ('obj', f'{CO}:Color', {'original': 'unk', 'background_context': 'unk', '_rgb': ('opt', 'rgb'), '_error': 'unk', '_parsed': 'bool', '_format': 'str'})
PAIR_OBJ = ('obj', f'{CO}:ColorPair', {'text': COLOR, 'bg': COLOR, 'large': 'bool'})


class PairView:
    """read access to a ColorPair for contract text, symbolic (heap) or concrete (real object)"""
    def __init__(self, S, a):
        self.S = S
        if S.concrete:
            p = a.self
            self.text, self.bg, self.large, self.fmt = p.text._rgb, p.bg._rgb, p.large, p.text._format
        else:
            path = a._path
            cell = path.cell(a.self.oid)
            t, b = path.cell(cell['text'].oid), path.cell(cell['bg'].oid)
            self.text, self.bg, self.large, self.fmt = t['_rgb'], b['_rgb'], cell['large'], t['_format']
    def valid(self):
        S = self.S
        return S.And(S.Not(S.is_none(self.text)), S.Not(S.is_none(self.bg)))


def register(reg):
    def pre(S, a):
        v = PairView(S, a)
        return S.And(S.opt_rgb8(v.text), S.opt_rgb8(v.bg))       # class invariant of Color (established by __init__: check C14)
    def when_valid(f):
        def g(S, a, r):
            v = PairView(S, a)
            if S.concrete:
                return True if not S.b(v.valid()) else f(S, a, r, v, v.text, v.bg)
            if not (S.is_tuple(r) and len(r.xs) == 2 and isinstance(r.xs[1], VBool)):
                return S.Not(v.valid())      # result is not a (colour, bool) pair: nothing can be established about it
            return S.Implies(v.valid(), f(S, a, r, v, S.the(v.text), S.the(v.bg)))
        return g
    def d(S, r): return S.denotes(S.item(r, 0))
    def need(S, a, v, t, b): return S.lt(S.CR(t, b), S.MIN(v.large, a.very_readable))
    def caf(S, a, v, t, b):
        return S.pure_value('check_and_fix_contrast', [t, b, v.large, a.mode, a.very_readable],
                            [('tuple', ['rgb', 'bool']), ('tuple', ['rgbstr', 'bool'])][0])
    def shape_ok(S, a, r):
        v = PairView(S, a)
        if S.concrete:
            if not S.b(v.valid()): return r == (None, False)
            return isinstance(r, tuple) and len(r) == 2 and d(S, r) is not None and type(r[1]) is bool
        ok_valid = S.true if (S.is_tuple(r) and len(r.xs) == 2 and d(S, r) is not None and isinstance(S.item(r, 1), VBool)) else S.false
        ok_invalid = S.true if (S.is_tuple(r) and len(r.xs) == 2 and isinstance(r.xs[0], VNone) and isinstance(r.xs[1], VBool)) else S.false
        inv_false = S.Not(r.xs[1]) if (S.is_tuple(r) and len(r.xs) == 2 and isinstance(r.xs[1], VBool)) else S.false
        return S.If(v.valid(), ok_valid, S.And(ok_invalid, inv_false))
    def fmt_ok(S, a, r, v, t, b):
        col = S.item(r, 0)
        if S.concrete: return True          # judged by engine D/E in check C06 with the reference parser
        if isinstance(col, VTuple): return S.str_eq(v.fmt, S.lit('rgb_tuple'))
        if isinstance(col, VStr) and col.sym and col.sym[0] == 'fmt':
            return S.And(S.str_eq(col.sym[2], v.fmt), S.Not(S.str_eq(v.fmt, S.lit('rgb_tuple'))))
        return S.false
    reg.add(Contract(
        f'{CO}:ColorPair.make_readable',
        params={'self': PAIR_OBJ, 'mode': 'int', 'very_readable': 'bool', 'show': 'bool', 'save_report': 'bool'},
        pre=pre, result='unk', pure=False, raises=(),
        effects_only_if=lambda S, a: S.Or(a.show, a.save_report),
        posts={
            'shape': shape_ok,
            'valid': when_valid(lambda S, a, r, v, t, b: S.rgb8(d(S, r)) if d(S, r) is not None else S.false),
            'flag_iff': when_valid(lambda S, a, r, v, t, b: S.Iff(S.item(r, 1), S.ge(S.CR(d(S, r), b), S.MIN(v.large, a.very_readable))) if d(S, r) is not None else S.false),
            'keep_if_ok': when_valid(lambda S, a, r, v, t, b: S.Implies(S.Not(need(S, a, v, t, b)), S.And(S.item(r, 1), S.teq(d(S, r), t))) if d(S, r) is not None else S.false),
            'no_harm': when_valid(lambda S, a, r, v, t, b: S.ge(S.CR(d(S, r), b), S.CR(t, b)) if d(S, r) is not None else S.false),
            'strict_le_5': when_valid(lambda S, a, r, v, t, b: S.Implies(S.eqi(a.mode, 0), within(S, t, d(S, r), STRICT_BOUND)) if d(S, r) is not None else S.false),
            'chain': when_valid(lambda S, a, r, v, t, b: S.And(
                S.Implies(S.And(S.Not(S.eqi(a.mode, 0)), S.Not(S.eqi(a.mode, 2))), REACH(S, STEP_BOUND, t, d(S, r))),
                S.Implies(S.eqi(a.mode, 2), S.Or(REACH(S, STEP_BOUND, t, d(S, r)), within(S, t, d(S, r), RELAXED_BOUND)))) if d(S, r) is not None else S.false),
            'format_kept': when_valid(fmt_ok),
            'wraps_caf': when_valid(lambda S, a, r, v, t, b: S.true if S.concrete else (S.And(
                S.teq(d(S, r), S.denotes(S.item(caf(S, a, v, t, b), 0))), S.Iff(S.item(r, 1), S.item(caf(S, a, v, t, b), 1))) if d(S, r) is not None else S.false)),
        },
        props={'shape': ['C01', 'C14'], 'valid': ['C01'], 'flag_iff': ['C01'], 'keep_if_ok': ['C02'], 'no_harm': ['C02'], 'strict_le_5': ['C04'],
               'chain': ['C04'], 'format_kept': ['C06', 'C17'], 'wraps_caf': ['C16', 'C17'], 'effects_only_if': ['C17'], 'pre:to_console': ['C17'], 'pre:to_html_bulk': ['C17']},
    ))


def register_visualiser(reg):
    VI = 'cm_colors.core.visualiser'
    def is_hex(S, v): return S.true if isinstance(v, VStr) and v.sym and v.sym[0] == 'hex6' else S.false
    reg.add(Contract(
        f'{VI}:to_console', params={'fg': 'str', 'bg': 'str', 'tuned_fg': 'str', 'original_level': 'unk', 'new_level': 'unk'},
        pre=lambda S, a: S.And(is_hex(S, a.fg), is_hex(S, a.bg), is_hex(S, a.tuned_fg)),       # what rich.Style is given: '#rrggbb' made by the library's own formatter
        result='none', pure=False, raises=(), posts={}, effects=('stdout',),
        assumed="rich renders styles built from '#rrggbb' strings without raising (exercised by engine E in check C17)"))
    reg.add(Contract(
        f'{VI}:to_html_bulk', params={'pairs': 'unk', 'output_path': 'str'},
        pre=lambda S, a: S.true, result='str', pure=False, raises=(), posts={}, effects=('fs_write:output_path',),
        assumed='writes exactly the file named by output_path in the working directory and returns its absolute path; never raises in a writable directory (engine C frame + engine E, check C17)'))
