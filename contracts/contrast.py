"""Contracts on cm_colors/core/contrast.py and the readability labels (C05)."""
import z3
from vf.contracts import Contract
from vf.values import *

CT = 'cm_colors.core.contrast'
CO = 'cm_colors.core.colors'


def LEVEL_fp(S, c, large):
    """statement of C05, bit-precise: AAA from 7.0 (4.5 large), AA from 4.5 (3.0 large), FAIL below; inclusive.
    NaN compares false with everything, so NaN is FAIL."""
    F = lambda x: z3.FPVal(x, z3.Float64())
    hi = z3.If(S.b(large), F(4.5), F(7.0)); lo = z3.If(S.b(large), F(3.0), F(4.5))
    return z3.If(z3.fpGEQ(c.t, hi), S.lit('AAA').code, z3.If(z3.fpGEQ(c.t, lo), S.lit('AA').code, S.lit('FAIL').code))


def LEVEL_real(S, c, large):
    hi = z3.If(S.b(large), z3.RealVal('4.5'), z3.RealVal('7.0')); lo = z3.If(S.b(large), z3.RealVal('3.0'), z3.RealVal('4.5'))
    return z3.If(c >= hi, S.lit('AAA').code, z3.If(c >= lo, S.lit('AA').code, S.lit('FAIL').code))


def register(reg):
    reg.add(Contract(
        f'{CT}:get_contrast_level#fp', params={'contrast_ratio': 'fp64', 'large': 'bool'},
        pre=None, result='str', pure=True, raises=(),
        posts={'level_all_doubles': lambda S, a, r: (r.code == LEVEL_fp(S, a.contrast_ratio, a.large)) if isinstance(r, VStr) else S.false},
        props={'level_all_doubles': ['C05']}))
    # the same function as its callers see it (the ratio is an order-only real there)
    reg.add(Contract(
        f'{CT}:get_contrast_level', params={'contrast_ratio': 'real', 'large': 'bool'},
        pre=None, result='str', pure=True, raises=(),
        posts={'level': lambda S, a, r: (r.code == LEVEL_real(S, S.r(a.contrast_ratio), a.large)) if isinstance(r, VStr) else S.false},
        props={'level': ['C05']}))
    # get_wcag_level: LEVEL(CR(t,b), large)
    reg.add(Contract(
        f'{CT}:get_wcag_level', params={'text_rgb': 'rgb', 'bg_rgb': 'rgb', 'large': 'bool'},
        pre=lambda S, a: S.And(S.rgb8(a.text_rgb), S.rgb8(a.bg_rgb)), result='str', pure=True, raises=(),
        posts={'level_of_ratio': lambda S, a, r: (r.code == LEVEL_real(S, S.CR(a.text_rgb, a.bg_rgb), a.large)) if isinstance(r, VStr) else S.false},
        props={'level_of_ratio': ['C05']}))

    # ColorPair.is_readable: the three user-facing strings
    from .colors import PAIR_OBJ, PairView
    def readable(S, a, r):
        v = PairView(S, a)
        if not isinstance(r, VStr): return S.false
        t, b = S.the(v.text), S.the(v.bg)
        lvl = LEVEL_real(S, S.CR(t, b), v.large)
        want = z3.If(lvl == S.lit('AAA').code, S.lit('Very Readable').code, z3.If(lvl == S.lit('AA').code, S.lit('Readable').code, S.lit('Not Readable').code))
        return S.If(v.valid(), r.code == want, r.code == S.lit('Not Readable').code)
    reg.add(Contract(
        f'{CO}:ColorPair.is_readable', params={'self': PAIR_OBJ},
        pre=lambda S, a: S.And(S.opt_rgb8(PairView(S, a).text), S.opt_rgb8(PairView(S, a).bg)), result='str', pure=False, raises=(),
        posts={'label': readable}, props={'label': ['C05', 'C14']}))
