"""Contracts on cm_colors/core/conversions.py: OKLCH inverse validity, safe variants (C10), validity predicates."""
import z3
from vf.contracts import Contract
from vf.values import *

CV = 'cm_colors.core.conversions'
NUM3 = ('tuple', ['real', 'real', 'real'])


def valid_oklch(S, t):
    L, C, H = t.xs
    return S.And(S.ge(L, 0), S.le(L, 1), S.ge(C, 0), S.ge(H, 0), S.le(H, 360))


def register(reg):
    # is_valid_rgb on its real AST (generator expression over a 3-tuple)
    reg.add(Contract(
        f'{CV}:is_valid_rgb#def', params={'rgb': 'rgb'}, pre=None, result='bool', pure=True, raises=(),
        posts={'def': lambda S, a, r: S.Iff(r, S.in_0_255(a.rgb))}, props={'def': ['C10', 'C01', 'C04']}))
    reg.add(Contract(
        f'{CV}:is_valid_rgb#def_float', params={'rgb': NUM3}, pre=None, result='bool', pure=True, raises=(),
        posts={'def': lambda S, a, r: S.Iff(r, S.in_0_255(a.rgb))}, props={'def': ['C10']}))
    reg.add(Contract(
        f'{CV}:is_valid_oklch', params={'oklch': NUM3}, pre=None, result='bool', pure=True, raises=(),
        posts={'def': lambda S, a, r: S.Iff(r, valid_oklch(S, a.oklch))}, props={'def': ['C10']}))
    # plain conversions as callees (forward formula + ranges: engine B; inverse: verified below)
    reg.add(Contract(
        f'{CV}:rgb_to_oklch', params={'rgb': 'rgb'}, pre=lambda S, a: S.in_0_255(a.rgb), result='real3', pure=True, raises=(),
        posts={'ranges': lambda S, a, r: S.And(S.ge(r.xs[0], 0), S.le(r.xs[0], 1), S.ge(r.xs[1], 0), S.ge(r.xs[2], 0), S.lt(r.xs[2], 360))},
        assumed='== published OKLab/OKLCH definition with L in [0,1], C >= 0, H in [0,360): engine B conformance + range lemmas (check C10)'))
    # linear_to_srgb / srgb_to_linear are inlined (their real ASTs are executed)
    reg.mark_inline(f'{CV}:linear_to_srgb', f'{CV}:srgb_to_linear')

    def inv_posts():
        def grey(S, a, r):
            L, C, H = a.oklch.xs
            return S.Implies(S.eq(C, 0), S.And(S.i(r.xs[0]) == S.i(r.xs[1]), S.i(r.xs[1]) == S.i(r.xs[2])))
        return {
            'valid': lambda S, a, r: S.rgb8(r),
            'black': lambda S, a, r: S.Implies(S.And(S.eq(a.oklch.xs[0], 0), S.eq(a.oklch.xs[1], 0)), S.And(*[S.i(x) == 0 for x in r.xs])),
            'white': lambda S, a, r: S.Implies(S.And(S.eq(a.oklch.xs[0], 1), S.eq(a.oklch.xs[1], 0)), S.And(*[S.i(x) == 255 for x in r.xs])),
            'grey': grey,
        }
    reg.add(Contract(
        f'{CV}:oklch_to_rgb', params={'oklch': NUM3}, pre=None, result='rgb', pure=True, raises=(), inline_closures=True,
        posts=inv_posts(), props={'valid': ['C10'], 'black': ['C10'], 'white': ['C10'], 'grey': ['C10']}))

    def plain_inv(S, a): return S.pure_value('oklch_to_rgb', [a.oklch], 'rgb')
    reg.add(Contract(
        f'{CV}:oklch_to_rgb_safe#def', params={'oklch': NUM3}, pre=None, result='rgb', pure=True, raises=(),
        posts={'valid_always': lambda S, a, r: S.rgb8(r),
               'equals_plain_on_valid': lambda S, a, r: S.Implies(valid_oklch(S, a.oklch), S.teq(r, plain_inv(S, a)))},
        props={'valid_always': ['C10'], 'equals_plain_on_valid': ['C10']}))

    def plain_fwd(S, a): return S.pure_value('rgb_to_oklch', [a.rgb], 'real3')
    fwd_posts = {'valid_always': lambda S, a, r: valid_oklch(S, r) if S.is_tuple(r) and len(r.xs) == 3 else S.false,
                 'equals_plain_on_valid': lambda S, a, r: S.Implies(S.rgb8(a.rgb), S.And(*[S.eq(x, y) for x, y in zip(r.xs, plain_fwd(S, a).xs)]))}
    reg.add(Contract(
        f'{CV}:rgb_to_oklch_safe#def', params={'rgb': 'rgb'}, pre=None, result='real3', pure=True, raises=(),
        posts=fwd_posts, props={'valid_always': ['C10'], 'equals_plain_on_valid': ['C10']}))
    # the same function on float-typed (non-integer) numeric triples: the 'invalid input' half of the clause
    reg.add(Contract(
        f'{CV}:rgb_to_oklch_safe#def_float', params={'rgb': NUM3}, pre=None, result='real3', pure=True, raises=(),
        posts={'valid_always': fwd_posts['valid_always']}, props={'valid_always': ['C10']}))
