"""Declared effect contracts (engine C).  Every function of the package NOT listed here is declared PURE:
no output, no file access, no module-level state read or written, no mutation of its arguments, no
nondeterminism, no reflection, no unknown calls.  The declarations below are what the properties allow:

C15  every query/fix is a pure function of its arguments; make_readable does not alter the ColorPair
C17  output / files only from the preview & report functions, and only reachable under show / save_report
C09  the CLI reads only its input file and writes only <stem>_cm<suffix> and the HTML report
"""
CO = 'cm_colors.core.colors'
VI = 'cm_colors.core.visualiser'
BK = 'cm_colors.core.cm_colors'
CLI = 'cm_colors.cli.main'
REP = 'cm_colors.cli.html_report'

DECLARED = {
    f'{CO}:Color.__init__': {'self_mutate'},            # constructor initialises the fresh object
    f'{CO}:Color._parse': {'self_mutate'},              # only called from __init__ (checked: see C15 'parse_only_from_init')
    f'{CO}:ColorPair.__init__': {'self_mutate'},
    f'{CO}:ColorPair.make_readable': {'stdout', 'fs_write:output_path'},     # via print / to_console / to_html_bulk; guard proved by engine A (C17)
    f'{VI}:to_console': {'stdout'},
    f'{VI}:to_html_bulk': {'fs_write:output_path'},
    f'{BK}:make_readable_bulk': {'stdout', 'fs_write:output_path'},
    f'{REP}:generate_report': {'fs_write:output_path'},
    f'{CLI}:get_css_files': {'fs_read:*'},
    f'{CLI}:update_decl_value': {'arg_mutate:decl', 'arg_mutate:container'},      # the declaration's value and (since the F7 repair) the same tokens inside the rule that holds it
    f'{CLI}:resolve_variable': {'arg_mutate:visited'},
    f'{CLI}:process_nodes_recursive': {'arg_mutate:stats', 'arg_mutate:node_list', 'arg_mutate:variables', 'arg_mutate:*via update_decl_value', 'arg_mutate:*via resolve_variable',
                                       'arg_mutate:*via process_nodes_recursive', 'nondet:id()'},      # id(node) only keys the caller's declaration map
    f'{CLI}:main': {'stdout', 'fs_read:*', 'fs_write:<local>', 'fs_write:output_path',      # its own _cm.css (a local path) and the report written by generate_report(output_path=default)
                'nondet:id()', 'arg_mutate:*via process_nodes_recursive', 'arg_mutate:*via update_decl_value'},
}
