"""Contracts of the numeric kernels and small helpers as engine A's callers see them.

Each of these is *proved elsewhere* (named in `assumed`): the formula by engine B (C05/C10/C11), the numeric
side (non-NaN, ranges in floats) by engine D on the finite colour domains.  Engine A uses only these
contracts at call sites - never the bodies - and lists them under `assumptions` in evidence.
"""
import z3
from vf.contracts import Contract
from vf.values import *

CV = 'cm_colors.core.conversions'
CT = 'cm_colors.core.contrast'
CM = 'cm_colors.core.color_metrics'


def register(reg):
    reg.add(Contract(
        f'{CT}:calculate_contrast_ratio', params={'text_rgb': 'rgb', 'bg_rgb': 'rgb'},
        pre=lambda S, a: S.And(S.rgb8(a.text_rgb), S.rgb8(a.bg_rgb)),
        result='real', pure=True, raises=(),
        posts={'is_CR': lambda S, a, r: S.eq(r, S.CR(a.text_rgb, a.bg_rgb)),
               'range': lambda S, a, r: S.And(S.ge(r, 1), S.le(r, 21))},
        assumed='== WCAG contrast ratio, in [1,21], finite: engine B conformance + engine D (check C05)'))
    reg.add(Contract(
        f'{CM}:calculate_delta_e_2000', params={'rgb1': 'rgb', 'rgb2': 'rgb'},
        pre=lambda S, a: S.And(S.rgb8(a.rgb1), S.rgb8(a.rgb2)),
        result='real', pure=True, raises=(),
        posts={'is_DE': lambda S, a, r: S.eq(r, S.DE(a.rgb1, a.rgb2)),
               'nonneg': lambda S, a, r: S.ge(r, 0),
               'zero_same': lambda S, a, r: S.Implies(S.teq(a.rgb1, a.rgb2), S.eq(r, 0))},
        assumed='== CIEDE2000, >= 0, 0 for identical colours, never raises, finite: engine B + D/E (check C11)'))
    reg.add(Contract(
        f'{CV}:rgb_to_oklch_safe', params={'rgb': 'rgb'},
        pre=lambda S, a: S.true, result='real3', pure=True, raises=(),
        posts={}, assumed='returns a 3-tuple of finite floats, never raises on a 3-tuple of numbers (check C10)'))
    reg.add(Contract(
        f'{CV}:oklch_to_rgb_safe', params={'oklch': 'real3'},
        pre=lambda S, a: S.true, result='rgb', pure=False, raises=('Exception?',),
        posts={'rgb8': lambda S, a, r: S.rgb8(r)},
        assumed='returns an int 3-tuple in 0..255 whenever it returns (check C10); may raise on non-numeric junk'))
    reg.add(Contract(
        f'{CV}:is_valid_rgb', params={'rgb': 'rgb'},
        pre=lambda S, a: S.true, result='bool', pure=True, raises=(),
        posts={'def': lambda S, a, r: S.Iff(r, S.in_0_255(a.rgb)) if S.concrete or (S.is_tuple3(a.rgb) and all(is_num(x) for x in a.rgb.xs)) else S.true},
        assumed='all(0 <= v <= 255 for v in rgb): verified by engine A in check C10'))
    reg.add(Contract(
        f'{CV}:rgbint_to_string', params={'rgb': 'rgb'},
        pre=lambda S, a: S.rgb8(a.rgb), result='rgbstr', pure=False, raises=(),
        posts={'payload': lambda S, a, r: S.teq(S.payload(r), a.rgb)},
        assumed="returns f'rgb({r}, {g}, {b})' for a valid triple; READ(RGBSTR t) = t for all 2^24 t: engine D (check C06)"))
    reg.add(Contract(
        f'{CT}:get_wcag_level', params={'text_rgb': 'rgb', 'bg_rgb': 'rgb', 'large': 'bool'},
        pre=lambda S, a: S.And(S.rgb8(a.text_rgb), S.rgb8(a.bg_rgb)), result='str', pure=True, raises=(),
        posts={}, assumed='label of the ratio (check C05); value not used by the callers verified here'))
