"""Contracts on the real functions of cm_colors/core/optimisation.py (engine A).

Every top-level postcondition is taken from the statement of a property (C01 flag_iff, C02 no_harm / keep,
C04 tolerance bounds and REACH chain, C16 mode-2-covers-mode-1); helper preconditions and loop invariants
are derived from the code and its call sites.  `props` maps each label to the properties that rely on it.
"""
import z3
from vf.contracts import Contract, LoopSpec
from vf.values import *

M = 'cm_colors.core.optimisation'
OPT_RGB = ('opt', 'rgb')
PAIR = ('tuple', ['rgb', 'bool'])
STRICT_BOUND = 5.0      # C04: "In strict mode the returned colour is never more than CIEDE2000 5.0 from the original"
STEP_BOUND = 3.0        # the per-step tolerance of default mode ("chain such bounded steps")
RELAXED_BOUND = 15.0


def rgb_pre(S, a): return S.And(S.rgb8(a.text_rgb), S.rgb8(a.bg_rgb))


def within(S, text, r, tol):
    """r is `text` itself or within CIEDE2000 `tol` of it (DE(x,x)=0 is C11's clause, not assumed here)"""
    return S.Or(S.teq(r, text), S.le(S.DE(text, r), tol))


def REACH(S, tol, a, c):
    """c is obtained from a by zero or more steps each within CIEDE2000 tol (reflexive-transitive closure).
    Uninterpreted predicate; the closure rules are instantiated for every pair of REACH atoms that share `a`
    (each instance is valid by definition, so adding them is sound)."""
    if S.concrete: return True          # not evaluable on a single call; the step chain is monitored by engine E (C04)
    key = ('REACH', str(tol))
    seen = S.__dict__.setdefault('_reach', {}).setdefault(key, [])
    ia, ic = S.ints(a), S.ints(c)
    f = S.fn(f'REACH_{tol}', [I] * 6, B)
    atom = f(*ia, *ic)
    tolv = z3.RealVal(repr(tol))
    def step(x, y):
        return z3.Or(z3.And([p == q for p, q in zip(x, y)]), S.DEf(*x, *y) <= tolv)
    S.fact(f'reach-refl{atom}', z3.Implies(z3.And([p == q for p, q in zip(ia, ic)]), atom))
    for (ja, jc, other) in seen:
        same_a = z3.And([p == q for p, q in zip(ia, ja)])
        S.fact(f'reach-tr{other}->{atom}', z3.Implies(z3.And(same_a, other, step(jc, ic)), atom))
        S.fact(f'reach-tr{atom}->{other}', z3.Implies(z3.And(same_a, atom, step(ic, jc)), other))
    if not any(o.eq(atom) for _, _, o in seen): seen.append((ia, ic, atom))
    return atom


def register(reg):
    # ------------------------------------------------------------------ binary_search_lightness
    def bs_inv(S, a, st, k):
        b = st.best_rgb
        return {'valid': S.opt_rgb8(b), 'within_tol': S.opt(b, lambda t: S.le(S.DE(a.text_rgb, t), a.delta_e_threshold))}
    reg.add(Contract(
        f'{M}:binary_search_lightness',
        params={'text_rgb': 'rgb', 'bg_rgb': 'rgb', 'delta_e_threshold': 'real', 'target_contrast': 'real', 'large_text': 'bool'},
        pre=rgb_pre, result=OPT_RGB, pure=True, raises=(),
        posts={
            'valid': lambda S, a, r: S.opt_rgb8(r),
            'within_tol': lambda S, a, r: S.opt(r, lambda t: S.le(S.DE(a.text_rgb, t), a.delta_e_threshold)),
        },
        props={'valid': ['C01', 'C04'], 'within_tol': ['C04', 'C03']},
        loops=[LoopSpec('range(20)', bs_inv, shapes={'best_rgb': OPT_RGB}, pos=0,
                        roles={'carried': ['low', 'high', 'best_rgb', 'best_delta_e', 'best_contrast', 'best_meets_target']})],
    ))

    # ------------------------------------------------------------------ gradient_descent_oklch
    reg.add(Contract(
        f'{M}:gradient_descent_oklch',
        params={'text_rgb': 'rgb', 'bg_rgb': 'rgb', 'delta_e_threshold': 'real', 'target_contrast': 'real', 'large_text': 'bool', 'max_iter': 'int'},
        pre=rgb_pre, result=OPT_RGB, pure=True, raises=(),
        posts={
            'valid': lambda S, a, r: S.opt_rgb8(r),
            'within_tol': lambda S, a, r: S.opt(r, lambda t: S.le(S.DE(a.text_rgb, t), a.delta_e_threshold)),
        },
        props={'valid': ['C01', 'C04'], 'within_tol': ['C04']},
        # the descent loop and its closures are havocked: the postcondition must follow from the guarded tail alone
        loops=[LoopSpec('range(max_iter)', lambda S, a, st, k: S.true,
                        shapes={'current': 'unk', 'gradient': 'unk', 'next_params': 'unk', 'adaptive_lr': 'unk'}, pos=0,
                        roles={'carried': ['current'], 'local': ['gradient', 'adaptive_lr', 'next_params']})],
    ))

    # ------------------------------------------------------------------ generate_accessible_color
    def gen_bound(S, a):
        seq = a.delta_e_sequence
        if S.concrete: return STRICT_BOUND if seq is None else max(seq)
        if isinstance(seq, VNone): return z3.RealVal(repr(STRICT_BOUND))
        if isinstance(seq, VOpt): return z3.If(seq.isnone, z3.RealVal(repr(STRICT_BOUND)), S.maxof(seq.inner))
        return S.maxof(seq, a._path)
    def gen_inv(S, a, st, k):
        bc, bcon, c0 = st.best_candidate, st.best_contrast, S.CR(a.text_rgb, a.bg_rgb)
        if isinstance(bc, VNone): return {'no_harm': S.eq(bcon, c0)}
        n, t = S.is_none(bc), S.the(bc)
        return {'valid': S.Or(n, S.rgb8(t)),
                'no_harm': S.If(n, S.eq(bcon, c0), S.And(S.eq(S.CR(t, a.bg_rgb), bcon), S.ge(bcon, c0))),
                'bounded': S.Or(n, S.le(S.DE(a.text_rgb, t), gen_bound(S, a)))}
    reg.add(Contract(
        f'{M}:generate_accessible_color',
        params={'text_rgb': 'rgb', 'bg_rgb': 'rgb', 'large': 'bool', 'target_contrast': ('opt', 'real'), 'min_contrast': ('opt', 'real'),
                'delta_e_sequence': lambda S, p, ex: VOpt(fresh(B, 'seq_isnone'), S.fresh_symseq('schedule'))},
        pre=rgb_pre, result='rgb', pure=True, raises=(),
        posts={
            'valid': lambda S, a, r: S.rgb8(r),
            'no_harm': lambda S, a, r: S.ge(S.CR(r, a.bg_rgb), S.CR(a.text_rgb, a.bg_rgb)),
            'bounded': lambda S, a, r: within(S, a.text_rgb, r, gen_bound(S, a)),
        },
        props={'valid': ['C01', 'C04'], 'no_harm': ['C02'], 'bounded': ['C04']},
        loops=[LoopSpec('delta_e_sequence', gen_inv, shapes={'best_candidate': OPT_RGB, 'binary_result': OPT_RGB, 'gradient_result': OPT_RGB}, pos=0,
                        roles={'carried': ['best_candidate', 'best_contrast', 'best_delta_e'], 'local': ['binary_result', 'result_contrast', 'result_delta_e', 'gradient_result']})],
    ))

    # ------------------------------------------------------------------ strategies
    strat_params = {'text_rgb': 'rgb', 'bg_rgb': 'rgb', 'large': 'bool', 'target_contrast': 'real', 'min_contrast': 'real'}
    def flag_iff(S, a, r): return S.Iff(S.item(r, 1), S.ge(S.CR(S.item(r, 0), a.bg_rgb), a.min_contrast))
    def no_harm(S, a, r): return S.ge(S.CR(S.item(r, 0), a.bg_rgb), S.CR(a.text_rgb, a.bg_rgb))
    def valid(S, a, r): return S.rgb8(S.item(r, 0))
    base_props = {'valid': ['C01', 'C04'], 'flag_iff': ['C01'], 'no_harm': ['C02']}

    reg.add(Contract(
        f'{M}:_strategy_strict', params=strat_params, pre=rgb_pre, result=PAIR, pure=True, raises=(),
        posts={'valid': valid, 'flag_iff': flag_iff, 'no_harm': no_harm,
               'strict_le_5': lambda S, a, r: within(S, a.text_rgb, S.item(r, 0), STRICT_BOUND)},
        props=dict(base_props, strict_le_5=['C04']),
    ))

    def rec_inv(S, a, st, k):
        c = st.current_rgb
        return {'valid': S.rgb8(c), 'no_harm': S.ge(S.CR(c, a.bg_rgb), S.CR(a.text_rgb, a.bg_rgb)),
                'chain_le_3': REACH(S, STEP_BOUND, a.text_rgb, c),
                'flag_iff': S.Or(k == 0, S.lt(S.CR(c, a.bg_rgb), a.min_contrast))}
    reg.add(Contract(
        f'{M}:_strategy_recursive', params=strat_params, pre=rgb_pre, result=PAIR, pure=True, raises=(),
        posts={'valid': valid, 'flag_iff': flag_iff, 'no_harm': no_harm,
               'chain_le_3': lambda S, a, r: REACH(S, STEP_BOUND, a.text_rgb, S.item(r, 0))},
        props=dict(base_props, chain_le_3=['C04']),
        loops=[LoopSpec('range(max_iterations)', rec_inv, pos=0, roles={'carried': ['current_rgb'], 'local': ['current_contrast', 'next_rgb']})],
    ))

    def REC(S, a):
        return S.pure_value('_strategy_recursive', [a.text_rgb, a.bg_rgb, a.large, a.target_contrast, a.min_contrast], PAIR)
    def relax_inv(S, a, st, k):
        c = st.opt_a_rgb
        return {'valid': S.rgb8(c), 'no_harm': S.ge(S.CR(c, a.bg_rgb), S.CR(a.text_rgb, a.bg_rgb)),
                'chain_or_15': REACH(S, STEP_BOUND, a.text_rgb, c),
                'flag_iff': S.Implies(st.opt_a_success, S.ge(S.CR(c, a.bg_rgb), a.min_contrast))}
    def covers(S, a, r):
        rec = REC(S, a)
        return S.Implies(S.item(rec, 1), S.And(S.teq(S.item(r, 0), S.item(rec, 0)), S.item(r, 1)))
    reg.add(Contract(
        f'{M}:_strategy_relaxed', params=strat_params, pre=rgb_pre, result=PAIR, pure=True, raises=(),
        posts={'valid': valid, 'flag_iff': flag_iff, 'no_harm': no_harm,
               'chain_or_15': lambda S, a, r: S.Or(REACH(S, STEP_BOUND, a.text_rgb, S.item(r, 0)), within(S, a.text_rgb, S.item(r, 0), RELAXED_BOUND)),
               'covers_mode1': covers},
        props=dict(base_props, chain_or_15=['C04'], covers_mode1=['C16']),
        loops=[LoopSpec('range(max_iterations_extended)', relax_inv, pos=0, roles={'carried': ['opt_a_rgb', 'opt_a_success'], 'local': ['next_rgb']})],
    ))

    # ------------------------------------------------------------------ check_and_fix_contrast
    def caf_targets(S, a):
        """(target, min) the code is required to use: min from the statement of C01; target as the code's own
        helper value (any target >= min keeps every clause; it is pinned only so that the REC symbol matches)"""
        mn = S.MIN(a.large, a.premium)
        tgt = S.If(a.large, S.const(4.5), S.const(7.0))
        return S.num_value(tgt), S.num_value(mn)
    def caf_d(S, r): return S.denotes(S.item(r, 0))
    def caf_rec(S, a):
        tgt, mn = caf_targets(S, a)
        return S.pure_value('_strategy_recursive', [a.text, a.bg, a.large, tgt, mn], PAIR)
    def caf_need(S, a): return S.lt(S.CR(a.text, a.bg), S.MIN(a.large, a.premium))
    reg.add(Contract(
        f'{M}:check_and_fix_contrast',
        params={'text': 'rgb', 'bg': 'rgb', 'large': 'bool', 'mode': 'int', 'premium': 'bool'},
        pre=lambda S, a: S.And(S.rgb8(a.text), S.rgb8(a.bg)),
        result=[('tuple', ['rgb', 'bool']), ('tuple', ['rgbstr', 'bool'])], pure=True, raises=(),
        posts={
            'denotes': lambda S, a, r: S.true if caf_d(S, r) is not None else S.false,
            'valid': lambda S, a, r: S.rgb8(caf_d(S, r)),
            'flag_iff': lambda S, a, r: S.Iff(S.item(r, 1), S.ge(S.CR(caf_d(S, r), a.bg), S.MIN(a.large, a.premium))),
            'keep_if_ok': lambda S, a, r: S.Implies(S.Not(caf_need(S, a)), S.And(S.item(r, 1), S.teq(caf_d(S, r), a.text))),
            'no_harm': lambda S, a, r: S.ge(S.CR(caf_d(S, r), a.bg), S.CR(a.text, a.bg)),
            'strict_le_5': lambda S, a, r: S.Implies(S.eqi(a.mode, 0), within(S, a.text, caf_d(S, r), STRICT_BOUND)),
            'chain': lambda S, a, r: S.And(
                S.Implies(S.And(S.Not(S.eqi(a.mode, 0)), S.Not(S.eqi(a.mode, 2))), REACH(S, STEP_BOUND, a.text, caf_d(S, r))),
                S.Implies(S.eqi(a.mode, 2), S.Or(REACH(S, STEP_BOUND, a.text, caf_d(S, r)), within(S, a.text, caf_d(S, r), RELAXED_BOUND)))),
            'mode1_is_rec': lambda S, a, r: S.Implies(S.And(caf_need(S, a), S.Not(S.eqi(a.mode, 0)), S.Not(S.eqi(a.mode, 2))),
                                                      S.And(S.teq(caf_d(S, r), S.item(caf_rec(S, a), 0)), S.Iff(S.item(r, 1), S.item(caf_rec(S, a), 1)))),
            'mode2_covers_rec': lambda S, a, r: S.Implies(S.And(caf_need(S, a), S.eqi(a.mode, 2), S.item(caf_rec(S, a), 1)),
                                                          S.And(S.teq(caf_d(S, r), S.item(caf_rec(S, a), 0)), S.item(r, 1))),
            'same_kind': lambda S, a, r: S.Iff(S.Not(caf_need(S, a)), S.is_tuple(S.item(r, 0))),
        },
        props={'denotes': ['C01'], 'valid': ['C01'], 'flag_iff': ['C01'], 'keep_if_ok': ['C02'], 'no_harm': ['C02'], 'strict_le_5': ['C04'],
               'chain': ['C04'], 'mode1_is_rec': ['C16'], 'mode2_covers_rec': ['C16'], 'same_kind': ['C16', 'C06']},
    ))
