"""Contracts of the parser entry points as engine A's callers see them (the parser's own obligations are in
checks C06/C07/C14)."""
import z3
from vf.contracts import Contract
from vf.values import *

CP = 'cm_colors.core.color_parser'


def known(S, v):
    """(condition, rgb tuple) when the library itself produced `v` or v is an int triple: READ(v) is known"""
    if isinstance(v, VTuple) and len(v.xs) == 3 and all(isinstance(x, VInt) for x in v.xs):
        return S.rgb8(v), v
    if isinstance(v, VStr) and v.sym and v.sym[0] in ('rgbstr', 'fmt'):
        return S.rgb8(v.sym[1]), v.sym[1]
    return None, None


def register(reg):
    def read_post(S, a, r):
        c, t = known(S, a.color)
        return S.true if t is None else S.Implies(c, S.teq(r, t))
    def no_raise_when_known(S, a):
        c, t = known(S, a.color)
        return S.true if t is None else S.Not(c)
    reg.add(Contract(
        f'{CP}:parse_color_to_rgb', params={'color': 'unk', 'background': 'unk'},
        pre=lambda S, a: S.true, result='rgb', pure=False, raises=('ValueError',),
        posts={'rgb8': lambda S, a, r: S.rgb8(r), 'read_back': read_post},
        exc_posts={'ValueError': no_raise_when_known},
        assumed='returns ints in 0..255 or raises ValueError (check C14); an 8-bit int triple parses to itself (C07); '
                'READ(rgbint_to_string t) = t and READ(format_color(t,f)) = t for all 2^24 t (engine D, check C06)'))
    def fmt_post(S, a, r):
        v = a.color
        if isinstance(v, VTuple) and len(v.xs) == 3: return S.str_eq(r, VStr(lit='rgb_tuple'))
        if isinstance(v, VStr) and v.sym and v.sym[0] == 'rgbstr': return S.str_eq(r, VStr(lit='rgb'))
        return S.true
    reg.add(Contract(
        f'{CP}:detect_color_format', params={'color': 'unk'},
        pre=lambda S, a: S.true, result='str', pure=True, raises=(),
        posts={'fmt': fmt_post},
        assumed='total, returns a format tag; mapping proved in check C06'))
    def format_result(S, a):
        return ['rgb']  # placeholder, replaced by apply below
    c = Contract(
        f'{CP}:format_color', params={'rgb': 'rgb', 'format_type': 'str'},
        pre=lambda S, a: S.rgb8(a.rgb), result='str', pure=False, raises=(),
        posts={}, assumed='returns FMT(rgb, format_type): hex / rgb() / hsl() / the tuple itself; READ(FMT(t,f)) = t (engine D, check C06)')
    def apply(ex, p, ns, node, ctor=None):
        S = ex.S
        f = ns.format_type
        if not isinstance(f, VStr): f = VStr(code=fresh(I, 'fmtarg'))
        # 'rgb_tuple' returns the tuple object itself; every other tag returns a string denoting rgb
        is_tuple = S.str_eq(f, VStr(lit='rgb_tuple'))
        outs = []
        q1 = p.fork(is_tuple)
        if ex.feasible(q1.pc): outs.append((q1, ns.rgb))
        q2 = p.fork(z3.Not(is_tuple))
        if ex.feasible(q2.pc): outs.append((q2, S.mk_fmt(ns.rgb, f)))
        return outs
    c.apply = apply
    reg.add(c)
