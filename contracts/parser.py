"""Contracts of the parser entry points as engine A's callers see them (the parser's own obligations are in
checks C06/C07/C14)."""
import z3
from vf.contracts import Contract
from vf.values import *

CP = 'cm_colors.core.color_parser'


def known(S, v):
    """(condition, rgb tuple) when the library itself produced `v` or v is an int triple: READ(v) is known"""
    if isinstance(v, VTuple) and len(v.xs) == 3 and all(isinstance(x, VInt) for x in v.xs):
        return S.rgb8(v), v
    if isinstance(v, VStr) and v.sym and v.sym[0] in ('rgbstr', 'fmt'):
        return S.rgb8(v.sym[1]), v.sym[1]
    return None, None


def register(reg):
    def read_post(S, a, r):
        c, t = known(S, a.color)
        return S.true if t is None else S.Implies(c, S.teq(r, t))
    def no_raise_when_known(S, a):
        c, t = known(S, a.color)
        return S.true if t is None else S.Not(c)
    reg.add(Contract(
        f'{CP}:parse_color_to_rgb', params={'color': 'unk', 'background': 'unk'},
        pre=lambda S, a: S.true, result='rgb', pure=False, raises=('ValueError',),
        posts={'rgb8': lambda S, a, r: S.rgb8(r), 'read_back': read_post},
        exc_posts={'ValueError': no_raise_when_known},
        assumed='returns ints in 0..255 or raises ValueError (check C14); an 8-bit int triple parses to itself (C07); '
                'READ(rgbint_to_string t) = t and READ(format_color(t,f)) = t for all 2^24 t (engine D, check C06)'))
    def fmt_post(S, a, r):
        v = a.color
        if isinstance(v, VTuple) and len(v.xs) == 3: return S.str_eq(r, VStr(lit='rgb_tuple'))
        if isinstance(v, VStr) and v.sym and v.sym[0] == 'rgbstr': return S.str_eq(r, VStr(lit='rgb'))
        return S.true
    reg.add(Contract(
        f'{CP}:detect_color_format', params={'color': 'unk'},
        pre=lambda S, a: S.true, result='str', pure=True, raises=(),
        posts={'fmt': fmt_post},
        assumed='total, returns a format tag; mapping proved in check C06'))
    def format_result(S, a):
        return ['rgb']  # placeholder, replaced by apply below
    c = Contract(
        f'{CP}:format_color', params={'rgb': 'rgb', 'format_type': 'str'},
        pre=lambda S, a: S.rgb8(a.rgb), result='str', pure=False, raises=(),
        posts={}, assumed='returns FMT(rgb, format_type): hex / rgb() / hsl() / the tuple itself; READ(FMT(t,f)) = t (engine D, check C06)')
    def apply(ex, p, ns, node, ctor=None):
        S = ex.S
        f = ns.format_type
        if not isinstance(f, VStr): f = VStr(code=fresh(I, 'fmtarg'))
        # 'rgb_tuple' returns the tuple object itself; every other tag returns a string denoting rgb
        is_tuple = S.str_eq(f, VStr(lit='rgb_tuple'))
        outs = []
        q1 = p.fork(is_tuple)
        if ex.feasible(q1.pc): outs.append((q1, ns.rgb))
        q2 = p.fork(z3.Not(is_tuple))
        if ex.feasible(q2.pc): outs.append((q2, S.mk_fmt(ns.rgb, f)))
        return outs
    c.apply = apply
    reg.add(c)


def register_format(reg):
    """format_color's own contract (verified by engine A on its real AST): the format table of C06."""
    CV = 'cm_colors.core.conversions'
    for fn in ('rgb_to_hex', 'rgb_to_hsl'):
        reg.add(Contract(f'{CV}:{fn}', params={'rgb' if fn == 'rgb_to_hex' else 'rgb_color': 'rgb'},
                         pre=lambda S, a: S.true, result='str', pure=True, raises=(),
                         posts={}, assumed=f'{fn}: total on 8-bit int triples, returns a CSS string that reads back as the triple (engine D, all 2^24, check C06)'))
    def table(S, a, r):
        f, t = a.format_type, a.rgb
        hexs = S.pure_value('rgb_to_hex', [t], 'str'); hsls = S.pure_value('rgb_to_hsl', [t], 'str')
        is_ = lambda lit: S.str_eq(f, S.lit(lit))
        def same_str(x):
            return S.str_eq(r, x) if isinstance(r, VStr) else S.false
        return S.And(
            S.Implies(is_('rgb_tuple'), S.teq(r, t) if isinstance(r, VTuple) else S.false),
            S.Implies(is_('hex'), same_str(hexs)),
            S.Implies(is_('hsl'), same_str(hsls)),
            S.Implies(is_('rgb'), S.And(S.true if isinstance(r, VStr) and r.sym and r.sym[0] == 'rgbstr' else S.false,
                                        S.teq(S.payload(r), t) if isinstance(r, VStr) and r.sym and r.sym[0] == 'rgbstr' else S.false)),
            S.Implies(S.Not(S.Or(is_('rgb_tuple'), is_('hex'), is_('hsl'), is_('rgb'))), same_str(hexs)))
    reg.add(Contract(
        f'{CP}:format_color#table', params={'rgb': 'rgb', 'format_type': 'str'},
        pre=lambda S, a: S.rgb8(a.rgb), result='unk', pure=False, raises=(),
        posts={'format_table': table}, props={'format_table': ['C06']}))
