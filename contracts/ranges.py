"""Range contracts (engine R, vf/ranges.py) for the Lab / CIEDE2000 pipeline: C11 'finite, non-negative, never raises'.
Pre-conditions are the 8-bit colour cube; posts are deliberately generous (interval arithmetic does not see the correlation
between channels): what matters is that every range is finite, every radicand is >= 0 and every denominator excludes 0."""
from vf.ranges import RangeContract, Iv

CV = 'cm_colors.core.conversions'
CM = 'cm_colors.core.color_metrics'
RGB = [Iv(0, 255)] * 3
XYZ = [Iv(0, 95.1), Iv(0, 100.01), Iv(0, 108.9)]
LAB = [Iv(0, 100), Iv(-440, 440), Iv(-180, 180)]


def contracts():
    cs = [
        RangeContract(f'{CV}:srgb_to_linear', {'channel': Iv(0, 1)}, Iv(0, 1.000001), ['C11', 'C05']),
        RangeContract(f'{CV}:rgb_to_xyz', {'rgb': RGB}, XYZ, ['C11']),
        RangeContract(f'{CV}:xyz_to_lab', {'xyz': XYZ}, LAB, ['C11']),
        RangeContract(f'{CV}:rgb_to_lab', {'rgb': RGB}, LAB, ['C11']),
        RangeContract(f'{CV}:calculate_hue_angle', {'a': Iv(-1000, 1000), 'b': Iv(-1000, 1000)}, Iv(-180.001, 540.001), ['C11'],
                      note='the conditional expression is joined without refinement: the true range is [0, 360)'),
        RangeContract(f'{CM}:calculate_delta_e_2000', {'rgb1': RGB, 'rgb2': RGB}, Iv(0, 1e12), ['C11'],
                      note='non-negative and finite; the numeric value is the business of the conformance proof (engine B) and the oracle comparison'),
    ]
    CT = 'cm_colors.core.contrast'
    cs += [
        RangeContract(f'{CV}:linear_to_srgb', {'channel': Iv(0, 1)}, Iv(0, 1.000001), ['C10']),
        RangeContract(f'{CV}:rgb_to_oklch', {'rgb': RGB}, [Iv(0, 1), Iv(0, 3), Iv(-180.001, 540.001)], ['C10'],
                      note='L is clamped by the code; C and H ranges are generous (no channel correlation); H by calculate_hue_angle\'s contract'),
        RangeContract(f'{CV}:oklch_to_rgb', {'oklch': [Iv(0, 1), Iv(0, 100), Iv(0, 360)]}, [Iv(0, 255)] * 3, ['C10'],
                      note='any chroma up to 100 (far outside the sRGB gamut): the clamp before the transfer function makes every result an 8-bit value'),
        RangeContract(f'{CT}:calculate_relative_luminance', {'rgb': RGB}, Iv(0, 1.00001), ['C05']),
        RangeContract(f'{CT}:calculate_contrast_ratio', {'text_rgb': RGB, 'bg_rgb': RGB}, Iv(0.04, 21.001), ['C05'],
                      note='finite, positive, at most 21 (+rounding slack); the lower bound 1 needs max >= min and is part of the conformance proof (engine B), not of the interval proof'),
    ]
    return {c.qual: c for c in cs}
