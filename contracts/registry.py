"""Builds the contract registry used by every engine-A check."""
from vf.contracts import Registry
from . import optimisation, kernels, parser, colors, contrast, conversions

INLINE = [
    'cm_colors.core.colors:Color._parse', 'cm_colors.core.colors:Color.is_valid', 'cm_colors.core.colors:Color.rgb',
    'cm_colors.core.colors:Color.error', 'cm_colors.core.colors:ColorPair.is_valid', 'cm_colors.core.colors:Color.to_hex',
]


def build(variant=None):
    reg = Registry()
    kernels.register(reg)
    parser.register(reg)
    parser.register_format(reg)
    optimisation.register(reg)
    colors.register(reg)
    colors.register_visualiser(reg)
    contrast.register(reg)
    conversions.register(reg)
    reg.mark_inline(*INLINE)
    if variant in ('c14', 'c14pair'):
        from . import c14
        c14.register_c14(reg)
        if variant == 'c14pair': c14.register_c14_pair(reg)
    if variant == 'c13':
        from . import c13
        c13.register_c13(reg)
    if variant == 'c13pair':
        from . import c13
        c13.register_c13_pair(reg)
    if variant == 'c08':
        from . import cli
        cli.register_c08(reg)
    if variant == 'c12':
        from . import bulk
        bulk.register_c12(reg)
    return reg
