"""Relational contracts (two runs of the same real function) for C16 clause 2:
"Whenever a very_readable request succeeds, the ordinary request for the same pair, mode and text size succeeds as well."

Two runs `hi` (stricter minimum) and `lo` (weaker minimum) with every other argument shared.  The chain, bottom-up, each
link proved by vf/relational.py on the real body and used by the next one as a relational CONTRACT (never the body):

  generate_accessible_color  REL_G   : min_lo <= min_hi  ==>  result_lo == result_hi  or  CR(result_lo, bg) >= min_lo
  _strategy_strict           REL_S   : min_lo <= min_hi  ==>  (success_hi ==> success_lo)        [uses REL_G]
  _strategy_recursive        REL_S   : idem                                                      [uses REL_G, product loop]
  _strategy_relaxed          REL_S   : idem                                                      [uses REL_S(recursive), REL_G, product loop with break]
  check_and_fix_contrast     REL_CAF : premium_lo ==> premium_hi  ==>  (success_hi ==> success_lo)  [uses REL_S of the three strategies]

ColorPair.make_readable(very_readable=v) returns the flag of check_and_fix_contrast(premium=v) (unary post `wraps_caf`).
The postconditions are the statement of the property; the loop relations are derived from the code.
"""
import z3
from vf.relational import RelSpec
from vf.values import *

M = 'cm_colors.core.optimisation'


def veq(a, b, heap=None):
    """structural equality of two symbolic values of the same kind -> z3 Bool (False when the kinds cannot be compared)"""
    T, F = z3.BoolVal(True), z3.BoolVal(False)
    if isinstance(a, VOpt) and isinstance(b, VOpt): return z3.And(a.isnone == b.isnone, z3.Or(a.isnone, veq(a.inner, b.inner, heap)))
    if isinstance(a, VOpt): return a.isnone if isinstance(b, VNone) else z3.And(z3.Not(a.isnone), veq(a.inner, b, heap))
    if isinstance(b, VOpt): return veq(b, a, heap)
    if isinstance(a, VNone) or isinstance(b, VNone): return T if isinstance(a, VNone) and isinstance(b, VNone) else F
    if isinstance(a, VSpec) or isinstance(b, VSpec):
        return T if isinstance(a, VSpec) and isinstance(b, VSpec) and a.kind == b.kind and a.kind != 'nan' else F
    if isinstance(a, VBool) and isinstance(b, VBool): return a.t == b.t
    if isinstance(a, (VInt, VReal, VBool)) and isinstance(b, (VInt, VReal, VBool)): return num(a) == num(b)
    if isinstance(a, VTuple) and isinstance(b, VTuple):
        return z3.And([veq(x, y, heap) for x, y in zip(a.xs, b.xs)]) if len(a.xs) == len(b.xs) else F
    if isinstance(a, VSymSeq) and isinstance(b, VSymSeq): return T if a is b or a.ident.eq(b.ident) else F
    if isinstance(a, VRef) and isinstance(b, VRef) and a.cls == 'list' and b.cls == 'list' and heap is not None:
        if a.oid == b.oid: return T
        ia, ib = heap[0].get(a.oid, {}).get('items'), heap[1].get(b.oid, {}).get('items')
        if ia is None or ib is None or len(ia) != len(ib): return F
        return z3.And([veq(x, y, heap) for x, y in zip(ia, ib)]) if ia else T
    return F


def same_args(hi, lo, names):
    heap = (hi._path.heap, lo._path.heap)
    return z3.And([veq(hi._env[n], lo._env[n], heap) for n in names])


def min_le(hi, lo): return num(lo.min_contrast) <= num(hi.min_contrast)


# ---------------------------------------------------------------------- relational contracts as used at call sites
def rel_gen(S, hi, lo, r_hi, r_lo):
    if not isinstance(hi.min_contrast, (VReal, VInt)) or not isinstance(lo.min_contrast, (VReal, VInt)): return None
    return z3.Implies(z3.And(same_args(hi, lo, ['text_rgb', 'bg_rgb', 'large', 'target_contrast', 'delta_e_sequence']), min_le(hi, lo)),
                      z3.Or(S.teq(r_hi, r_lo), S.ge(S.CR(r_lo, lo.bg_rgb), lo.min_contrast)))


def rel_strategy(S, hi, lo, r_hi, r_lo):
    return z3.Implies(z3.And(same_args(hi, lo, ['text_rgb', 'bg_rgb', 'large', 'target_contrast']), min_le(hi, lo)),
                      z3.Implies(S.b(S.item(r_hi, 1)), S.b(S.item(r_lo, 1))))


def flag_implies(S, a_hi, a_lo, r_hi, r_lo): return z3.Implies(S.b(S.item(r_hi, 1)), S.b(S.item(r_lo, 1)))
def lo_flag(S, a_lo, r_lo): return S.b(S.item(r_lo, 1))


STRAT_SHARED = {'text_rgb': 'rgb', 'bg_rgb': 'rgb', 'large': 'bool', 'target_contrast': 'real'}


def specs():
    out = {}
    def add(rs): out[rs.qual + '~rel'] = rs
    # ------------------------------------------------------------------ generate_accessible_color
    add(RelSpec(
        f'{M}:generate_accessible_color',
        shared={'text_rgb': 'rgb', 'bg_rgb': 'rgb', 'large': 'bool', 'target_contrast': ('opt', 'real'),
                'delta_e_sequence': lambda S, p, ex: VOpt(fresh(B, 'seq_isnone'), S.fresh_symseq('schedule'))},
        differing={'min_contrast': 'real'},
        pre=lambda S, hi, lo: min_le(hi, lo),
        post={'same_or_lo_passes': lambda S, hi, lo, r_hi, r_lo: z3.Or(S.teq(r_hi, r_lo), S.ge(S.CR(r_lo, lo.bg_rgb), lo.min_contrast))},
        lo_only=lambda S, lo, r_lo: S.ge(S.CR(r_lo, lo.bg_rgb), lo.min_contrast),
        loops={'delta_e_sequence': {'pos': 0, 'rel': lambda S, sh, sl, hi, lo, k: {
            'same_candidate': veq(sh.best_candidate, sl.best_candidate), 'same_contrast': veq(sh.best_contrast, sl.best_contrast),
            'same_delta_e': veq(sh.best_delta_e, sl.best_delta_e)}}},
        props={'*': ['C16']},
        note='the minimum is read only by the early-termination test: the weaker run either stops there on a passing colour or stays in step'))
    # ------------------------------------------------------------------ strategies
    add(RelSpec(f'{M}:_strategy_strict', shared=STRAT_SHARED, differing={'min_contrast': 'real'},
                pre=lambda S, hi, lo: min_le(hi, lo), post={'very_readable_implies_readable': flag_implies}, lo_only=lo_flag,
                callee_rel={'generate_accessible_color': rel_gen}, props={'*': ['C16']}))
    add(RelSpec(f'{M}:_strategy_recursive', shared=STRAT_SHARED, differing={'min_contrast': 'real'},
                pre=lambda S, hi, lo: min_le(hi, lo), post={'very_readable_implies_readable': flag_implies}, lo_only=lo_flag,
                loops={'range(max_iterations)': {'pos': 0, 'rel': lambda S, sh, sl, hi, lo, k: {'same_colour': veq(sh.current_rgb, sl.current_rgb)}}},
                callee_rel={'generate_accessible_color': rel_gen}, props={'*': ['C16']}))
    add(RelSpec(f'{M}:_strategy_relaxed', shared=STRAT_SHARED, differing={'min_contrast': 'real'},
                pre=lambda S, hi, lo: min_le(hi, lo), post={'very_readable_implies_readable': flag_implies}, lo_only=lo_flag,
                loops={'range(max_iterations_extended)': {
                    'pos': 0, 'rel': lambda S, sh, sl, hi, lo, k: {'same_colour': veq(sh.opt_a_rgb, sl.opt_a_rgb),
                                                         'flag_implies': z3.Implies(S.b(sh.opt_a_success), S.b(sl.opt_a_success))},
                    'lo_exit_ok': lambda S, sl, lo: S.b(sl.opt_a_success)}},
                callee_rel={'generate_accessible_color': rel_gen, '_strategy_recursive': rel_strategy}, props={'*': ['C16']}))
    # ------------------------------------------------------------------ check_and_fix_contrast
    add(RelSpec(f'{M}:check_and_fix_contrast', shared={'text': 'rgb', 'bg': 'rgb', 'large': 'bool', 'mode': 'int'}, differing={'premium': 'bool'},
                pre=lambda S, hi, lo: z3.Implies(lo.premium.t, hi.premium.t),
                post={'very_readable_implies_readable': flag_implies}, lo_only=lo_flag,
                callee_rel={'_strategy_strict': rel_strategy, '_strategy_recursive': rel_strategy, '_strategy_relaxed': rel_strategy},
                props={'*': ['C16']}))
    return out
