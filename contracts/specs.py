"""Spec functions for engine B, written from the published definitions (WCAG 2.x, CIE 15 / Sharma-Wu-Dalal, Ottosson's
OKLab, CSS Color 3) - deliberately NOT in the code's surface form.  They are parsed with `ast` and executed by the
same real-arithmetic evaluator as the code; literals are exact decimals."""
import ast

SRC = '''
def spec_srgb_decode(c):
    # WCAG 2.x relative luminance: "if RsRGB <= 0.03928 then R = RsRGB/12.92 else R = ((RsRGB+0.055)/1.055) ^ 2.4"
    if c <= 0.03928:
        return c / 12.92
    else:
        return ((c + 0.055) / 1.055) ** 2.4


def spec_luminance(rgb):
    R8, G8, B8 = rgb
    return 0.0722 * spec_srgb_decode(B8 / 255) + 0.2126 * spec_srgb_decode(R8 / 255) + 0.7152 * spec_srgb_decode(G8 / 255)


def spec_contrast(L1, L2):
    # WCAG 2.x contrast ratio: (L1 + 0.05) / (L2 + 0.05) with L1 the lighter of the two
    if L1 >= L2:
        return (L1 + 0.05) / (L2 + 0.05)
    else:
        return (L2 + 0.05) / (L1 + 0.05)


def spec_srgb_decode_iec(c):
    # IEC 61966-2-1 (used by OKLab / CIE conversions): threshold 0.04045
    if c <= 0.04045:
        return c / 12.92
    else:
        return ((c + 0.055) / 1.055) ** 2.4


def spec_signed_cbrt(x):
    if x >= 0:
        return cbrt(x)
    else:
        return -cbrt(-x)


def spec_hue_degrees(b, a):
    # polar angle of (a, b) in degrees, normalised to [0, 360); 0 for the origin
    if a == 0 and b == 0:
        return 0
    h = math.atan2(b, a) * 180 / math.pi
    if h < 0:
        return h + 360
    else:
        return h


def spec_oklch(rgb):
    # Ottosson, "A perceptual color space for image processing" (2020): linear sRGB -> LMS (M1) -> cube root -> Lab (M2) -> polar
    R8, G8, B8 = rgb
    r = spec_srgb_decode_iec(R8 / 255)
    g = spec_srgb_decode_iec(G8 / 255)
    b = spec_srgb_decode_iec(B8 / 255)
    l = 0.4122214708 * r + 0.5363325363 * g + 0.0514459929 * b
    m = 0.2119034982 * r + 0.6806995451 * g + 0.1073969566 * b
    s = 0.0883024619 * r + 0.2817188376 * g + 0.6299787005 * b
    l_ = spec_signed_cbrt(l)
    m_ = spec_signed_cbrt(m)
    s_ = spec_signed_cbrt(s)
    L = 0.2104542553 * l_ + 0.7936177850 * m_ - 0.0040720468 * s_
    A = 1.9779984951 * l_ - 2.4285922050 * m_ + 0.4505937099 * s_
    B = 0.0259040371 * l_ + 0.7827717662 * m_ - 0.8086757660 * s_
    C = sqrt(A ** 2 + B ** 2)
    if C < 1e-10:
        H = 0.0
    else:
        H = spec_hue_degrees(B, A)
    if L < 0.0:
        L = 0.0
    if L > 1.0:
        L = 1.0
    return (L, C, H)


def spec_xyz(rgb):
    # IEC 61966-2-1 sRGB -> CIE XYZ (D65), scaled to Y = 100
    R8, G8, B8 = rgb
    r = spec_srgb_decode_iec(R8 / 255)
    g = spec_srgb_decode_iec(G8 / 255)
    b = spec_srgb_decode_iec(B8 / 255)
    X = 100 * (0.4124564 * r + 0.3575761 * g + 0.1804375 * b)
    Y = 100 * (0.2126729 * r + 0.7151522 * g + 0.0721750 * b)
    Z = 100 * (0.0193339 * r + 0.1191920 * g + 0.9503041 * b)
    return (X, Y, Z)


def spec_lab_f(t):
    # CIE 15: f(t) = t^(1/3) if t > (6/29)^3 else t/(3 (6/29)^2) + 4/29 ; the library uses the customary 4-digit
    # approximations 0.008856 and 7.787 - declared here as the spec's tolerance class, their effect is measured by engine D
    if t > 0.008856:
        return cbrt(t)
    else:
        return 7.787 * t + 16 / 116


def spec_lab(xyz):
    X, Y, Z = xyz
    fx = spec_lab_f(X / 95.047)
    fy = spec_lab_f(Y / 100.0)
    fz = spec_lab_f(Z / 108.883)
    L = 116 * fy - 16
    if L < 0:
        L = 0
    if L > 100:
        L = 100
    return (L, 500 * (fx - fy), 200 * (fy - fz))


def spec_de2000(lab1, lab2):
    # Sharma, Wu, Dalal (2005), "The CIEDE2000 color-difference formula: implementation notes...", kL = kC = kH = 1
    L1, a1, b1 = lab1
    L2, a2, b2 = lab2
    C1s = sqrt(a1 ** 2 + b1 ** 2)
    C2s = sqrt(a2 ** 2 + b2 ** 2)
    Cbar = (C1s + C2s) / 2
    G = 0.5 * (1 - sqrt(pow(Cbar, 7) / (pow(Cbar, 7) + pow(25, 7))))
    a1p = (1 + G) * a1
    a2p = (1 + G) * a2
    C1p = sqrt(a1p ** 2 + b1 ** 2)
    C2p = sqrt(a2p ** 2 + b2 ** 2)
    h1p = spec_hue_degrees(b1, a1p)
    h2p = spec_hue_degrees(b2, a2p)
    dLp = L2 - L1
    dCp = C2p - C1p
    if C1p == 0 or C2p == 0:
        dhp = 0
    elif abs(h2p - h1p) <= 180:
        dhp = h2p - h1p
    elif h2p - h1p > 180:
        dhp = h2p - h1p - 360
    else:
        dhp = h2p - h1p + 360
    dHp = 2 * sqrt(C1p * C2p) * math.sin(math.radians(dhp / 2))
    Lbp = (L1 + L2) / 2
    Cbp = (C1p + C2p) / 2
    if C1p == 0 or C2p == 0:
        hbp = h1p + h2p
    elif abs(h1p - h2p) <= 180:
        hbp = (h1p + h2p) / 2
    elif h1p + h2p < 360:
        hbp = (h1p + h2p + 360) / 2
    else:
        hbp = (h1p + h2p - 360) / 2
    T = 1 - 0.17 * math.cos(math.radians(hbp - 30)) + 0.24 * math.cos(math.radians(2 * hbp)) + 0.32 * math.cos(math.radians(3 * hbp + 6)) - 0.20 * math.cos(math.radians(4 * hbp - 63))
    dtheta = 30 * math.exp(-(((hbp - 275) / 25) ** 2))
    RC = 2 * sqrt(pow(Cbp, 7) / (pow(Cbp, 7) + pow(25, 7)))
    SL = 1 + (0.015 * (Lbp - 50) ** 2) / sqrt(20 + (Lbp - 50) ** 2)
    SC = 1 + 0.045 * Cbp
    SH = 1 + 0.015 * Cbp * T
    RT = -math.sin(math.radians(2 * dtheta)) * RC
    tL = dLp / SL
    tC = dCp / SC
    tH = dHp / SH
    return sqrt(tL ** 2 + tC ** 2 + tH ** 2 + RT * tC * tH)


def spec_hue_to_rgb(m1, m2, h):
    # CSS Color 3, section 4.2.4: HOW TO RETURN hue.to.rgb(m1, m2, h)
    if h < 0:
        h = h + 1
    if h > 1:
        h = h - 1
    if h * 6 < 1:
        return m1 + (m2 - m1) * h * 6
    if h * 2 < 1:
        return m2
    if h * 3 < 2:
        return m1 + (m2 - m1) * (2 / 3 - h) * 6
    return m1


def spec_css_hsl(hsl):
    # CSS Color 3, section 4.2.4: HOW TO RETURN hsl.to.rgb(h, s, l); h already normalised to [0, 360), s and l in [0, 1];
    # each channel is then the nearest 8-bit value
    hdeg, s, l = hsl
    h = hdeg / 360
    if l <= 0.5:
        m2 = l * (s + 1)
    else:
        m2 = l + s - l * s
    m1 = l * 2 - m2
    r = spec_hue_to_rgb(m1, m2, h + 1 / 3)
    g = spec_hue_to_rgb(m1, m2, h)
    b = spec_hue_to_rgb(m1, m2, h - 1 / 3)
    return (nearest(r * 255), nearest(g * 255), nearest(b * 255))


def spec_blend(fg, alpha, bg):
    # CSS compositing, source-over, per channel
    r, g, b = fg
    br, bgc, bb = bg
    return (alpha * r + (1 - alpha) * br, alpha * g + (1 - alpha) * bgc, alpha * b + (1 - alpha) * bb)
'''

TREE = ast.parse(SRC)
FUNCS = {n.name: n for n in TREE.body if isinstance(n, ast.FunctionDef)}
