"""Independent reference implementations, written from the published definitions (never from the repo):
WCAG 2 relative luminance / contrast ratio, CIE XYZ/L*a*b* (D65, exact epsilon/kappa), CIEDE2000
(Sharma-Wu-Dalal formulation), OKLab/OKLCH (Ottosson), CSS source-over compositing.

Every function is generic over a numeric backend `K` (python floats via `FloatK`, 50-digit mpmath via `MpK`)
so the same definition serves fast sweeps and high-precision arbitration."""
import math
from fractions import Fraction


class FloatK:
    name = 'float64'
    @staticmethod
    def num(x): return float(x)
    sqrt = staticmethod(math.sqrt); sin = staticmethod(math.sin); cos = staticmethod(math.cos)
    atan2 = staticmethod(math.atan2); exp = staticmethod(math.exp)
    pi = math.pi
    @staticmethod
    def pow(x, y): return math.pow(x, y)
    @staticmethod
    def cbrt(x): return math.copysign(abs(x) ** (1.0 / 3.0), x)


def MpK(dps=50):
    import mpmath
    class _MpK:
        name = f'mpmath{dps}'
        mp = mpmath.mp.clone(); mp.dps = dps
        @classmethod
        def num(c, x):
            if isinstance(x, Fraction): return c.mp.mpf(x.numerator) / c.mp.mpf(x.denominator)
            if isinstance(x, str): return c.mp.mpf(x)
            return c.mp.mpf(x)
    K = _MpK
    K.sqrt = K.mp.sqrt; K.sin = K.mp.sin; K.cos = K.mp.cos; K.atan2 = K.mp.atan2; K.exp = K.mp.exp
    K.pi = K.mp.pi
    K.pow = staticmethod(lambda x, y: K.mp.power(x, y))
    K.cbrt = staticmethod(lambda x: K.mp.cbrt(x) if x >= 0 else -K.mp.cbrt(-x))
    return K


F = Fraction
# ------------------------------------------------------------------ sRGB / WCAG 2
def srgb_decode(K, c8):
    """8-bit channel -> linear light.  WCAG 2.x text: if c <= 0.03928 (sRGB: 0.04045; same branch for every
    8-bit value since 10/255 = 0.0392156... < 0.03928 and 11/255 = 0.0431... > 0.04045) c/12.92 else ((c+0.055)/1.055)^2.4"""
    c = K.num(F(c8, 255)) if isinstance(c8, int) else K.num(c8) / K.num(255)
    if c8 <= 10 if isinstance(c8, int) else c <= K.num(F(4045, 100000)):
        return c / K.num(F(1292, 100))
    return K.pow((c + K.num(F(55, 1000))) / K.num(F(1055, 1000)), K.num(F(24, 10)))


def luminance(K, rgb):
    r, g, b = (srgb_decode(K, v) for v in rgb)
    return K.num(F(2126, 10000)) * r + K.num(F(7152, 10000)) * g + K.num(F(722, 10000)) * b


def contrast(K, a, b):
    la, lb = luminance(K, a), luminance(K, b)
    hi, lo = (la, lb) if la >= lb else (lb, la)
    return (hi + K.num(F(5, 100))) / (lo + K.num(F(5, 100)))


def required_min(large, very):
    """statement of C01"""
    if very: return 4.5 if large else 7.0
    return 3.0 if large else 4.5


def level(ratio, large):
    """statement of C05: AAA from 7.0 (4.5 large), AA from 4.5 (3.0 large), FAIL below; inclusive"""
    hi, lo = (4.5, 3.0) if large else (7.0, 4.5)
    if ratio >= hi: return 'AAA'
    if ratio >= lo: return 'AA'
    return 'FAIL'


# ------------------------------------------------------------------ CIE XYZ / Lab (D65)
# sRGB -> XYZ matrix (IEC 61966-2-1, D65), white point X=95.047 Y=100 Z=108.883 (as CIE 15 2-degree D65 rounded)
M_XYZ = (('0.4124564', '0.3575761', '0.1804375'), ('0.2126729', '0.7151522', '0.0721750'), ('0.0193339', '0.1191920', '0.9503041'))
WHITE = ('95.047', '100.000', '108.883')
EPS = F(216, 24389); KAPPA = F(24389, 27)


def xyz(K, rgb):
    lin = [srgb_decode(K, v) for v in rgb]
    return tuple(sum(K.num(m) * l for m, l in zip(row, lin)) * K.num(100) for row in M_XYZ)


def lab_from_xyz(K, X, Y, Z):
    def f(t):
        if t > K.num(EPS): return K.cbrt(t)
        return (K.num(KAPPA) * t + K.num(16)) / K.num(116)
    fx, fy, fz = (f(v / K.num(w)) for v, w in zip((X, Y, Z), WHITE))
    return (K.num(116) * fy - K.num(16), K.num(500) * (fx - fy), K.num(200) * (fy - fz))


def lab(K, rgb):
    return lab_from_xyz(K, *xyz(K, rgb))


# ------------------------------------------------------------------ CIEDE2000 (Sharma, Wu, Dalal 2005), kL=kC=kH=1
def ciede2000_lab(K, lab1, lab2):
    L1, a1, b1 = lab1; L2, a2, b2 = lab2
    n = K.num
    C1 = K.sqrt(a1 * a1 + b1 * b1); C2 = K.sqrt(a2 * a2 + b2 * b2)
    Cb = (C1 + C2) / n(2)
    Cb7 = K.pow(Cb, n(7))
    G = n(F(1, 2)) * (n(1) - K.sqrt(Cb7 / (Cb7 + n(25 ** 7))))
    a1p = (n(1) + G) * a1; a2p = (n(1) + G) * a2
    C1p = K.sqrt(a1p * a1p + b1 * b1); C2p = K.sqrt(a2p * a2p + b2 * b2)
    def hue(b, a):
        if a == 0 and b == 0: return n(0)
        h = K.atan2(b, a) * n(180) / K.pi
        return h + n(360) if h < 0 else h
    h1p = hue(b1, a1p); h2p = hue(b2, a2p)
    dLp = L2 - L1; dCp = C2p - C1p
    if C1p * C2p == 0: dhp = n(0)
    else:
        d = h2p - h1p
        if abs(d) <= 180: dhp = d
        elif d > 180: dhp = d - n(360)
        else: dhp = d + n(360)
    dHp = n(2) * K.sqrt(C1p * C2p) * K.sin(dhp / n(2) * K.pi / n(180))
    Lbp = (L1 + L2) / n(2); Cbp = (C1p + C2p) / n(2)
    if C1p * C2p == 0: hbp = h1p + h2p
    else:
        if abs(h1p - h2p) <= 180: hbp = (h1p + h2p) / n(2)
        elif h1p + h2p < 360: hbp = (h1p + h2p + n(360)) / n(2)
        else: hbp = (h1p + h2p - n(360)) / n(2)
    rad = lambda d: d * K.pi / n(180)
    T = (n(1) - n(F(17, 100)) * K.cos(rad(hbp - n(30))) + n(F(24, 100)) * K.cos(rad(n(2) * hbp))
         + n(F(32, 100)) * K.cos(rad(n(3) * hbp + n(6))) - n(F(20, 100)) * K.cos(rad(n(4) * hbp - n(63))))
    dth = n(30) * K.exp(-(((hbp - n(275)) / n(25)) ** 2))
    Cbp7 = K.pow(Cbp, n(7))
    RC = n(2) * K.sqrt(Cbp7 / (Cbp7 + n(25 ** 7)))
    SL = n(1) + (n(F(15, 1000)) * (Lbp - n(50)) ** 2) / K.sqrt(n(20) + (Lbp - n(50)) ** 2)
    SC = n(1) + n(F(45, 1000)) * Cbp
    SH = n(1) + n(F(15, 1000)) * Cbp * T
    RT = -K.sin(rad(n(2) * dth)) * RC
    tL, tC, tH = dLp / SL, dCp / SC, dHp / SH
    return K.sqrt(tL * tL + tC * tC + tH * tH + RT * tC * tH)


def ciede2000(K, rgb1, rgb2):
    if tuple(rgb1) == tuple(rgb2): return K.num(0)
    return ciede2000_lab(K, lab(K, rgb1), lab(K, rgb2))


# the 34 published test pairs of Sharma, Wu, Dalal (2005), Table 1: (L1,a1,b1),(L2,a2,b2), dE00
SHARMA = [
 ((50.0000, 2.6772, -79.7751), (50.0000, 0.0000, -82.7485), 2.0425), ((50.0000, 3.1571, -77.2803), (50.0000, 0.0000, -82.7485), 2.8615),
 ((50.0000, 2.8361, -74.0200), (50.0000, 0.0000, -82.7485), 3.4412), ((50.0000, -1.3802, -84.2814), (50.0000, 0.0000, -82.7485), 1.0000),
 ((50.0000, -1.1848, -84.8006), (50.0000, 0.0000, -82.7485), 1.0000), ((50.0000, -0.9009, -85.5211), (50.0000, 0.0000, -82.7485), 1.0000),
 ((50.0000, 0.0000, 0.0000), (50.0000, -1.0000, 2.0000), 2.3669), ((50.0000, -1.0000, 2.0000), (50.0000, 0.0000, 0.0000), 2.3669),
 ((50.0000, 2.4900, -0.0010), (50.0000, -2.4900, 0.0009), 7.1792), ((50.0000, 2.4900, -0.0010), (50.0000, -2.4900, 0.0010), 7.1792),
 ((50.0000, 2.4900, -0.0010), (50.0000, -2.4900, 0.0011), 7.2195), ((50.0000, 2.4900, -0.0010), (50.0000, -2.4900, 0.0012), 7.2195),
 ((50.0000, -0.0010, 2.4900), (50.0000, 0.0009, -2.4900), 4.8045), ((50.0000, -0.0010, 2.4900), (50.0000, 0.0010, -2.4900), 4.8045),
 ((50.0000, -0.0010, 2.4900), (50.0000, 0.0011, -2.4900), 4.7461), ((50.0000, 2.5000, 0.0000), (50.0000, 0.0000, -2.5000), 4.3065),
 ((50.0000, 2.5000, 0.0000), (73.0000, 25.0000, -18.0000), 27.1492), ((50.0000, 2.5000, 0.0000), (61.0000, -5.0000, 29.0000), 22.8977),
 ((50.0000, 2.5000, 0.0000), (56.0000, -27.0000, -3.0000), 31.9030), ((50.0000, 2.5000, 0.0000), (58.0000, 24.0000, 15.0000), 19.4535),
 ((50.0000, 2.5000, 0.0000), (50.0000, 3.1736, 0.5854), 1.0000), ((50.0000, 2.5000, 0.0000), (50.0000, 3.2972, 0.0000), 1.0000),
 ((50.0000, 2.5000, 0.0000), (50.0000, 1.8634, 0.5757), 1.0000), ((50.0000, 2.5000, 0.0000), (50.0000, 3.2592, 0.3350), 1.0000),
 ((60.2574, -34.0099, 36.2677), (60.4626, -34.1751, 39.4387), 1.2644), ((63.0109, -31.0961, -5.8663), (62.8187, -29.7946, -4.0864), 1.2630),
 ((61.2901, 3.7196, -5.3901), (61.4292, 2.2480, -4.9620), 1.8731), ((35.0831, -44.1164, 3.7933), (35.0232, -40.0716, 1.5901), 1.8645),
 ((22.7233, 20.0904, -46.6940), (23.0331, 14.9730, -42.5619), 2.0373), ((36.4612, 47.8580, 18.3852), (36.2715, 50.5065, 21.2231), 1.4146),
 ((90.8027, -2.0831, 1.4410), (91.1528, -1.6435, 0.0447), 1.4441), ((90.9257, -0.5406, -0.9208), (88.6381, -0.8985, -0.7239), 1.5381),
 ((6.7747, -0.2908, -2.4247), (5.8714, -0.0985, -2.2286), 0.6377), ((2.0776, 0.0795, -1.1350), (0.9033, -0.0636, -0.5514), 0.9082),
]


# ------------------------------------------------------------------ OKLab / OKLCH (Bjorn Ottosson, 2020)
M1 = (('0.4122214708', '0.5363325363', '0.0514459929'), ('0.2119034982', '0.6806995451', '0.1073969566'), ('0.0883024619', '0.2817188376', '0.6299787005'))
M2 = (('0.2104542553', '0.7936177850', '-0.0040720468'), ('1.9779984951', '-2.4285922050', '0.4505937099'), ('0.0259040371', '0.7827717662', '-0.8086757660'))
M2I = (('1', '0.3963377774', '0.2158037573'), ('1', '-0.1055613458', '-0.0638541728'), ('1', '-0.0894841775', '-1.2914855480'))
M1I = (('4.0767416621', '-3.3077115913', '0.2309699292'), ('-1.2684380046', '2.6097574011', '-0.3413193965'), ('-0.0041960863', '-0.7034186147', '1.7076147010'))


def _dec(K, s): return K.num(Fraction(s))


def oklab(K, rgb):
    lin = [srgb_decode(K, v) for v in rgb]
    lms = [sum(_dec(K, m) * l for m, l in zip(row, lin)) for row in M1]
    lms_ = [K.cbrt(v) for v in lms]
    return tuple(sum(_dec(K, m) * l for m, l in zip(row, lms_)) for row in M2)


def oklch(K, rgb):
    L, a, b = oklab(K, rgb)
    C = K.sqrt(a * a + b * b)
    h = K.atan2(b, a) * K.num(180) / K.pi
    if h < 0: h = h + K.num(360)
    return L, C, h


def srgb_encode(K, l):
    if l <= K.num(F(31308, 10000000)): return K.num(F(1292, 100)) * l
    return K.num(F(1055, 1000)) * K.pow(l, K.num(F(10, 24))) - K.num(F(55, 1000))


def oklch_to_srgb_unrounded(K, L, C, H):
    """continuous sRGB channel values (0..1 after gamut clipping of the linear channels), before 8-bit rounding"""
    a = C * K.cos(H * K.pi / K.num(180)); b = C * K.sin(H * K.pi / K.num(180))
    lms_ = [_dec(K, r[0]) * L + _dec(K, r[1]) * a + _dec(K, r[2]) * b for r in M2I]
    lms = [v * v * v for v in lms_]
    lin = [sum(_dec(K, m) * l for m, l in zip(row, lms)) for row in M1I]
    lin = [min(K.num(1), max(K.num(0), v)) for v in lin]
    return [srgb_encode(K, v) for v in lin]


# ------------------------------------------------------------------ compositing
def blend_exact(fg, alpha: Fraction, bg):
    """source-over per channel, exact rational"""
    return tuple(Fraction(f) * alpha + Fraction(b) * (1 - alpha) for f, b in zip(fg, bg))
