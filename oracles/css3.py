"""Independent reference parser for CSS Color Module Level 3 <color> values (+ rebeccapurple), written from the
specification.  Returns *exact rational* channel values on the 0..255 scale and a rational alpha, so callers can
judge "nearest 8-bit value" (with the tie left open) themselves.  Not derived from cm-colors.

Grammar accepted (CSS 2.1 <number> = [+-]?(\\d+|\\d*\\.\\d+), optional e-notation per css-syntax-3; whitespace *w*):
  #rgb | #rrggbb                       (hex digits any case)
  <ident> in the keyword table           (ASCII case-insensitive)
  rgb(w N w, w N w, w N w)  |  rgb(w P% w, w P% w, w P% w)      N integer, P number; clipped to the range
  rgba(... , w A w)                      A number clipped to [0,1]
  hsl(w H w, w S% w, w L% w) | hsla(..., w A w)                 H number (degrees, any), S/L clipped to [0,100]
The library additionally accepts hex without '#': `parse(s, allow_bare_hex=True)`."""
import re
from fractions import Fraction as F
from .css3_keywords import KEYWORDS

W = r'[ \t\r\n\f]*'
NUM = r'[+-]?(?:\d+\.\d+|\.\d+|\d+)(?:[eE][+-]?\d+)?'
INT = r'[+-]?\d+'
_hex3 = re.compile(r'#([0-9a-fA-F])([0-9a-fA-F])([0-9a-fA-F])\Z')
_hex6 = re.compile(r'#([0-9a-fA-F]{2})([0-9a-fA-F]{2})([0-9a-fA-F]{2})\Z')
_func = re.compile(r'(rgba?|hsla?)\(' + W + r'(.*?)' + W + r'\)\Z', re.I | re.S)


def _num(s): return F(s)      # Fraction parses decimal and e-notation exactly


def _clip(x, lo, hi): return lo if x < lo else hi if x > hi else x


def hsl_to_rgb_exact(h, s, l):
    """CSS Color 3 §4.2.4 algorithm on exact rationals; h in degrees (any), s,l in [0,1]; returns channels in [0,1]"""
    h = (h % 360) / 360
    m2 = l * (s + 1) if l <= F(1, 2) else l + s - l * s
    m1 = l * 2 - m2
    def hue(m1, m2, h):
        if h < 0: h += 1
        if h > 1: h -= 1
        if h * 6 < 1: return m1 + (m2 - m1) * h * 6
        if h * 2 < 1: return m2
        if h * 3 < 2: return m1 + (m2 - m1) * (F(2, 3) - h) * 6
        return m1
    return hue(m1, m2, h + F(1, 3)), hue(m1, m2, h), hue(m1, m2, h - F(1, 3))


def parse(s, allow_bare_hex=False):
    """-> ((r,g,b) exact rationals on 0..255, alpha rational) or None if not a CSS Color 3 value"""
    if not isinstance(s, str): return None
    t = s.strip(' \t\r\n\f')
    if allow_bare_hex and re.fullmatch(r'[0-9a-fA-F]{3}|[0-9a-fA-F]{6}', t) and t.lower() not in KEYWORDS:
        t = '#' + t
    m = _hex6.match(t)
    if m: return tuple(F(int(x, 16)) for x in m.groups()), F(1)
    m = _hex3.match(t)
    if m: return tuple(F(int(x * 2, 16)) for x in m.groups()), F(1)
    if t.lower() in KEYWORDS:
        return tuple(F(v) for v in KEYWORDS[t.lower()]), F(1)
    m = _func.match(t)
    if not m: return None
    fn = m.group(1).lower()
    args = re.split(W + ',' + W, m.group(2))
    want = 4 if fn.endswith('a') else 3
    if len(args) != want: return None
    alpha = F(1)
    if want == 4:
        if not re.fullmatch(NUM, args[3]): return None
        alpha = _clip(_num(args[3]), F(0), F(1))
    if fn.startswith('rgb'):
        if all(re.fullmatch(INT, a) for a in args[:3]):
            ch = tuple(_clip(F(int(a)), F(0), F(255)) for a in args[:3])
        elif all(re.fullmatch(NUM + '%', a) for a in args[:3]):
            ch = tuple(_clip(_num(a[:-1]), F(0), F(100)) * 255 / 100 for a in args[:3])
        else:
            return None
        return ch, alpha
    if not (re.fullmatch(NUM, args[0]) and re.fullmatch(NUM + '%', args[1]) and re.fullmatch(NUM + '%', args[2])): return None
    h = _num(args[0]); sat = _clip(_num(args[1][:-1]), F(0), F(100)) / 100; li = _clip(_num(args[2][:-1]), F(0), F(100)) / 100
    return tuple(c * 255 for c in hsl_to_rgb_exact(h, sat, li)), alpha


def nearest8(x):
    """set of 8-bit values that are a nearest integer to the exact value x (two on an exact tie)"""
    lo = x.numerator // x.denominator
    fr = x - lo
    if fr < F(1, 2): return {lo}
    if fr > F(1, 2): return {lo + 1}
    return {lo, lo + 1}


def reads_as(s, rgb, allow_bare_hex=False):
    """does the opaque CSS value s denote exactly the 8-bit colour rgb (each channel a nearest 8-bit value)?"""
    r = parse(s, allow_bare_hex)
    if r is None or r[1] != 1: return False
    return all(v in nearest8(x) for v, x in zip(rgb, r[0]))


def selftest():
    import tinycss2.color3 as c3
    cases = ['#fff', '#A0b1C2', 'red', 'ReD', 'rgb(1,2,3)', 'rgb( 10% , 20.5% , 100%)', 'rgba(255, 0, 0, 0.5)', 'hsl(120, 100%, 50%)',
             'hsl(-30, 50%, 25%)', 'hsl(400.5, 33.3%, 66.6%)', 'hsla(210, 40%, 60%, .25)', 'rgb(300, -5, 12)',
             'hsl(197.88, 100.00000000000003%, 55.09%)', 'rgb(1 2 3)', 'hsl(12, 0.5, 0.5)', 'fff', 'rgb(1.5, 2, 3)']
    n = 0
    for c in cases:
        mine, theirs = parse(c), c3.parse_color(c)
        if mine is None or theirs is None:
            assert mine is None and theirs is None, (c, mine, theirs); n += 1; continue
        for x, y in zip(mine[0], theirs[:3]):
            assert abs(float(x) / 255 - min(1.0, max(0.0, y))) < 1e-9, (c, mine, theirs)
        assert abs(float(mine[1]) - theirs[3]) < 1e-9
        n += 1
    return {'agree_tinycss2_color3_cases': n}


if __name__ == '__main__':
    print(selftest())
