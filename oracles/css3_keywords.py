"""CSS Color Module Level 3 extended colour keywords (147) + rebeccapurple (CSS Color 4, named in property C07).
Entered from the specification's table; `selftest()` cross-checks it against two sources that are independent of
cm-colors: tinycss2.color3 (third-party CSS Color 3 parser) and X11's rgb.txt (for the names they share; the four
names whose CSS value differs from X11 - gray/grey, green, maroon, purple - are excluded from that comparison)."""
KEYWORDS = {
 'aliceblue': (240, 248, 255), 'antiquewhite': (250, 235, 215), 'aqua': (0, 255, 255), 'aquamarine': (127, 255, 212),
 'azure': (240, 255, 255), 'beige': (245, 245, 220), 'bisque': (255, 228, 196), 'black': (0, 0, 0),
 'blanchedalmond': (255, 235, 205), 'blue': (0, 0, 255), 'blueviolet': (138, 43, 226), 'brown': (165, 42, 42),
 'burlywood': (222, 184, 135), 'cadetblue': (95, 158, 160), 'chartreuse': (127, 255, 0), 'chocolate': (210, 105, 30),
 'coral': (255, 127, 80), 'cornflowerblue': (100, 149, 237), 'cornsilk': (255, 248, 220), 'crimson': (220, 20, 60),
 'cyan': (0, 255, 255), 'darkblue': (0, 0, 139), 'darkcyan': (0, 139, 139), 'darkgoldenrod': (184, 134, 11),
 'darkgray': (169, 169, 169), 'darkgreen': (0, 100, 0), 'darkgrey': (169, 169, 169), 'darkkhaki': (189, 183, 107),
 'darkmagenta': (139, 0, 139), 'darkolivegreen': (85, 107, 47), 'darkorange': (255, 140, 0), 'darkorchid': (153, 50, 204),
 'darkred': (139, 0, 0), 'darksalmon': (233, 150, 122), 'darkseagreen': (143, 188, 143), 'darkslateblue': (72, 61, 139),
 'darkslategray': (47, 79, 79), 'darkslategrey': (47, 79, 79), 'darkturquoise': (0, 206, 209), 'darkviolet': (148, 0, 211),
 'deeppink': (255, 20, 147), 'deepskyblue': (0, 191, 255), 'dimgray': (105, 105, 105), 'dimgrey': (105, 105, 105),
 'dodgerblue': (30, 144, 255), 'firebrick': (178, 34, 34), 'floralwhite': (255, 250, 240), 'forestgreen': (34, 139, 34),
 'fuchsia': (255, 0, 255), 'gainsboro': (220, 220, 220), 'ghostwhite': (248, 248, 255), 'gold': (255, 215, 0),
 'goldenrod': (218, 165, 32), 'gray': (128, 128, 128), 'green': (0, 128, 0), 'greenyellow': (173, 255, 47),
 'grey': (128, 128, 128), 'honeydew': (240, 255, 240), 'hotpink': (255, 105, 180), 'indianred': (205, 92, 92),
 'indigo': (75, 0, 130), 'ivory': (255, 255, 240), 'khaki': (240, 230, 140), 'lavender': (230, 230, 250),
 'lavenderblush': (255, 240, 245), 'lawngreen': (124, 252, 0), 'lemonchiffon': (255, 250, 205), 'lightblue': (173, 216, 230),
 'lightcoral': (240, 128, 128), 'lightcyan': (224, 255, 255), 'lightgoldenrodyellow': (250, 250, 210), 'lightgray': (211, 211, 211),
 'lightgreen': (144, 238, 144), 'lightgrey': (211, 211, 211), 'lightpink': (255, 182, 193), 'lightsalmon': (255, 160, 122),
 'lightseagreen': (32, 178, 170), 'lightskyblue': (135, 206, 250), 'lightslategray': (119, 136, 153), 'lightslategrey': (119, 136, 153),
 'lightsteelblue': (176, 196, 222), 'lightyellow': (255, 255, 224), 'lime': (0, 255, 0), 'limegreen': (50, 205, 50),
 'linen': (250, 240, 230), 'magenta': (255, 0, 255), 'maroon': (128, 0, 0), 'mediumaquamarine': (102, 205, 170),
 'mediumblue': (0, 0, 205), 'mediumorchid': (186, 85, 211), 'mediumpurple': (147, 112, 219), 'mediumseagreen': (60, 179, 113),
 'mediumslateblue': (123, 104, 238), 'mediumspringgreen': (0, 250, 154), 'mediumturquoise': (72, 209, 204), 'mediumvioletred': (199, 21, 133),
 'midnightblue': (25, 25, 112), 'mintcream': (245, 255, 250), 'mistyrose': (255, 228, 225), 'moccasin': (255, 228, 181),
 'navajowhite': (255, 222, 173), 'navy': (0, 0, 128), 'oldlace': (253, 245, 230), 'olive': (128, 128, 0),
 'olivedrab': (107, 142, 35), 'orange': (255, 165, 0), 'orangered': (255, 69, 0), 'orchid': (218, 112, 214),
 'palegoldenrod': (238, 232, 170), 'palegreen': (152, 251, 152), 'paleturquoise': (175, 238, 238), 'palevioletred': (219, 112, 147),
 'papayawhip': (255, 239, 213), 'peachpuff': (255, 218, 185), 'peru': (205, 133, 63), 'pink': (255, 192, 203),
 'plum': (221, 160, 221), 'powderblue': (176, 224, 230), 'purple': (128, 0, 128), 'red': (255, 0, 0),
 'rosybrown': (188, 143, 143), 'royalblue': (65, 105, 225), 'saddlebrown': (139, 69, 19), 'salmon': (250, 128, 114),
 'sandybrown': (244, 164, 96), 'seagreen': (46, 139, 87), 'seashell': (255, 245, 238), 'sienna': (160, 82, 45),
 'silver': (192, 192, 192), 'skyblue': (135, 206, 235), 'slateblue': (106, 90, 205), 'slategray': (112, 128, 144),
 'slategrey': (112, 128, 144), 'snow': (255, 250, 250), 'springgreen': (0, 255, 127), 'steelblue': (70, 130, 180),
 'tan': (210, 180, 140), 'teal': (0, 128, 128), 'thistle': (216, 191, 216), 'tomato': (255, 99, 71),
 'turquoise': (64, 224, 208), 'violet': (238, 130, 238), 'wheat': (245, 222, 179), 'white': (255, 255, 255),
 'whitesmoke': (245, 245, 245), 'yellow': (255, 255, 0), 'yellowgreen': (154, 205, 50),
 'rebeccapurple': (102, 51, 153),
}
X11_DIFFERS = {'gray', 'grey', 'green', 'maroon', 'purple'}


def selftest():
    """-> dict with counts; raises AssertionError on any disagreement"""
    assert len(KEYWORDS) == 148, len(KEYWORDS)
    out = {'keywords': 148}
    try:
        import tinycss2.color3 as c3
        n = 0
        for k, v in KEYWORDS.items():
            r = c3.parse_color(k)
            if r is None:
                assert k == 'rebeccapurple', k; continue
            assert tuple(round(x * 255) for x in r[:3]) == v, (k, v, r)
            n += 1
        out['agree_tinycss2_color3'] = n
    except ImportError:
        out['agree_tinycss2_color3'] = None
    try:
        x11 = {}
        for line in open('/usr/share/X11/rgb.txt', encoding='latin-1'):
            if line.startswith('!') or not line.strip(): continue
            parts = line.split()
            name = ''.join(parts[3:]).lower()
            x11.setdefault(name, tuple(int(v) for v in parts[:3]))
        n = 0
        for k, v in KEYWORDS.items():
            if k in x11 and k not in X11_DIFFERS:
                assert x11[k] == v, (k, v, x11[k]); n += 1
        out['agree_x11_rgb_txt'] = n
    except OSError:
        out['agree_x11_rgb_txt'] = None
    return out


if __name__ == '__main__':
    print(selftest())
