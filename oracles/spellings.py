"""Generators of input spellings (the 'every accepted spelling' quantifier of C01/C06/C07/C12/C13/C17), each with the
colour CSS assigns to it (computed here, exactly) and the output format kind the documentation promises."""
from fractions import Fraction as F
from .css3_keywords import KEYWORDS

NAME_OF = {}
for k, v in KEYWORDS.items(): NAME_OF.setdefault(v, k)


def hsl_of(rgb):
    """exact rational HSL (h degrees, s, l in [0,1]) of an 8-bit colour"""
    r, g, b = (F(v, 255) for v in rgb)
    mx, mn = max(r, g, b), min(r, g, b)
    l = (mx + mn) / 2
    if mx == mn: return F(0), F(0), l
    d = mx - mn
    s = d / (1 - abs(2 * l - 1))
    if mx == r: h = ((g - b) / d) % 6
    elif mx == g: h = (b - r) / d + 2
    else: h = (r - g) / d + 4
    return h * 60, s, l


def _dec(x, nd=12):
    """decimal text of a rational, nd fractional digits, exact rounding"""
    q = round(x * 10 ** nd)
    s = f'{abs(q) // 10 ** nd}.{abs(q) % 10 ** nd:0{nd}d}'.rstrip('0').rstrip('.')
    return ('-' if q < 0 and s != '0' else '') + s


def opaque_spellings(rgb, rng=None):
    """[(spelling, kind)] all denoting exactly rgb; kind = documented output format for that input"""
    r, g, b = rgb
    hx = f'{r:02x}{g:02x}{b:02x}'
    out = [(f'#{hx}', 'hex'), (hx.upper(), 'hex'), (f'  #{hx.upper()} ', 'hex'), (f'rgb({r}, {g}, {b})', 'rgb'), (f'RGB( {r} ,{g},  {b} )', 'rgb'),
           ((r, g, b), 'tuple'), ([r, g, b], 'tuple'), (f'rgba({r}, {g}, {b}, 1)', 'hex'), ((r, g, b, 1.0), 'hex')]
    if all(c[0] == c[1] for c in (hx[0:2], hx[2:4], hx[4:6])):
        out.append((f'#{hx[0]}{hx[2]}{hx[4]}', 'hex')); out.append((f'{hx[0]}{hx[2]}{hx[4]}'.upper(), 'hex'))
    if rgb in NAME_OF:
        out.append((NAME_OF[rgb], 'hex')); out.append((NAME_OF[rgb].upper(), 'hex'))
    h, s, l = hsl_of(rgb)
    out.append((f'hsl({_dec(h)}, {_dec(s * 100)}%, {_dec(l * 100)}%)', 'hsl'))
    out.append((f'hsla({_dec(h)}, {_dec(s * 100)}%, {_dec(l * 100)}%, 1)', 'hex'))
    if all(v * 100 % 255 == 0 for v in rgb):
        out.append((f'rgb({r * 100 // 255}%, {g * 100 // 255}%, {b * 100 // 255}%)', 'rgb'))
    return out


import re
KIND_RE = {'hex': re.compile(r'#[0-9a-f]{6}\Z'), 'rgb': re.compile(r'rgb\(\d{1,3}, \d{1,3}, \d{1,3}\)\Z'),
           'hsl': re.compile(r'hsl\([0-9.eE+-]+, [0-9.eE+-]+%, [0-9.eE+-]+%\)\Z')}


def is_kind(value, kind):
    if kind == 'tuple': return type(value) is tuple and len(value) == 3 and all(type(x) is int and 0 <= x <= 255 for x in value)
    return isinstance(value, str) and bool(KIND_RE[kind].match(value))
