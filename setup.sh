#!/bin/sh
# MANIFEST.setup_cmd — builds /verif/.venv offline (idempotent).
#  * python 3.12 (same interpreter the repo's suite runs on) so engines D/E execute the real code
#  * z3-solver, cvc5, numpy, mpmath, jsonschema from the offline wheelhouse
#  * a .pth adding /venv's site-packages (tinycss2, click, rich, pytest ...) — /repo/src itself is put on
#    sys.path explicitly by the checks, never through /venv's editable install.
set -e
cd "$(dirname "$0")"
V=.venv
if [ -x "$V/bin/python" ] && "$V/bin/python" -c "import z3, cvc5, numpy, mpmath, tinycss2, click, rich" 2>/dev/null; then
  echo "setup: $V already usable"; exit 0
fi
rm -rf "$V"
/venv/bin/python -m venv "$V"
PIP_NO_INDEX=1 "$V/bin/python" -m pip install -q --no-index --find-links /opt/veriftools/wheels \
    z3-solver cvc5 numpy mpmath jsonschema
SP=$("$V/bin/python" -c "import sysconfig; print(sysconfig.get_paths()['purelib'])")
echo "import site; site.addsitedir('/venv/lib/python3.12/site-packages')" > "$SP/verif_overlay.pth"
"$V/bin/python" -c "import z3, cvc5, numpy, mpmath, tinycss2, click, rich; print('setup: ok', z3.get_version_string())"
