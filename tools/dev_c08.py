import sys, time, os
sys.path.insert(0, '/verif')
from vf.program import Program
from vf.contracts import verify_function, model_summary
from contracts.registry import build
prog = Program()
reg = build('c08')
c = reg.get('cm_colors.cli.main:process_nodes_recursive__coloured_rule')
t = time.time()
rep = verify_function(prog, reg, c)
print(f'{c.short}: paths {rep.paths} vcs {len(rep.results)} discharged {len(rep.discharged)} failed {len(rep.failed)} unknown {len(rep.unknown)} err {rep.error} wall {time.time()-t:.2f}s')
def short(t):
    if isinstance(t, str): return t
    if isinstance(t, tuple) and t[0] == 'call': return 'call:' + t[1]
    if isinstance(t, tuple) and t[0] == 'effect': return f'effect:{t[1]}@{t[2]}'
    return None
seen = set()
for r in rep.failed + rep.unknown:
    tr = [short(t) for t in r.obl.info.get('trace', ()) if short(t)]
    key = (r.obl.name, tuple(tr))
    if key in seen: continue
    seen.add(key)
    print('  ', r.status, r.obl.name, r.obl.info.get('site', ''))
    print('       ', ' > '.join(tr))
    if '-m' in sys.argv: print('       ', model_summary(r, 30))
for a in sorted(rep.assumptions): print('   assume:', a)
