import sys, time
sys.path.insert(0, '/verif')
from vf.program import Program
from vf.contracts import verify_function, model_summary
from contracts.registry import build
M='cm_colors.core.optimisation'
MUTS = [
 ('strict flag vs target', M, "success = final_contrast >= min_contrast", "success = final_contrast >= target_contrast", '_strategy_strict', True),
 ('bs: tolerance guard removed', M, "            if delta_e > delta_e_threshold:\n                if search_up:", "            if False:\n                if search_up:", 'binary_search_lightness', True),
 ('gen: update > -> <', M, "            if result_contrast > best_contrast:\n                best_contrast = result_contrast\n                best_candidate = binary_result", "            if result_contrast < best_contrast:\n                best_contrast = result_contrast\n                best_candidate = binary_result", 'generate_accessible_color', True),
 ('gen: best_contrast=0.0', M, "    best_contrast = current_contrast\n", "    best_contrast = 0.0\n", 'generate_accessible_color', True),
 ('rec: stuck returns True', M, "            else:\n                return next_rgb, False", "            else:\n                return next_rgb, True", '_strategy_recursive', True),
 ('relaxed: fallback text,True', M, "        return rec_rgb, False", "        return text_rgb, True", '_strategy_relaxed', True),
 ('rec: max_iterations=12 harmless', M, "max_iterations = 10", "max_iterations = 12", '_strategy_recursive', False),
 ('rec: max_iterations=0', M, "max_iterations = 10", "max_iterations = 0", '_strategy_recursive', True),
 ('gd: final tol test removed', M, "            if final_delta_e <= delta_e_threshold:\n                return final_rgb", "            if True:\n                return final_rgb", 'gradient_descent_oklch', True),
 ('gen: default schedule to 6.0', M, "            4.0,\n            5.0,\n        ]\n\n    best_candidate", "            4.0,\n            6.0,\n        ]\n\n    best_candidate", 'generate_accessible_color', True),
 ('rec: schedule 3.0->3.5', M, "strict_sequence = [0.8, 1.0, 1.2, 1.4, 1.6, 1.8, 2.0, 2.2, 2.5, 2.8, 3.0]\n\n    for _ in range(max_iterations):", "strict_sequence = [0.8, 1.0, 1.2, 1.4, 1.6, 1.8, 2.0, 2.2, 2.5, 2.8, 3.5]\n\n    for _ in range(max_iterations):", '_strategy_recursive', True),
 ('caf: premium large min 4.5->3.0', M, "        if large:\n            min_contrast = 4.5\n            target_contrast = 4.5", "        if large:\n            min_contrast = 3.0\n            target_contrast = 4.5", 'check_and_fix_contrast', True),
 ('caf: early return vs target', M, "required_contrast_for_check = min_contrast", "required_contrast_for_check = target_contrast", 'check_and_fix_contrast', True),
 ('caf: mode dispatch swapped', M, "    elif mode == 2:\n        tuned_rgb, success = _strategy_relaxed(", "    elif mode == 1:\n        tuned_rgb, success = _strategy_relaxed(", 'check_and_fix_contrast', True),
 ('relaxed: skip recursive shortcut', M, "    if rec_success:\n        return rec_rgb, True\n", "    if False:\n        return rec_rgb, True\n", '_strategy_relaxed', True),
 ('relaxed: opt A starts from rec_rgb (harmless for chain)', M, "    opt_a_rgb = text_rgb\n", "    opt_a_rgb = rec_rgb\n", '_strategy_relaxed', None),
]
base = Program(); reg = build()
only = sys.argv[1:] 
for name, mod, old, new, fn, expect in MUTS:
    if only and not any(o in name for o in only): continue
    mp = base.mutate(mod, old, new)
    if mp is None: print('PATTERN-GONE', name); continue
    c = reg.get(f'{mod}:{fn}')
    t=time.time(); rep = verify_function(mp, reg, c)
    failed = sorted({r.obl.name.split('/ret')[0] for r in rep.failed})
    verdict = 'KILLED' if rep.failed else ('UNDECIDED' if rep.error or rep.unknown else 'survived')
    flag = '' if expect is None else ('  OK' if (expect == bool(rep.failed)) else '  <<<<<< UNEXPECTED')
    print(f'{verdict:9s} {name}: failed={failed[:5]} err={rep.error} {time.time()-t:.1f}s{flag}')
