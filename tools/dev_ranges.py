import sys; sys.path.insert(0,'/verif')
from vf.program import Program
from vf.ranges import verify_range
from contracts.ranges import contracts
prog=Program(); cs=contracts()
for q in (sys.argv[1:] or cs):
    if ':' not in q: q=[k for k in cs if k.endswith(':'+q)][0]
    obls, err = verify_range(prog, cs, q)
    print(q.split(':')[1], 'obligations', len(obls), 'failed', sum(1 for o in obls if o.ok is False), 'unknown', sum(1 for o in obls if o.ok is None), 'err', err)
    for o in obls:
        if o.ok is not True or '-v' in sys.argv: print('   ', o.ok, o.name, '|', o.backend, '|', o.detail[:160])
