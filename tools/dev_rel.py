import sys, time
sys.path.insert(0, '/verif')
from vf.program import Program
from vf.contracts import model_summary
from vf.relational import verify_relational
from contracts.registry import build
from contracts.relational import specs
prog = Program()
reg = build(None)
SP = specs()
names = sys.argv[1:] or list(SP)
for q in names:
    if '~rel' not in q: q = [k for k in SP if k.endswith(':' + q + '~rel')][0]
    rs = SP[q]
    t = time.time()
    rep = verify_relational(prog, reg, rs)
    print(f'{rs.short}: paths {rep.paths} vcs {len(rep.results)} discharged {len(rep.discharged)} failed {len(rep.failed)} unknown {len(rep.unknown)} err {rep.error} inst {getattr(rep,"rel_instances",0)} wall {time.time()-t:.2f}s feas {getattr(rep,"nfeas",0)}')
    for r in rep.results:
        if '-v' in sys.argv or r.status != 'discharged': print('   ', r.status, r.obl.name, r.solver)
    for r in rep.failed[:4]:
        print('   FAIL', r.obl.name, [str(t)[:80] for t in r.obl.info.get('trace', ())][-8:])
        print('       ', model_summary(r, 40))
