"""debug: path growth per top-level statement of one function under its contract (VARIANT env selects the registry)"""
import sys, time, os
sys.path.insert(0, '/verif')
from vf import symex
from vf.program import Program
from vf.contracts import verify_function
from contracts.registry import build
qual = sys.argv[1]
depth = int(sys.argv[2]) if len(sys.argv) > 2 else 1
origb = symex.Exec.block
T0 = time.time()
state = {'d': 0}
def block(self, stmts, p, fr):
    if fr.qual == qual.split('#')[0] and state['d'] < depth:
        state['d'] += 1
        d = state['d']
        outs = [('fall', p, None)]
        for st in stmts:
            nxt = []
            for k, q, v in outs:
                if k != 'fall': nxt.append((k, q, v)); continue
                nxt += self.stmt(st, q, fr)
            outs = nxt
            print(f'{"  " * d}L{st.lineno} {type(st).__name__}: live={sum(1 for k, _, _ in outs if k == "fall")} done={sum(1 for k, _, _ in outs if k != "fall")} t={time.time() - T0:.1f}', flush=True)
        state['d'] -= 1
        return outs
    return origb(self, stmts, p, fr)
symex.Exec.block = block
prog = Program(); reg = build(os.environ.get('VARIANT'))
rep = verify_function(prog, reg, reg.get(qual))
print('paths', rep.paths, 'vcs', len(rep.results), 'failed', len(rep.failed), rep.error, round(time.time() - T0, 1))
