import sys, time
sys.path.insert(0, '/verif')
from vf.program import Program
from vf.contracts import verify_function, model_summary
from contracts.registry import build
prog = Program()
import os
reg = build(os.environ.get('VARIANT'))
names = sys.argv[1:] or [q for q, c in reg.contracts.items() if not c.assumed]
tot = 0
for q in names:
    if ':' not in q: q = [k for k in reg.contracts if k.endswith(':' + q)][0]
    c = reg.get(q)
    t = time.time()
    rep = verify_function(prog, reg, c)
    print(f'{c.short}: paths {rep.paths} vcs {len(rep.results)} discharged {len(rep.discharged)} failed {len(rep.failed)} unknown {len(rep.unknown)} err {rep.error} wall {time.time()-t:.2f}s feas {getattr(rep,"nfeas",0)}')
    for r in rep.failed[:6]:
        print('   FAIL', r.obl.name, r.obl.info.get('trace'))
        print('       ', model_summary(r, 30))
    for a in sorted(rep.assumptions): print('   assume:', a)
