#!/usr/bin/env python3
"""Regenerates /verif/MANIFEST.json from the table below (kept valid at all times)."""
import json, os
V = os.path.dirname(os.path.dirname(os.path.abspath(__file__)))
ALL = [f'C{i:02d}' for i in range(1, 20)]
TB = ("trusted: CPython 3.12 compiles the AST as parsed; stdlib math/re/str/float/round as documented; z3 5.1 / cvc5 correct on QF_UFLIRA; "
      "floats treated as reals where only compared; no monkey-patching. ")
CHECKS = {
 'C01': dict(cat='proof', tech='contract-based deductive verification: VCs generated from the real AST (sidecar contracts, modular), z3/cvc5',
   text="flag_iff (success == WCAG verdict on the returned colour, minima 4.5/3.0/7.0/4.5 from the statement) is a postcondition on every function from "
        "ColorPair.make_readable down to the three strategies, proved for all inputs / all iterations against callee contracts only. Read-back lemma and CR==WCAG "
        "are discharged in C06 (engine D exhaustive) and C05. Bounded run-time re-check of the same contract on the real code (engine E) is reported separately.",
   note=TB + "assumes C05 (CR is the WCAG ratio), C06 (READ(format(t))=t), C14 (Color invariant), C15 (purity of kernels).", ref='§8 C01'),
 'C02': dict(cat='proof', tech='contract-based deductive verification: VCs from the real AST, loop invariant over a symbolic tolerance schedule, z3/cvc5',
   text="keep_if_ok and no_harm are postconditions on make_readable, check_and_fix_contrast, the strategies and generate_accessible_color; proved for all inputs "
        "and all schedules. Bounded run-time re-check (engine E) reported separately.",
   note=TB + "assumes C05, C06, C14, C15 as in C01.", ref='§8 C02'),
 'C04': dict(cat='proof', tech='contract-based deductive verification: VCs from the real AST, symbolic tolerances/schedules, REACH closure invariant, z3/cvc5',
   text="search routines return None/input or a valid colour within the symbolic tolerance given; strict mode <= 5.0; modes 1/2 satisfy the REACH(3.0) chain invariant "
        "(resp. REACH or <= 15.0). DE is the CIEDE2000 symbol fixed by C11.",
   note=TB + "assumes C11 (DE is CIEDE2000, 0 for identical colours), C06 read-back.", ref='§8 C04'),
 'C03': dict(cat='exploration', tech='bounded run-time contract on the real make_readable with an independent witness oracle (stand-in: the existential precondition over transcendental float pipelines is outside what contracts + the installed solvers can decide)',
   text="NOT proved: for generated pairs on which an independent exhaustive scan of the text's lightness line finds a witness (within CIEDE2000 1.5, clearing min+0.05), every mode must succeed and stay within 2.0. "
        "Quick ~950 witnessed cases x 3 modes, thorough ~35,000 x 3. Two genuine defects found this way were repaired (see known_findings.json).",
   note="oracles in /verif/oracles (float64), 0.01 dE slack; bounded to the generated cases and seeds.", ref='§8 C03, §9'),
 'C07': dict(cat='other', tech='z3 string-theory dispatch lemmas over the decision list extracted from the real AST + ring-normal-form conformance of the HSL arithmetic (engine B) + contract proofs of identity/blends (engine A) + exhaustive tables (engine D); tokenisation bounded (engine E)',
   text="proved: every member of each CSS class reaches that class's branch (z3 strings; strip/lower image assumed); hsl_to_rgb == CSS Color 3 algorithm + nearest integer for every real hue and s,l in [0,1]; an 8-bit int triple parses to "
        "itself; rgba = nearest integer of source-over, hsla = truncation over the rounded colour (<= 1.5); complete: 148 keywords x spellings, all #rgb, all 2^24 #rrggbb (thorough), all hex digit pairs. NOT provable with the installed solvers: "
        "regex findall / replace+split tokenisation and float(str) - assumed and exercised by generated class members vs a reference CSS parser (bounded).",
   note=TB + "reference CSS parser in /verif/oracles; tokenisation contract assumed (bounded check).", ref='§8 C07'),
 'C08': dict(cat='other', tech='contract-based deductive verification of three mechanically extracted blocks of process_nodes_recursive - per-rule accounting, at-rule descent, declaration scan - and of resolve_variable (str-or-None, never raises, every recursion depth) (engine A, z3; API as function symbols with its proved contracts) + bounded run-time contract: the real click command on an enumerated stylesheet corpus judged by independent oracles (engine E)',
   text="per-rule accounting proved on the real statement block (extracted from the AST on every run): exactly one of the three counters +1 on every path incl. exception paths, 'readable' only at ratio >= 7.0/4.5, 'adjusted' only on "
        "success of make_readable(mode, premium) of this pair with the colour written and the colour reported being the API's colour, 'needs attention' listed and nothing written; the @media/@supports branch descends only there, once, forwarding every setting, and rebuilds the content; the declaration scan ends with the LAST color / background-color declaration for lists of any length (loop invariant over a recursive spec function). The file-level clause quantifies over stylesheets as "
        "interpreted by tinycss2 (a proof would be about a model of that library): checked on a generated corpus (every colour spelling, random / light colours, custom properties chained / with fallback / undefined / shared / "
        "redefined under the CSS cascade, !important, repeated declarations, same selector repeated, nesting <= 3, carry-through constructs, threshold-band pairs, a deterministic core x all 16 settings) - counts vs an independent "
        "per-rule classification, report vs written file vs Python API vs WCAG oracle, attention rules unchanged. Four defects repaired (root-rule write-back, var() with fallback, :root-vs-html cascade, unparsed declarations), one recorded as known finding (shared custom property).",
   note=TB + "assumed contracts: tinycss2-facing helpers total; API facts from C01/C06/C14/C15; shape of the `variables` map. tinycss2 as trusted reader; file-level part bounded to the corpus; known findings matched by (failure kind | trigger).", ref='§8 C08, §11'),
 'C09': dict(cat='other', tech='frame proof by the effect checker on the real ASTs + z3 string lemma (engine C) for the files touched; contract-based deductive verification of the declaration writes on the mechanically extracted per-rule and at-rule blocks (engine A, z3); bounded structural diff of input vs output on a stylesheet corpus (engine E)',
   text="proved: the only writes of the package are open(output_path,'w') in main / generate_report / to_html_bulk, output_path = parent/(stem+'_cm'+suffix) assigned once, the report path is the literal default, the only read is the "
        "input file, and stem+'_cm'+suffix != stem+suffix for all strings - so inputs are never opened for writing and nothing else is created. Proved on the extracted blocks of process_nodes_recursive: a declaration is written exactly once, with the API's colour, only when the rule is reported as adjusted (own declaration or the referenced custom property), never for readable / attention rules; @media/@supports content is only re-serialised after the descent. Bounded: rules / at-rules / comments / declarations preserved in order on the corpus.",
   note="click, tinycss2, rich assumed not to write files; tinycss2 trusted for the diff.", ref='§8 C09'),
 'C18': dict(cat='other', tech='structural obligations on the real ASTs of get_css_files and main (engine C) + bounded directory-tree runs of the real command (engine E)',
   text="proved on the AST: the _cm.css guard dominates every directory-branch yield; the per-file loop body is one try/except Exception whose handler cannot leave the loop; per-file state is rebound inside the loop; "
        "no cross-file names are read. Bounded: generated trees with every fault kind, each output byte-compared with the single-file run, run twice.",
   note="file system and click are external; unreadable files cannot be produced as root.", ref='§8 C18'),
 'C05': dict(cat='proof', tech='formula conformance by ring-normal-form proof over the real AST (engine B) + Float64 SMT proof of the labels (engine A) + exhaustive numeric closure (engine D)',
   text="luminance and contrast ratio: code == WCAG spec as exact-rational polynomial normal forms over the real ASTs (all real inputs; 0.03928 vs 0.04045 proved equivalent on 8-bit channels), symmetry / range / extremes as "
        "real-arithmetic lemmas; labels: get_contrast_level == LEVEL for EVERY double in z3's FP theory, get_wcag_level, is_readable strings by engine A. Float rounding is closed numerically by engine D: 256-value table, all "
        "2^24 luminances (thorough; quick bounded), 65,536 grey pairs, every colour vs black/white.",
   note=TB + "engine B is over the reals (pow uninterpreted); float gap closed by exhaustive evaluation only on the finite domains listed; random pairs of the 2^48 are bounded (engine E).", ref='§8 C05'),
 'C10': dict(cat='proof', tech='formula conformance + range lemmas by ring-normal-form proof over the real AST (engine B), contract-based deductive verification of the inverse and safe variants (engine A), exhaustive round trip (engine D)',
   text="forward conversion == Ottosson's definition for every real channel triple in [0,255] with L in [0,1], C >= 0, H in [0,360) on every path (B); inverse returns a valid 8-bit colour for EVERY real triple, achromatic corner "
        "cases and exact greys over the reals, safe variants equal plain on valid input and return valid values on every numeric triple (A, z3); all 2^24 colours: definition within 1e-12, float ranges, lossless round trip "
        "(D; thorough complete, quick bounded). Inverse on a grid/random triples vs the clipped definition is bounded (E).",
   note=TB + "reals for B/A (pow/sqrt/atan2/sin/cos uninterpreted with listed identities); reading N1 for 'L=0 black' (achromatic corner only).", ref='§8 C10'),
 'C11': dict(cat='other', tech='formula conformance and symmetry by ring-normal-form proof over the real AST (engine B) + range contracts for finite / non-negative / never raises (engine R: intervals, z3 nlsat on polynomial abstractions) + exhaustive Lab numerics (engine D) + bounded pair checks incl. the 34 Sharma pairs (engine E)',
   text="CIEDE2000: every constant/branch of the real routine equals the Sharma-Wu-Dalal formulation, symmetry, zero for identical colours, non-negativity proved over the reals; Lab pipeline proved against CIE with the library's "
        "4-digit epsilon/kappa as declared tolerance class; Lab of all 2^24 colours within 0.05 (thorough: complete). 'Finite, non-negative, never raises' proved over the reals by range contracts on the six functions of the pipeline (every radicand >= 0, every denominator excludes 0, exp cannot overflow; the final radicand by nlsat from |RT| <= 2). Numeric agreement of the difference on pairs is bounded (engine E).",
   note=TB + "transcendental functions are uninterpreted atoms with listed identities; range contracts are over the reals (float rounding of an exactly-zero radicand is outside the proof).", ref='§8 C11'),
 'C06': dict(cat='proof', tech='exhaustive evaluation of the real formatter/parser on all 2^24 colours x 4 formats (engine D) + contract-based deductive verification of the format table (engine A)',
   text="round trip READ(format_color(c,f)) == CSS(format_color(c,f)) == c: thorough tier enumerates all 16,777,216 colours x {hex, rgb(), hsl(), tuple} with the real code, the "
        "library parser and an independent CSS Color 3 reference parser (complete, exhaustive:true); quick tier is a bounded sub-domain. format_color's table and make_readable's "
        "format_kept on all three outcome paths are proved by engine A on the real ASTs. Input-class tagging (detect_color_format) is enumerated by engine E (bounded).",
   note=TB + "reference CSS parser in /verif/oracles (cross-checked against tinycss2.color3 each run); str.strip/lower/regex semantics assumed for the input-class dispatch.", ref='§8 C06'),
 'C12': dict(cat='proof', tech='contract-based deductive verification: VCs from the real AST of make_readable_bulk over a symbolic-length list (loop invariant + per-iteration obligation), z3',
   text="for a list of symbolic length with 2-/3-element entries: every iteration appends exactly one element and it is ENTRY(item) from the statement (single-pair API result + label of the returned colour; invalid "
        "entries kept with a non-readable status), len(results) == len(pairs); ColorPair / make_readable / is_readable enter as function symbols of their arguments. Bounded twin on the real code (engine E).",
   note=TB + "determinism of the single-pair API (C15); never raises (C14).", ref='§8 C12'),
 'C13': dict(cat='proof', tech='contract-based deductive verification: wiring by ghost call traces and object identity on the real ASTs, blend arithmetic in exact non-linear real arithmetic (engine A, z3)',
   text="ColorPair builds the background first and without context and the text over that very object; Color hands the parser the context's rgb iff valid; every alpha branch of the parser blends over exactly the supplied background "
        "(white by default); rgba_to_rgb is the nearest integer of source-over, hsla_to_rgb its truncation over the rounded HSL colour (within 1.5 of the exact blend), alpha 1 / 0 exact. Bounded twin against the exact rational blend (engine E).",
   note=TB + "reals for the blend arithmetic (float slack < 1e-12 stated); token extraction from strings is C07's bounded part.", ref='§8 C13'),
 'C14': dict(cat='proof', tech='contract-based deductive verification with tagged symbolic values and exception edges: VCs from the real ASTs of the parser stack (engine A, z3; exact non-linear arithmetic for the hsl range)',
   text="over the statement's input domain (any str; tuples/lists of length 0..5 of members with a symbolic tag int/bool/finite float/nan/+-inf/str/None) every function of the parser stack raises at most ValueError with a non-empty "
        "message and returns int triples in 0..255; Color.__init__ and ColorPair.__init__ raise nothing and establish the object invariant; invalid pairs give 'Not Readable', (None, False) and a kept bulk entry. "
        "Each function is proved against its callees' contracts only. Bounded fuzz twin on the real code (engine E).",
   note=TB + "str methods / re / float(str) / int(str,16) as documented (total; ValueError only); ints of moderate magnitude; hex digit table range by engine D.", ref='§8 C14'),
 'C15': dict(cat='proof', tech='modular frame / purity checker over the real ASTs (engine C): computed effects of each function within its declared effect contract, callees by declaration only',
   text="every function of the core is proved PURE (no module-level mutable state, no argument/self mutation outside constructors, no stateful decorators, no mutable defaults, no set iteration, no reflection, no output, no files); "
        "purity implies history-, position- and repetition-independence. Threads / separate interpreters follow by implication only (no schedule model) and are exercised by a bounded dynamic twin.",
   note=TB + "CPython objects thread-safe; effect tables for builtins/stdlib in vf/effects.py; conservative (a complete-key memoiser would be flagged).", ref='§8 C15'),
 'C17': dict(cat='proof', tech='frame checker (engine C) + contract-based deductive verification of the guard / result invariance / preview arguments on the real AST of make_readable (engine A, z3)',
   text="only to_console / to_html_bulk / generate_report (and their callers) may output or write; in make_readable every effectful path satisfies `show or save_report`; the returned tuple is the same function of the optimiser "
        "result whatever the flags; the preview receives three '#rrggbb' strings from the library's own formatter and nothing in the block raises. Bounded fd-level capture twin (engine E).",
   note=TB + "rich accepts '#rrggbb' styles; report write succeeds in a writable cwd (assumed, exercised by E).", ref='§8 C17'),
 'C19': dict(cat='proof', tech='string-provenance and HTML-context analysis of the real f-string ASTs (engine C) + exhaustive check of html.escape on short strings (engine D) + bounded payload twin (engine E)',
   text="every hole of every report template is html.escape(...)/safe composite/constant/level badge (levels proved to come from get_wcag_level/None at the call sites) and sits in element text or a double-quoted attribute value; "
        "html.escape's contract checked on all strings <= 3-4 chars over a metacharacter alphabet; reports generated by the real code under markup payloads keep their parsed structure.",
   note=TB + "html.escape as documented for all strings; CSS-level injection inside style values is outside the statement.", ref='§8 C19'),
 'C16': dict(cat='proof', tech='contract-based deductive verification: unary contracts (clause 1) and relational 2-run product contracts (clause 2) on the real ASTs (engine A, z3); bounded run-time relational twin (engine E)',
   text="clause 1 (mode 2 returns mode 1's result whenever mode 1 succeeds) is proved through the pure function symbol of _strategy_recursive; clause 2 "
        "(very_readable success => plain success) is proved by executing each real body twice in lock-step (stricter / weaker minimum, everything else shared) against a chain of "
        "relational contracts: generate_accessible_color (same result or the weaker run already passes), the three strategies and check_and_fix_contrast (success_hi => success_lo), "
        "with product loop invariants and 'the stricter run never gets ahead' obligations; make_readable returns check_and_fix_contrast's flag (wraps_caf).",
   note=TB + "purity/determinism of the strategies (C15) - needed to instantiate a relational contract between two calls; unary loop invariants assumed on both runs (proved by C01/C02/C04). "
        "Bounded twin: 160 pairs x 6 calls quick, 4000 thorough.", ref='§8 C16, §11'),
}
NA_REASON = {}
PENDING = "check not built yet in this session (engines B/C/D pending); listed so the manifest stays truthful"

checks = []
for pid in ALL:
    if pid in CHECKS:
        c = CHECKS[pid]
        checks.append({'property_id': pid, 'quick_cmd': f'bin/check {pid} --tier quick', 'thorough_cmd': f'bin/check {pid} --tier thorough',
                       'evidence_file': f'evidence/{pid}.json', 'replay_cmd_template': f'bin/check {pid} --replay {{path}}',
                       'engine': c.get('engine', 'vf'), 'technique': c['tech'],
                       'level_claimed': {'category': c['cat'], 'text': c['text'], 'design_ref': c['ref']}, 'level_note': c['note']})
man = {
 'version': 1, 'setup_cmd': './setup.sh',
 'hooks': {'guard': 'CM_COLORS_VERIF', 'enable': 'none: no source hooks are used (contracts are sidecar files keyed by qualified name; the real source is parsed on every run)',
           'baseline_off_cmd': 'cd /repo && /venv/bin/python -m pytest -ra -q -p no:cacheprovider --timeout=900 --continue-on-collection-errors',
           'source_commits': [], 'add_only': True},
 'engines': [
   {'name': 'A pyvc', 'path': 'vf/symex.py', 'serves_properties': ['C01', 'C02', 'C04', 'C05', 'C06', 'C07', 'C10', 'C12', 'C13', 'C14', 'C16', 'C17'], 'kind_free_text': 'AST -> verification conditions, modular contracts, z3/cvc5'},
   {'name': 'B ringconf', 'path': 'vf/ring.py', 'serves_properties': ['C05', 'C07', 'C10', 'C11'], 'kind_free_text': 'code == published formula as commutative-ring normal forms over uninterpreted atoms; path matching in z3 QF_LIRA'},
   {'name': 'C effects', 'path': 'vf/effects.py', 'serves_properties': ['C08', 'C09', 'C15', 'C17', 'C18', 'C19'], 'kind_free_text': 'modular frame/effect checker and HTML provenance analysis over the real ASTs'},
   {'name': 'D fdx', 'path': 'vf/fdx.py', 'serves_properties': ['C01', 'C05', 'C06', 'C11'], 'kind_free_text': 'exhaustive evaluation of the real functions on finite colour domains (16 processes)'},
   {'name': 'R ranges', 'path': 'vf/ranges.py', 'serves_properties': ['C05', 'C10', 'C11'], 'kind_free_text': 'range contracts: the real AST over intervals, callee by contract; division / sqrt / fractional power / exp safety obligations by interval, algebraic rule or z3 nlsat on the polynomial abstraction'},
   {'name': 'A-rel relational', 'path': 'vf/relational.py', 'serves_properties': ['C16'], 'kind_free_text': '2-run product of the same real AST in lock-step, relational loop invariants, relational contracts of callees'},
   {'name': 'E rtc', 'path': 'vf/rtc.py', 'serves_properties': ['C01', 'C02', 'C03', 'C04', 'C06', 'C08', 'C09', 'C12', 'C16', 'C18'], 'kind_free_text': 'bounded run-time contracts on the real functions with independent oracles (never counted as proved)'},
 ],
 'checks': checks,
 'not_applicable': [{'property_id': p, 'reason': NA_REASON.get(p, PENDING)} for p in ALL if p not in CHECKS],
 'notes': 'See DESIGN.md. Exit codes: 0 held, 1 violation (VIOLATION line), 2 undecided, 3 checker self-test failed.',
}
json.dump(man, open(os.path.join(V, 'MANIFEST.json'), 'w'), indent=1)
print('MANIFEST.json written:', len(checks), 'checks,', len(man['not_applicable']), 'not applicable')
