#!/usr/bin/env python3
"""False-alarm test: builds a semantics-preserving variant of the package OUTSIDE /repo and /verif, runs the repository's test
suite on it and then every check with VERIF_REPO pointing at it; removes the copy.  No check may print VIOLATION on it
(UNDECIDED is acceptable where a contract names a local that the variant renames).
  variants:  unparse  - every module re-emitted by ast.unparse (comments, layout, line numbers change)
             rename   - unparse + every local variable of every function renamed (x -> x_v)
             flip     - unparse + every if/else (without elif) flipped: `if not c: B else: A`
             helpers  - four hand-made 'extract a helper' refactorings (8-bit clamp, strict-mode test, output path, html escaping)
             shuffle  - unparse + top-level functions reordered, a `pass` at the start of every function, an unused helper per module
usage: tools/harmless.py <unparse|rename|flip|shuffle|helpers> [check ids...]"""
import ast, os, shutil, subprocess, sys, tempfile

variant = sys.argv[1]; ids = sys.argv[2:] or [f'C{i:02d}' for i in range(1, 20)]
tmp = tempfile.mkdtemp(prefix='harmless_')
try:
    shutil.copytree('/repo/src', f'{tmp}/src')
    class Ren(ast.NodeTransformer):
        def __init__(self, names): self.names = names
        def visit_Name(self, n):
            if n.id in self.names: n.id += '_v'
            return n
        def visit_ExceptHandler(self, n):
            if n.name in self.names: n.name += '_v'
            self.generic_visit(n); return n
    def locals_of(fn):
        params, stored, glob = set(), set(), set()
        for x in ast.walk(fn):
            if isinstance(x, (ast.FunctionDef, ast.Lambda)):
                a = x.args
                for p in a.args + a.posonlyargs + a.kwonlyargs: params.add(p.arg)
                if a.vararg: params.add(a.vararg.arg)
                if a.kwarg: params.add(a.kwarg.arg)
                if isinstance(x, ast.FunctionDef) and x is not fn: params.add(x.name)
            elif isinstance(x, (ast.Global, ast.Nonlocal)): glob.update(x.names)
            elif isinstance(x, ast.Name) and isinstance(x.ctx, ast.Store): stored.add(x.id)
            elif isinstance(x, ast.ExceptHandler) and x.name: stored.add(x.name)
            elif isinstance(x, (ast.Import, ast.ImportFrom)):
                for al in x.names: params.add(al.asname or al.name.split('.')[0])
        return stored - params - glob
    if variant == 'helpers':
        # hand-made "extract a helper" refactorings (each keeps the behaviour): applied textually where the pattern still matches
        import re
        EDITS = [
            ('core/conversions.py', [('    r_8bit = max(0, min(255, round(r_srgb * 255)))\n    g_8bit = max(0, min(255, round(g_srgb * 255)))\n    b_8bit = max(0, min(255, round(b_srgb * 255)))\n',
                                      '    r_8bit = _to_8bit(r_srgb)\n    g_8bit = _to_8bit(g_srgb)\n    b_8bit = _to_8bit(b_srgb)\n'),
                                     ('def rgb_to_linear(channel', 'def _to_8bit(unit_value):\n    return max(0, min(255, round(unit_value * 255)))\n\n\ndef rgb_to_linear(channel')]),
            ('core/optimisation.py', [('    final_contrast = calculate_contrast_ratio(tuned_rgb, bg_rgb)\n    success = final_contrast >= min_contrast\n    return tuned_rgb, success',
                                       '    success = _meets(tuned_rgb, bg_rgb, min_contrast)\n    return tuned_rgb, success'),
                                      ('def _strategy_strict(', 'def _meets(rgb, bg_rgb, minimum):\n    return calculate_contrast_ratio(rgb, bg_rgb) >= minimum\n\n\ndef _strategy_strict(')]),
            ('cli/main.py', [('            output_filename = file_path.stem + "_cm" + file_path.suffix\n            output_path = file_path.parent / output_filename\n', '            output_path = _output_path(file_path)\n'),
                             ('def serialize_prelude(prelude):', 'def _output_path(css_file):\n    new_name = css_file.stem + "_cm" + css_file.suffix\n    return css_file.parent / new_name\n\n\ndef serialize_prelude(prelude):')]),
        ]
        for rel, edits in EDITS:
            pth = f'{tmp}/src/cm_colors/{rel}'; src = open(pth).read()
            if all(src.count(o) == 1 for o, n_ in edits):
                for o, n_ in edits: src = src.replace(o, n_)
                open(pth, 'w').write(src)
        pth = f'{tmp}/src/cm_colors/cli/html_report.py'; src = open(pth).read()
        src2 = re.sub(r'html\.escape\(str\((pair\["\w+"\])\)\)', r'_esc(\1)', src)
        if src2 != src:
            src2 = src2.replace('def generate_report(', 'def _esc(value):\n    return html.escape(str(value))\n\n\ndef generate_report(', 1); open(pth, 'w').write(src2)
    for dp, dn, fns in os.walk(f'{tmp}/src/cm_colors'):
        for f in fns:
            if not f.endswith('.py'): continue
            p = os.path.join(dp, f); s = open(p).read()
            if not s.strip(): continue
            t = ast.parse(s)
            if variant == 'flip':
                # `if c: A else: B` (no elif) -> `if not c: B else: A`
                class Flip(ast.NodeTransformer):
                    def visit_If(self, n):
                        self.generic_visit(n)
                        if n.orelse and not (len(n.orelse) == 1 and isinstance(n.orelse[0], ast.If)):
                            n.test, n.body, n.orelse = ast.UnaryOp(op=ast.Not(), operand=n.test), n.orelse, n.body
                        return n
                t = ast.fix_missing_locations(Flip().visit(t))
            if variant == 'shuffle':
                # top-level functions in reverse order (imports, constants and classes keep their place), a no-op statement at the start of every
                # function body, an unused helper appended to every module
                funcs = [n for n in t.body if isinstance(n, ast.FunctionDef) and not n.decorator_list]
                slots = [i for i, n in enumerate(t.body) if n in funcs]
                for i, f2 in zip(slots, reversed(funcs)): t.body[i] = f2
                for n in ast.walk(t):
                    if isinstance(n, ast.FunctionDef):
                        k = 1 if (n.body and isinstance(n.body[0], ast.Expr) and isinstance(n.body[0].value, ast.Constant)) else 0
                        n.body.insert(k, ast.Pass())
                t.body.append(ast.parse('def _unused_helper_for_the_variant(x):\n    return x\n').body[0])
                t = ast.fix_missing_locations(t)
            if variant == 'rename':
                def handle(body):
                    for node in body:
                        if isinstance(node, ast.FunctionDef): Ren(locals_of(node)).visit(node)
                        elif isinstance(node, ast.ClassDef): handle(node.body)
                handle(t.body)
            open(p, 'w').write(ast.unparse(t) + '\n')
    r = subprocess.run(['/venv/bin/python', '-m', 'pytest', '-q', '-p', 'no:cacheprovider', '/repo/tests'], cwd=tmp, env=dict(os.environ, PYTHONPATH=f'{tmp}/src'), capture_output=True, text=True)
    print('test suite on the variant:', r.stdout.strip().splitlines()[-1])
    bad = 0
    for c in ids:
        out = subprocess.run(['/verif/bin/check', c], env=dict(os.environ, VERIF_REPO=tmp, VERIF_NO_EVIDENCE='1'), capture_output=True, text=True).stdout
        lines = [l for l in out.splitlines() if l.startswith(('VIOLATION', 'SELFTEST-FAILED')) or 'exit=' in l]
        bad += sum(1 for l in lines if l.startswith(('VIOLATION', 'SELFTEST-FAILED')))
        print('\n'.join(l[:200] for l in lines))
    print('FALSE ALARMS:', bad)
    sys.exit(1 if bad else 0)
finally:
    shutil.rmtree(tmp, ignore_errors=True)
