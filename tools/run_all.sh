#!/bin/sh
# runs every check on the current /repo tree (quick tier unless TIER is set) and prints one line per check
cd /verif
git -C /repo diff --quiet || { echo "/repo not clean"; exit 9; }
for c in C01 C02 C03 C04 C05 C06 C07 C08 C09 C10 C11 C12 C13 C14 C15 C16 C17 C18 C19; do
  bin/check $c --tier ${TIER:-quick} 2>&1 | grep -E "VIOLATION|UNDECIDED|SELFTEST|CRASH|Traceback|exit=" | cut -c1-220
done
