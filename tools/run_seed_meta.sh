#!/bin/sh
# usage: run_seed_meta.sh <seed> <property>  -> applies the seed (try_seed.sh), collects which obligations reported it, writes meta.json
S=$1; P=$2
OUT=$(/verif/tools/try_seed.sh $S $P 2>&1)
echo "$OUT" | grep -E "exit=" | cut -c1-200
/verif/.venv/bin/python - "$S" "$P" <<PY
import sys, json, re, os, subprocess
seed, prop = sys.argv[1], sys.argv[2]
out = '''$(echo "$OUT" | sed "s/'''/'' '/g")'''
obls = []
for m in re.finditer(r'VIOLATION property=(\S+) replay=(\S+)( no-failing-input-found)?', out):
    try: r = json.load(open(m.group(2)))
    except Exception: continue
    obls.append(f"{r['obligation']} ({r['engine']}{'' if r.get('concrete_input') else ', no-failing-input-found'})")
und = re.findall(r'UNDECIDED property=\S+ what=(.*?) why=', out)
code = re.search(r'exit=(\d)', out)
res = ('caught: VIOLATION ' + prop + ' ' + '; '.join(obls[:4])) if obls else ('NOT caught (exit ' + (code.group(1) if code else '?') + ')' + (' undecided: ' + '; '.join(und[:2]) if und else ''))
subprocess.run(['/verif/.venv/bin/python', '/verif/tools/seed_meta.py', seed, prop, res])
print(seed, '->', res[:300])
PY
