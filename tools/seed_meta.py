#!/usr/bin/env python3
"""writes /verif/seeded/<id>/meta.json; usage: seed_meta.py <seed> <property> '<caught_by text>'"""
import json, os, sys
seed, prop, caught = sys.argv[1], sys.argv[2], sys.argv[3]
d = f'/verif/seeded/{seed}'
notes = open(f'{d}/notes.md').read() if os.path.exists(f'{d}/notes.md') else ''
json.dump({'seed': seed, 'breaks_property': prop, 'needs_to_manifest': notes.strip(),
           'confirmed_by': 'tools/verify_seed.sh in a scratch worktree of /repo: demo passes on the untouched tree, the 125-test suite passes with the patch, demo fails with the patch',
           'origin': 'written by a fresh sub-agent that saw only the property text and its own scratch worktree (nothing from /verif)',
           'ran': f'tools/try_seed.sh {seed} {prop} (git -C /repo apply, bin/check, git checkout)', 'result': caught}, open(f'{d}/meta.json', 'w'), indent=1)
