#!/usr/bin/env python3
"""Prints the prompt given to a seeding sub-agent for one property (only the property text + its scratch worktree)."""
import json, sys
pid = sys.argv[1]
VA, VB = (sys.argv[2], sys.argv[3]) if len(sys.argv) > 3 else ('a', 'b')
props = {json.loads(l)['id']: json.loads(l) for l in open('/verif/properties.jsonl')}
p = props[pid]
print(f"""You are helping to stress-test a verification effort for the pure-Python library cm-colors (WCAG colour-contrast library with a CSS-rewriting CLI).
You have your own scratch git worktree of the library at /tmp/seed/{pid} . Work ONLY there and in /tmp/seed/{pid}-out . Do NOT read or touch /repo, /verif or /root (anything there is off limits and irrelevant to you).

Run the existing test suite with:
  cd /tmp/seed/{pid} && PYTHONPATH=/tmp/seed/{pid}/src /venv/bin/python -m pytest -q -p no:cacheprovider -x
(125 tests, ~5 s). PYTHONPATH makes `import cm_colors` resolve to your worktree - verify with
  PYTHONPATH=/tmp/seed/{pid}/src /venv/bin/python -c "import cm_colors; print(cm_colors.__file__)"

PROPERTY {pid}: {p['title']}
{p['statement']}
(Quantified over: {p['quantifier']['text']})

TASK: produce TWO independent, clearly different source changes to the library (files under src/cm_colors only; never edit tests), each of which
 (a) breaks the property above on the changed code,
 (b) still imports and runs,
 (c) leaves the complete existing test suite passing (all 125 tests) - run it,
 (d) is realistic: the sort of slip, 'optimisation', refactor or well-meant feature a maintainer might actually commit, small (a few lines),
 (e) needs something specific to manifest - an unusual input, a particular threshold neighbourhood, a multi-step sequence of operations, or two cooperating sites that each look fine alone. NOT something ordinary use would expose at once.
The two changes should be in different functions / break different clauses of the property where possible.

For each change (call them {VA} and {VB}) deliver into /tmp/seed/{pid}-out/{VA}/ and /tmp/seed/{pid}-out/{VB}/ :
  patch.diff  - `git diff` against HEAD from the worktree root (must apply with `git apply` at the repository root)
  demo.py     - a small plain-Python program: exit status 0 and prints OK when the property holds, exit status 1 and prints the failing input/observation when it is violated. It must import cm_colors from sys.path (do not hard-code your worktree path; it will be run as `PYTHONPATH=<root>/src /venv/bin/python demo.py`). It must FAIL with your change applied and PASS on the untouched code - check both yourself. Keep its run time under 60 s. Be careful that the demo judges the property with an oracle of its own (e.g. its own WCAG formula) wherever the changed code would otherwise judge itself.
  notes.md    - 3-6 lines: which clause it breaks, what is needed for it to manifest, why the tests do not notice.
Work on one change at a time: apply, test, write the diff, then `git checkout -- .` before the next (never use `git stash`: the stash is shared with other worktrees). Leave the worktree clean at the end.
Your final message: under 150 words - for each change one line saying what it is and that you verified (suite passes, demo fails with / passes without).""")
