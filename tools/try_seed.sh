#!/bin/sh
# usage: try_seed.sh <seed-dir-name> <check id>...   applies the seeded patch to /repo, runs the checks, ALWAYS restores /repo
S=$1; shift
git -C /repo diff --quiet || { echo "/repo not clean"; exit 9; }
git -C /repo apply /verif/seeded/$S/patch.diff || { echo "patch does not apply"; exit 8; }
trap 'git -C /repo checkout -q -- . ; git -C /repo clean -fdq src' EXIT INT TERM
for id in "$@"; do
  VERIF_NO_EVIDENCE=1 /verif/bin/check $id --tier ${TIER:-quick} 2>&1 | grep -E "VIOLATION|KNOWN|UNDECIDED|SELFTEST|CRASH|exit=" | cut -c1-300
done
