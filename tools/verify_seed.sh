#!/bin/sh
# usage: verify_seed.sh C02 a   -> checks a delivered seed in its scratch worktree and (if confirmed) files it under /verif/seeded
PID=$1; V=$2
WT=/tmp/seed/$PID; OUT=/tmp/seed/$PID-out/$V
cd $WT || exit 9
git checkout -q -- . ; git clean -fdq
git apply --check $OUT/patch.diff || { echo "$PID$V: PATCH DOES NOT APPLY"; exit 1; }
PYTHONPATH=$WT/src timeout 120 /venv/bin/python $OUT/demo.py >/tmp/seed/$PID-$V.clean.log 2>&1; CLEAN=$?
git apply $OUT/patch.diff
PYTHONPATH=$WT/src /venv/bin/python -m pytest -q -p no:cacheprovider -x >/tmp/seed/$PID-$V.suite.log 2>&1; SUITE=$?
PYTHONPATH=$WT/src timeout 120 /venv/bin/python $OUT/demo.py >/tmp/seed/$PID-$V.mut.log 2>&1; MUT=$?
git checkout -q -- . ; git clean -fdq
echo "$PID$V: demo-clean=$CLEAN suite-with-patch=$SUITE demo-with-patch=$MUT  ($(tail -1 /tmp/seed/$PID-$V.suite.log))"
if [ $CLEAN = 0 ] && [ $SUITE = 0 ] && [ $MUT != 0 ]; then
  D=/verif/seeded/$PID$V; mkdir -p $D
  cp $OUT/patch.diff $OUT/demo.py $D/; cp $OUT/notes.md $D/ 2>/dev/null
  echo CONFIRMED
fi
