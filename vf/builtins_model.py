"""Models of the Python builtins / stdlib calls that occur in cm_colors (engine A).  Each entry returns
list[(path, value | Raised)] and lists its raise set explicitly (DESIGN §3 'Exceptions').  Anything not
listed here is an opaque call: unknown result, may raise."""
from __future__ import annotations
import ast
import z3
from .values import *
from . import symex as sx


def call_builtin(ex, name, self_v, args, kwargs, p, node, fr):
    S = ex.S
    ln = getattr(node, 'lineno', None)
    def raised(t): return (p.fork(), sx.Raised(VExc(t, where=ln)))
    if isinstance(self_v, VAny):
        return ex.lift_alts(p, [self_v], lambda q, vs: call_builtin(ex, name, vs[0], args, kwargs, q, node, fr))
    if any(isinstance(a, VAny) for a in args) and name not in ('isinstance', 'type', 'id', 'print', 'repr'):
        return ex.lift_alts(p, list(args), lambda q, vs: call_builtin(ex, name, self_v, vs, kwargs, q, node, fr))
    if name.startswith('<method>.'):
        return call_method(ex, name[9:], self_v, args, kwargs, p, node, fr)
    if name.startswith('math.'):
        return call_math(ex, name[5:], args, p, node)
    if name.startswith('re.'):
        return call_re(ex, name[3:], args, p, node)
    if name == 'isinstance':
        return [(p, VBool(isinstance_term(ex, args[0], args[1], p)))]
    if name == 'len':
        v = args[0]
        items = ex.items_of(v, p)
        if items is not None: return [(p, VInt(len(items)))]
        if isinstance(v, VStr):
            if v.lit is not None: return [(p, VInt(len(v.lit)))]
            return [(p, VInt(S.str_len(v)))]
        if isinstance(v, VRef) and v.cls == 'list' and 'len' in p.cell(v.oid): return [(p, VInt(p.cell(v.oid)['len']))]
        if isinstance(v, VRef) and v.cls == 'dict' and not p.cell(v.oid).get('open'): return [(p, VInt(len(p.cell(v.oid).get('map', {}))))]
        if isinstance(v, VUnk): return [(p, VInt(S.nonneg_int('len'))), raised('TypeError')]
        if isinstance(v, (VNone, VInt, VReal, VBool)): return [raised('TypeError')]
        raise sx.Unsupported(f'len of {v!r}')
    if name == 'float':
        v = args[0]
        if isinstance(v, VSpec): return [(p, v)]
        if isinstance(v, VReal): return [(p, v)]
        if isinstance(v, (VInt, VBool)): return [(p, VReal(num(v)))]
        if isinstance(v, VStr):
            if v.lit is not None:
                try: f = float(v.lit)
                except ValueError: return [raised('ValueError')]
                if f != f: return [(p, VSpec('nan'))]
                if f in (float('inf'), float('-inf')): return [(p, VSpec('inf' if f > 0 else '-inf'))]
                return [(p, VReal(f))]
            # float(str): a finite float, nan, +inf, -inf, or ValueError - decided by the text (uninterpreted FLOATKIND)
            kind = S.app('FLOATKIND', [v.code], I)
            return [(p.fork(kind == 0), VReal(S.str_to_float(v))), (p.fork(kind == 1), VSpec('nan')), (p.fork(kind == 2), VSpec('inf')), (p.fork(kind == 3), VSpec('-inf')),
                    (p.fork(z3.Or(kind < 0, kind > 3)), sx.Raised(VExc('ValueError', where=ln)))]
        if isinstance(v, VUnk): return [(p, VReal(fresh(R, 'float'))), raised('TypeError'), raised('ValueError')]
        return [raised('TypeError')]
    if name == 'int':
        v = args[0]
        if len(args) == 2:
            if isinstance(v, VStr):
                r = S.str_to_int_base(v, args[1])
                ok = S.str_is_int_base(v, args[1])
                return [(p.fork(ok), VInt(r)), (p.fork(z3.Not(ok)), sx.Raised(VExc('ValueError', where=ln)))]
            return [raised('TypeError')]
        if isinstance(v, VSpec): return [raised('ValueError' if v.kind == 'nan' else 'OverflowError')]
        if isinstance(v, VInt): return [(p, v)]
        if isinstance(v, VBool): return [(p, VInt(z3.If(v.t, 1, 0)))]
        if isinstance(v, VReal): return [(p, VInt(S.trunc(v.t)))]
        if isinstance(v, VStr):
            r = S.str_to_int_base(v, VInt(10)); ok = S.str_is_int_base(v, VInt(10))
            return [(p.fork(ok), VInt(r)), (p.fork(z3.Not(ok)), sx.Raised(VExc('ValueError', where=ln)))]
        if isinstance(v, VUnk): return [(p, VInt(fresh(I, 'int'))), raised('TypeError'), raised('ValueError')]
        return [raised('TypeError')]
    if name == 'round':
        v = args[0]
        if len(args) == 2 or 'ndigits' in kwargs:
            if is_num(v): return [(p, VReal(S.opaque_real('round_nd', [num(v), num(args[1] if len(args) == 2 else kwargs['ndigits'])])))]
            if isinstance(v, VUnk): return [(p, VUnk('round')), raised('TypeError')]
            return [raised('TypeError')]
        if isinstance(v, VSpec): return [raised('ValueError' if v.kind == 'nan' else 'OverflowError')]
        if isinstance(v, (VInt, VBool)): return [(p, VInt(v.t if isinstance(v, VInt) else z3.If(v.t, 1, 0)))]
        if isinstance(v, VReal):
            r = S.round_half_even(v.t)
            return [(p, VInt(r))]
        if isinstance(v, VUnk): return [(p, VUnk('round')), raised('TypeError')]
        return [raised('TypeError')]
    if name == 'abs':
        v = args[0]
        if isinstance(v, VSpec): return [(p, VSpec('nan' if v.kind == 'nan' else 'inf'))]
        if isinstance(v, VInt): return [(p, VInt(z3.If(v.t >= 0, v.t, -v.t)))]
        if isinstance(v, VReal): return [(p, VReal(z3.If(v.t >= 0, v.t, -v.t)))]
        if isinstance(v, VBool): return [(p, VInt(z3.If(v.t, 1, 0)))]
        if isinstance(v, VUnk): return [(p, VUnk('abs')), raised('TypeError')]
        return [raised('TypeError')]
    if name in ('max', 'min'):
        if len(args) == 1:
            items = ex.items_of(args[0], p)
            if items is None:
                if isinstance(args[0], VUnk): return [(p, VUnk(name)), raised('Exception?')]
                raise sx.Unsupported(f'{name} of {args[0]!r}')
            args = items
            if not args: return [raised('ValueError')]
        if any(isinstance(a, VUnk) for a in args): return [(p, VUnk(name)), raised('TypeError')]
        if any(isinstance(a, VSpec) for a in args) and all(is_num(a) or isinstance(a, VSpec) for a in args):
            res = [(p, args[0])]
            for nxt in args[1:]:
                new = []
                for q, cur in res:
                    for q2, t in ex.compare(ast.Gt() if name == 'max' else ast.Lt(), nxt, cur, q, node):
                        t = z3.simplify(t)
                        if not z3.is_false(t):
                            qa = q2.fork(None if z3.is_true(t) else t)
                            if z3.is_true(t) or ex.feasible(qa.pc): new.append((qa, nxt))
                        if not z3.is_true(t):
                            qb = q2.fork(None if z3.is_false(t) else z3.Not(t))
                            if z3.is_false(t) or ex.feasible(qb.pc): new.append((qb, cur))
                res = new
            return res
        if not all(is_num(a) for a in args): return [raised('TypeError')]
        # python returns the first maximal/minimal *object*: type of the result follows the winner
        if all(isinstance(a, VInt) for a in args):
            r = args[0].t
            for a in args[1:]: r = z3.If(a.t > r, a.t, r) if name == 'max' else z3.If(a.t < r, a.t, r)
            return [(p, VInt(r))]
        if all(isinstance(a, VReal) for a in args):
            r = args[0].t
            for a in args[1:]: r = z3.If(a.t > r, a.t, r) if name == 'max' else z3.If(a.t < r, a.t, r)
            return [(p, VReal(r))]
        # mixed int/float: split on the winner so that the result keeps its Python type
        outs = []
        for i, a in enumerate(args):
            conds = []
            for j, b in enumerate(args):
                if i == j: continue
                if name == 'max': conds.append(num(a) > num(b) if j < i else num(a) >= num(b))
                else: conds.append(num(a) < num(b) if j < i else num(a) <= num(b))
            q = p.fork(z3.And(conds))
            if ex.feasible(q.pc): outs.append((q, a))
        return outs
    if name == 'pow':
        if len(args) == 2 and all(is_num(a) for a in args):
            return [(p, VReal(S.opaque_real('pow', [num(args[0]), num(args[1])])))]
        return [(p, VUnk('pow')), raised('Exception?')]
    if name == 'str':
        v = args[0] if args else VStr(lit='')
        if isinstance(v, VStr): return [(p, v)]
        if isinstance(v, VSpec): return [(p, VStr(lit=v.kind))]
        if isinstance(v, VBool):
            return [(p.fork(v.t), VStr(lit='True')), (p.fork(z3.Not(v.t)), VStr(lit='False'))]
        if isinstance(v, VExc): return [(p, S.exc_message(v))]
        return [(p, S.mk_str_of(v, p))]
    if name == 'repr': return [(p, VStr(code=fresh(I, 'repr')))]
    if name == 'bool': return [(p, VBool(ex.truth(args[0], p) if args else False))]
    if name in ('all', 'any'):
        v = args[0]
        items = v.xs if isinstance(v, VGen) else ex.items_of(v, p)
        if isinstance(v, VGen) and v.xs is None:
            if name == 'all' and getattr(v, 'allin', None): return [(p, VBool(S.all_chars_in(*v.allin)))]
            return [(p, VBool(fresh(B, name)))]
        if items is None and isinstance(v, VRef) and v.cls == 'list': return [(p, VBool(fresh(B, name)))]
        if items is None:
            if isinstance(v, VUnk): return [(p, VBool(fresh(B, name))), raised('Exception?')]
            raise sx.Unsupported(f'{name} of {v!r}')
        ts = [ex.truth(x, p) for x in items]
        if name == 'all': return [(p, VBool(z3.And(ts) if ts else True))]
        return [(p, VBool(z3.Or(ts) if ts else False))]
    if name == 'tuple':
        if not args: return [(p, VTuple([]))]
        v = args[0]
        items = v.xs if isinstance(v, VGen) else ex.items_of(v, p)
        if items is None:
            if isinstance(v, VUnk): return [(p, VUnk('tuple')), raised('TypeError')]
            raise sx.Unsupported(f'tuple of {v!r}')
        return [(p, VTuple(items))]
    if name == 'list':
        q = p.fork()
        if not args: return [(q, ex.new_list(q, []))]
        v = args[0]
        items = v.xs if isinstance(v, VGen) else ex.items_of(v, p)
        if items is None:
            if isinstance(v, VUnk): return [(p, VUnk('list')), raised('TypeError')]
            raise sx.Unsupported(f'list of {v!r}')
        return [(q, ex.new_list(q, items))]
    if name == 'set':
        q = p.fork(); return [(q, VRef(q.alloc({'open': True}), 'set'))]
    if name == 'dict':
        q = p.fork(); return [(q, ex.new_dict(q, {}))]
    if name == 'range':
        if len(args) == 1 and isinstance(args[0], VInt): return [(p, sx.VRange(args[0]))]
        if len(args) == 1 and isinstance(args[0], VUnk): return [(p, VUnk('range')), raised('TypeError')]
        raise sx.Unsupported('range form')
    if name == 'enumerate':
        return [(p, sx.VEnum(args[0], 0))]
    if name == 'print':
        ex.effect('stdout', node, p)
        return [(p, NONE)]
    if name == 'type':
        return [(p, VUnk('type'))]
    if name == 'id':
        return [(p, VInt(fresh(I, 'id')))]
    if name == 'map':
        f, v = args[0], args[1]
        items = ex.items_of(v, p)
        if items is None: return [(p, VUnk('map')), raised('Exception?')]
        outs = [(p, [])]
        for x in items:
            nxt = []
            for q, acc in outs:
                if isinstance(acc, sx.Raised): nxt.append((q, acc)); continue
                for q2, r in ex.call_function(f, [x], {}, q, node, fr):
                    nxt.append((q2, r if isinstance(r, sx.Raised) else acc + [r]))
            outs = nxt
        return [(q, acc if isinstance(acc, sx.Raised) else VGen(acc)) for q, acc in outs]
    if name == 'open':
        ex.effect('open', node, p, args=args, kwargs=kwargs)
        return [(p, VUnk('file')), raised('OSError')]
    return ex.opaque_call(f'builtin {name}', p, node)


VGen = sx.VGen


def isinstance_term(ex, v, cls, p):
    names = []
    def collect(c):
        if isinstance(c, VClass): names.append(c.builtin or c.qual)
        elif isinstance(c, VTuple):
            for x in c.xs: collect(x)
        else: names.append('?')
    collect(cls)
    if isinstance(v, VOpt):
        return z3.If(v.isnone, isinstance_term(ex, NONE, cls, p), isinstance_term(ex, v.inner, cls, p))
    if isinstance(v, VUnk): return fresh(B, 'isinstance')
    if isinstance(v, VAny):
        return z3.Or([z3.And(c, isinstance_term(ex, x, cls, p)) for c, x in v.alts])
    tags = {VInt: {'int'}, VBool: {'int', 'bool'}, VReal: {'float'}, VSpec: {'float'}, VStr: {'str'}, VTuple: {'tuple'}, VNone: set()}
    for k, s in tags.items():
        if isinstance(v, k): return z3.BoolVal(bool(s & set(names)))
    if isinstance(v, VRef):
        if v.cls in ('list', 'dict', 'set'): return z3.BoolVal(v.cls in names)
        if '?' in names: return fresh(B, 'isinstance')
        return z3.BoolVal(v.cls in names or p.cell(v.oid).get('__class__') in names)
    if isinstance(v, VExc):
        return z3.BoolVal(any(sx.exc_matches(v.typ, n) is True for n in names))
    return fresh(B, 'isinstance')


def _mandatory_groups(pattern):
    """numbers of the capture groups that take part in every match of `pattern` (top-level sequence, nested only inside mandatory groups)"""
    import re
    try: parsed = re._parser.parse(pattern)
    except Exception: return set()
    out = set()
    def walk(seq):
        for op, av in seq:
            if str(op) == 'SUBPATTERN':
                gid, _, _, sub = av
                if gid: out.add(gid)
                walk(sub)
    walk(parsed)
    return out


def call_re(ex, fname, args, p, node):
    """re.fullmatch / match / search / split / findall on (pattern, str): total; results are pure functions of the arguments"""
    S = ex.S
    ln = getattr(node, 'lineno', None)
    if fname == 'compile':
        # re.compile(<literal>) inside a function: an immutable pattern object that remembers its literal (flags / non-literal patterns: not modelled)
        if len(args) == 1 and isinstance(args[0], VStr) and args[0].lit is not None:
            try: __import__('re').compile(args[0].lit)
            except Exception: return [(p, sx.Raised(VExc('re.error', where=ln)))]
            g = sx.VGlobal('re.compile:' + args[0].lit); g.relit = args[0].lit
            return [(p, g)]
        return ex.opaque_call('re.compile', p, node)
    if len(args) < 2 or not isinstance(args[1], VStr):
        if len(args) >= 2 and isinstance(args[1], VUnk): return [(p, VUnk('re')), (p.fork(), sx.Raised(VExc('TypeError', where=ln)))]
        return [(p, sx.Raised(VExc('TypeError', where=ln)))]
    pat = args[0]
    if getattr(pat, 'relit', None) is not None: pat = VStr(lit=pat.relit, code=z3.IntVal(lit_code(pat.relit)))
    pid = z3.IntVal(lit_code(pat.lit)) if isinstance(pat, VStr) and pat.lit is not None else (pat.code if isinstance(pat, VStr) else z3.IntVal(lit_code(getattr(pat, 'name', 'pattern'))))
    if fname in ('fullmatch', 'match', 'search'):
        hit = S.app('RE_' + fname, [pid, args[1].code], B)
        if ex.opts.get('match_objects') and isinstance(pat, VStr) and pat.lit is not None:
            # a match object whose groups are functions of (pattern, subject): group(i) never raises for an existing group; groups that
            # always take part in a match (not under ?, *, {0,n} or an alternative) are str, the others str-or-None
            q = p.fork(hit)
            return [(p.fork(z3.Not(hit)), NONE), (q, VRef(q.alloc({'__class__': 're:Match', 'pid': pid, 'subject': args[1].code, 'fname': fname, 'mandatory': _mandatory_groups(pat.lit),
                                                                   'ngroups': __import__('re').compile(pat.lit).groups}), 're:Match'))]
        return [(p.fork(z3.Not(hit)), NONE), (p.fork(hit), VUnk('match object'))]
    if fname in ('split', 'findall'):
        q = p.fork(); return [(q, ex.new_symlist(q, 're_' + fname, min_len=1 if fname == 'split' else 0))]
    return ex.opaque_call(f're.{fname}', p, node)


def call_math(ex, fname, args, p, node):
    S = ex.S
    ln = getattr(node, 'lineno', None)
    if any(isinstance(a, VUnk) for a in args):
        return [(p, VUnk('math')), (p.fork(), sx.Raised(VExc('Exception?', where=ln)))]
    if not all(is_num(a) for a in args):
        return [(p, sx.Raised(VExc('TypeError', where=ln)))]
    xs = [num(a) for a in args]
    if fname == 'sqrt':
        r = S.opaque_real('sqrt', xs)
        qn = p.fork(xs[0] < 0)
        outs = []
        if ex.feasible(qn.pc): outs.append((qn, sx.Raised(VExc('ValueError', where=ln))))
        qp = p.fork(z3.And(xs[0] >= 0, r >= 0, (r == 0) == (xs[0] == 0)))
        outs.append((qp, VReal(r)))
        return outs
    if fname == 'radians':
        return [(p, VReal(xs[0] * S.const_real('pi') / 180))]
    if fname in ('sin', 'cos'):
        r = S.opaque_real(fname, xs)
        return [(p.fork(z3.And(r >= -1, r <= 1)), VReal(r))]
    if fname == 'atan2':
        r = S.opaque_real('atan2', xs); pi = S.const_real('pi')
        return [(p.fork(z3.And(r > -pi, r <= pi)), VReal(r))]
    if fname == 'exp':
        r = S.opaque_real('exp', xs)
        return [(p.fork(r > 0), VReal(r))]     # overflow (OverflowError) only beyond 709: assumption recorded
    if fname == 'isnan' or fname == 'isinf':
        return [(p, VBool(False))]
    return [(p, VReal(S.opaque_real(fname, xs)))]


def call_method(ex, m, o, args, kwargs, p, node, fr):
    S = ex.S
    ln = getattr(node, 'lineno', None)
    if isinstance(o, VRef) and o.cls == 'list':
        cell = p.cell(o.oid)
        if m == 'append':
            q = p.fork()
            if cell.get('items') is not None: q.write(o.oid, 'items', cell['items'] + [args[0]])
            else:
                q.write(o.oid, 'len', cell['len'] + 1)
                q.write(o.oid, 'log', list(cell.get('log', [])) + [args[0]])
            return [(q, NONE)]
        if m == 'copy':
            q = p.fork(); return [(q, VRef(q.alloc(dict(cell)), 'list'))]
        if m == 'extend' and cell.get('items') is not None:
            items = ex.items_of(args[0], p)
            if items is not None:
                q = p.fork(); q.write(o.oid, 'items', cell['items'] + items); return [(q, NONE)]
    if isinstance(o, VRef) and o.cls == 'set':
        if m == 'add': return [(p, NONE)]
    if isinstance(o, VRef) and o.cls == 'dict':
        cell = p.cell(o.oid)
        if m == 'get':
            key = sx._const_key(args[0])
            if key is not None and key in cell.get('map', {}): return [(p, cell['map'][key])]
            if not cell.get('open') and key is not None: return [(p, args[1] if len(args) > 1 else NONE)]
            return [(p, VUnk('dict.get'))]
    if isinstance(o, VRef) and o.cls == 're:Match' and m == 'group':
        cell = p.cell(o.oid)
        i = sx._const_int(args[0]) if args else 0
        if i is None: raise sx.Unsupported('symbolic group index')
        if not (0 <= i <= cell['ngroups']): return [(p, sx.Raised(VExc('IndexError', where=ln)))]
        val = VStr(code=S.app('RE_GROUP_' + cell['fname'], [cell['pid'], cell['subject'], z3.IntVal(i)], I))
        if i == 0 or i in cell['mandatory']: return [(p, val)]
        return [(p, VOpt(S.app('RE_GROUP_NONE_' + cell['fname'], [cell['pid'], cell['subject'], z3.IntVal(i)], B), val))]
    if isinstance(o, sx.VGlobal) and m in ('findall', 'split', 'fullmatch', 'match', 'search'):
        return call_re(ex, m, [o] + list(args), p, node)
    if isinstance(o, VStr) and m in ('split', 'rsplit') and not (o.lit is not None and all(isinstance(a, VStr) and a.lit is not None for a in args)):
        if any(not isinstance(a, (VStr, VInt, VNone)) for a in args): return [(p, sx.Raised(VExc('TypeError', where=ln)))]
        q = p.fork(); return [(q, ex.new_symlist(q, 'split', min_len=1))]
    if isinstance(o, VStr) and m == 'join':
        return [(p, VStr(code=fresh(I, 'joined')))]
    if isinstance(o, VStr):
        return S.str_method(o, m, args, p, node)
    if isinstance(o, VTuple) and m in ('index', 'count'):
        return [(p, VInt(fresh(I, m)))]
    return ex.opaque_call(f'method .{m} of {o!r}', p, node)
