"""The spec vocabulary in its *concrete* reading (engine E, run-time contracts): the same contract text that
engine A proves symbolically is evaluated on real Python values, with CR / DE / CSS computed by the independent
oracles in /verif/oracles (never by the library)."""
from __future__ import annotations
from fractions import Fraction
from oracles import colour as oc
from oracles import css3

TIE = 1e-9


class Indeterminate(Exception):
    """comparison too close to call in floating point: the case is skipped and counted"""


class Conc:
    concrete = True
    true, false = True, False

    def __init__(self, lib=None):
        self.lib = lib            # namespace of real library functions (for symbols that *are* library results, e.g. REC)
        self.K = oc.FloatK
        self.skipped = 0

    # booleans
    def And(self, *xs): return all(self.b(x) for x in xs)
    def Or(self, *xs): return any(self.b(x) for x in xs)
    def Not(self, x): return not self.b(x)
    def Implies(self, a, b): return (not self.b(a)) or self.b(b)
    def Iff(self, a, b): return self.b(a) == self.b(b)
    def If(self, c, a, b): return a if self.b(c) else b
    def b(self, x): return bool(x)

    # numbers
    def r(self, x): return float(x)
    def _cmp(self, a, b):
        a, b = float(a), float(b)
        if a != b and abs(a - b) < TIE * max(1.0, abs(a), abs(b)): raise Indeterminate()
        return a, b
    def ge(self, a, b): a, b = self._cmp(a, b); return a >= b
    def gt(self, a, b): a, b = self._cmp(a, b); return a > b
    def le(self, a, b): a, b = self._cmp(a, b); return a <= b
    def lt(self, a, b): a, b = self._cmp(a, b); return a < b
    def eq(self, a, b): return abs(float(a) - float(b)) <= 1e-9 * max(1.0, abs(float(a)))
    def eqi(self, a, n): return type(a) in (int, bool) and a == n
    def num_value(self, x): return float(x)
    def const(self, x): return float(x)

    # colours
    def is_none(self, v): return v is None
    def the(self, v): return v
    def opt(self, v, f): return v is None or self.b(f(v))
    def is_tuple(self, v): return isinstance(v, tuple)
    def is_tuple3(self, v): return isinstance(v, tuple) and len(v) == 3
    def rgb8(self, v):
        return isinstance(v, tuple) and len(v) == 3 and all(type(x) in (int, bool) and 0 <= x <= 255 for x in v)
    def in_0_255(self, v): return isinstance(v, tuple) and len(v) == 3 and all(isinstance(x, (int, float)) and 0 <= x <= 255 for x in v)
    def opt_rgb8(self, v): return v is None or self.rgb8(v)
    def CR(self, a, b): return oc.contrast(self.K, a, b)
    def DE(self, a, b): return oc.ciede2000(self.K, a, b)
    def teq(self, a, b): return tuple(a) == tuple(b)
    def item(self, v, i): return v[i]
    def MIN(self, large, very): return oc.required_min(bool(large), bool(very))
    def maxof(self, seq, p=None): return max(seq)
    def payload(self, v): return self.denotes(v)
    def denotes(self, v):
        """the 8-bit colour an opaque returned value denotes for a CSS consumer (reference parser), or the tuple itself"""
        if isinstance(v, tuple): return v
        if isinstance(v, str):
            r = css3.parse(v, allow_bare_hex=True)
            if r is None or r[1] != 1: return None
            out = []
            for x in r[0]:
                n = css3.nearest8(x)
                out.append(min(n))          # ties: formatted outputs never sit on one (counted by C06)
            return tuple(out)
        return None
    def pure_value(self, fname, args, shape):
        return getattr(self.lib, fname)(*args)
    def str_eq(self, a, b): return a == b
    def lit(self, s): return s
