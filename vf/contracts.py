"""Contract objects, registry, and the function-by-function verification driver of engine A."""
from __future__ import annotations
import ast, time
import z3
from .values import *
from . import symex as sx
from .spec import Sym


class LoopSpec:
    """roles = {'carried': [...], 'local': [...]}: the names the invariant / shapes use for (a) the variables initialised before the loop and
    re-assigned in it, in order of initialisation, (b) the variables first assigned inside the loop, in order of first assignment.  When the
    source spells them differently (a rename) and the counts agree, the contract's names are aliases of the actual ones.  pos = index of
    the loop among the function's own `for` statements (fallback when the header text no longer matches)."""
    def __init__(self, header, inv, shapes=None, ordinal=0, elem=None, body_post=None, roles=None, pos=None):
        self.header, self.inv, self.shapes, self.ordinal, self.elem, self.body_post = header, inv, shapes or {}, ordinal, elem, body_post
        self.roles, self.pos = roles, pos


class Contract:
    """qual: 'module:func'.  params: ordered {name: shape} of the symbolic inputs used when the function itself
    is verified.  pre(S,a)->Bool.  result: shape | [shapes] | callable(S,a)->[shapes].
    posts: {label: fn(S,a,r)->Bool}.  raises: exception type names that may escape (assumed possible at call sites,
    every other escaping exception is an obligation).  pure: results are function symbols of the arguments."""
    def __init__(self, qual, params, result, posts, pre=None, raises=(), pure=False, loops=(), props=None,
                 inline_closures=False, assumed=None, exc_posts=None, setup=None, note='', effects=(), effects_only_if=None, opts=None):
        self.qual, self.params, self.result, self.posts, self.pre = qual, params, result, posts, pre
        self.raises, self.pure, self.props, self.inline_closures = tuple(raises), pure, props or {}, inline_closures
        self.loops = list(loops)
        self.assumed = assumed      # None, or a reason string: contract is NOT verified by engine A (trusted/assumed; discharged elsewhere)
        self.exc_posts = exc_posts or {}
        self.setup = setup
        self.note = note
        self.opts = opts or {}
        self.effects = tuple(effects)            # effect atoms of a call to this function (recorded on the caller's path)
        self.effects_only_if = effects_only_if   # fn(S,a)->Bool: every path of THIS function that performs an effect must satisfy it
        self.short = qual.split(':')[1]

    def loop(self, hdr, ordn, pos=None):
        for l in self.loops:
            if l.header == hdr and l.ordinal == ordn: return l
        if pos is not None:
            for l in self.loops:
                if l.pos == pos: return l
        return None

    def result_shapes(self, S, a):
        r = self.result(S, a) if callable(self.result) else self.result
        return r if isinstance(r, list) else [r]

    def apply(self, ex, p, ns, node, ctor=None):
        """use of the contract at a call site: fresh result + assumed postconditions (+ declared raises)"""
        S = ex.S
        outs = []
        for e in self.effects: ex.effect(e, node, p, via=self.short)
        p.trace = p.trace + (('call', self.short, ns),)          # ghost: the call and its arguments, readable by 4-argument postconditions
        argvals = [ns._env[n] for n in ns._env]
        for sh in self.result_shapes(S, ns):
            q = p.fork()
            if self.pure:
                try: r = S.pure_value(self.short, argvals, sh)
                except (TypeError, ValueError): r = ex.fresh_value(q, sh, self.short)
            else:
                r = ex.fresh_value(q, sh, self.short)
            if ctor:
                # constructor contract: result shape is ('obj', cls, fields)
                pass
            for q1, r1 in ex.split_opt(q, r):
                try:
                    post = [f(S, ns, r1) for f in self.posts.values()]
                except (AssertionError, AttributeError, TypeError, IndexError):
                    post = []             # ill-shaped arguments: nothing is known about the result (the pre-obligation has already failed)
                q1.pc = q1.pc + [x for x in post if not z3.is_true(x)]
                if ex.feasible(q1.pc):
                    q1.trace = q1.trace + (('result', self.short, ns, r1),)      # ghost: read by the relational driver (vf/relational.py)
                    outs.append((q1, r1))
        for t in self.raises:
            q = p.fork()
            extra = self.exc_posts.get(t)
            if extra is not None: q.pc = q.pc + [extra(S, ns)]
            if ex.feasible(q.pc): outs.append((q, sx.Raised(VExc(t, where=getattr(node, 'lineno', None)))))
        return outs


class Registry:
    def __init__(self):
        self.contracts = {}
        self.inline = set()
    def add(self, c):
        self.contracts[c.qual] = c; return c
    def get(self, qual): return self.contracts.get(qual)
    def is_inline(self, qual): return qual in self.inline
    def mark_inline(self, *quals):
        self.inline.update(quals)


class VCResult:
    def __init__(self, obl, status, model=None, solver='z3', secs=0.0, reason=''):
        self.obl, self.status, self.model, self.solver, self.secs, self.reason = obl, status, model, solver, secs, reason


class FunctionReport:
    def __init__(self, qual):
        self.qual = qual
        self.results = []          # VCResult
        self.paths = 0
        self.returns = 0
        self.error = None          # Unsupported / attach failure -> undecided
        self.assumptions = set()
        self.wall = 0.0
        self.vacuous = False
    @property
    def failed(self): return [r for r in self.results if r.status == 'failed']
    @property
    def unknown(self): return [r for r in self.results if r.status == 'unknown']
    @property
    def discharged(self): return [r for r in self.results if r.status == 'discharged']


def verify_function(prog, reg, c, labels=None, opts=None, timeout_ms=20000):
    """Generate and discharge the obligations of one function against its contract."""
    rep = FunctionReport(c.qual)
    t0 = time.time()
    S = Sym()
    ex = sx.Exec(prog, reg, S, dict(opts or {}, **getattr(c, 'opts', {})))
    ex.effects = []
    ex.effect = lambda kind, node, p, **kw: _record_effect(ex, kind, node, p, kw)
    ex.cur, ex.cur_short, ex.cur_contract = c.qual, c.short, c
    try:
        fn, mod = prog.func(c.qual.split('#')[0])
    except KeyError as e:
        rep.error = f'contract no longer attaches: {e}'; return rep
    wr = prog.wrapped_by(c.qual)
    if wr:
        rep.error = f'function is wrapped by decorator(s) {wr}: callers of the name reach the wrapper, so a contract proved on the body does not transfer'; return rep
    sx.set_role_aliases(fn, c.loops)
    argnames = [a.arg for a in fn.args.args]
    # a contract on a mechanically extracted block names the block's outer locals by ROLE (order of first use), not by spelling
    roles = (getattr(c, 'opts', None) or {}).get('local_roles')
    alias = {}
    if roles and c.qual in getattr(prog, 'extracted', {}):
        actual = argnames[len(argnames) - len(roles):]
        if len(actual) == len(roles) and len(argnames) - len(roles) == prog.extracted[c.qual].get('n_outer_params', -1): alias = dict(zip(roles, actual))
        chk = c.opts.get('role_check')
        if alias and chk is not None and not chk(fn, alias): alias = {}          # the roles do not fit this code: the contract does not attach (undecided)
    for r_, a_ in alias.items():           # the same roles name the block's loop state
        if r_ != a_: sx.ROLE_ALIASES[r_] = a_; sx.ROLE_REV[a_] = r_
    cparams = {alias.get(k, k): v for k, v in c.params.items()}
    missing = [n for n in cparams if n not in argnames]
    if missing:
        rep.error = f'contract no longer attaches: parameters {missing} not in signature {argnames}'; return rep
    try:
        p = sx.Path([], {})
        env = {}
        for n in argnames:
            if n in cparams:
                sh = cparams[n]
                env[n] = sh(S, p, ex) if callable(sh) else ex.fresh_value(p, sh, n)
            else:
                d = _default_of(fn, n)
                if d is None:
                    rep.error = f'contract no longer attaches: parameter {n} has no shape and no default'; return rep
                env[n] = ex.lift_const(ast.literal_eval(d))
        fr = sx.Frame(c.qual.split('#')[0], fn, mod, c)
        fr.argns = sx.Namespace(dict(env, **{r: env[a] for r, a in alias.items()}), p)
        if c.setup: c.setup(S, fr.argns, p, ex)
        pre = c.pre(S, fr.argns) if c.pre else None
        p = sx.Path(([pre] if pre is not None else []), env, p.heap)
        if not ex.feasible(p.pc):
            rep.vacuous = True; rep.error = 'precondition unsatisfiable (vacuous contract)'; return rep
        outs = ex.block(fn.body, p, fr)
        for kind, q, v in outs:
            rep.paths += 1
            effs = [t for t in q.trace if isinstance(t, tuple) and t and t[0] == 'effect']
            if effs and c.effects_only_if is not None:
                ex.oblige(f'effects_only_if/{effs[0][1]}@L{effs[0][2]}', q.pc, c.effects_only_if(S, fr.argns), kind='effect', trace=q.trace)
            if kind == 'fall': kind, v = 'ret', NONE
            if kind == 'ret':
                rep.returns += 1
                site = next((t for t in reversed(q.trace) if isinstance(t, str) and t.startswith('ret')), 'ret_end')
                for q1, v1 in ex.split_opt(q, v):
                    for label, post in c.posts.items():
                        if labels is not None and label not in labels: continue
                        mark = len(S.pending)
                        try:
                            g = post(S, fr.argns, v1, q1) if _wants_path(post) else post(S, fr.argns, v1)
                        except (AttributeError, TypeError, AssertionError, IndexError) as e:
                            # the returned value does not even have the shape the contract speaks about
                            g = z3.BoolVal(False)
                        ex.oblige(f'{label}/{site}', q1.pc, g, kind='post', trace=q1.trace, _mark=mark)
            elif kind == 'exc':
                if not any(sx.exc_matches(v.typ, t) is True for t in c.raises):
                    ex.oblige(f'raises_only{list(c.raises)}/{v.typ}@L{v.where}', q.pc, z3.BoolVal(False), kind='raise', trace=q.trace)
                elif isinstance(v.msg, VStr):
                    # an exception the contract allows: its message must be non-empty (C14: invalid objects carry a non-empty error)
                    ex.oblige(f'error_message_nonempty/{v.typ}@L{v.where}', q.pc, S.str_nonempty(v.msg), kind='raise_msg', trace=q.trace)
            else:
                raise sx.Unsupported(f'{kind} escaping function body')
    except sx.Unsupported as e:
        rep.error = f'unsupported construct: {e}'
        rep.wall = time.time() - t0
        return rep
    rep.assumptions = set(ex.assumptions)
    rep.effects = ex.effects
    facts = list(S.facts)
    for o in ex.obls:
        rep.results.append(discharge(o, facts, timeout_ms))
    rep.wall = time.time() - t0
    rep.nfeas = ex.nfeas
    return rep


def _record_effect(ex, kind, node, p, kw):
    p.trace = p.trace + (('effect', kind, getattr(node, 'lineno', None)),)
    ex.effects.append((kind, getattr(node, 'lineno', None)))


def _wants_path(f):
    try: return f.__code__.co_argcount >= 4
    except AttributeError: return False


def _default_of(fn, name):
    names = [a.arg for a in fn.args.args]
    d = dict(zip(names[len(names) - len(fn.args.defaults):], fn.args.defaults))
    return d.get(name)


def discharge(o, facts, timeout_ms=20000):
    t0 = time.time()
    goal = z3.simplify(o.goal) if z3.is_expr(o.goal) else z3.BoolVal(bool(o.goal))
    if z3.is_true(goal):
        return VCResult(o, 'discharged', solver='trivial', secs=0.0)
    so = z3.Solver(); so.set('timeout', timeout_ms)
    so.add(o.pc.term()); so.add(*facts); so.add(z3.Not(goal))
    r = so.check()
    secs = time.time() - t0
    if r == z3.unsat: return VCResult(o, 'discharged', solver='z3', secs=secs)
    if r == z3.sat: return VCResult(o, 'failed', model=so.model(), solver='z3', secs=secs)
    # z3 gave up: try cvc5 on the same query
    try:
        from .smt import cvc5_check
        r2 = cvc5_check(so.to_smt2(), timeout_ms)
    except Exception as e:
        r2 = f'error {e}'
    secs = time.time() - t0
    if r2 == 'unsat': return VCResult(o, 'discharged', solver='cvc5', secs=secs)
    if r2 == 'sat': return VCResult(o, 'failed', model=None, solver='cvc5', secs=secs, reason='cvc5 sat (no model extracted)')
    return VCResult(o, 'unknown', solver='z3+cvc5', secs=secs, reason=f'z3: {so.reason_unknown()}; cvc5: {r2}')


def model_summary(res, limit=40):
    """human-readable counterexample: named inputs and the abstraction-symbol applications the model fixes"""
    if res.model is None: return {}
    m = res.model
    out = {}
    for d in m.decls():
        n = d.name()
        if d.arity() == 0:
            out[n] = str(m[d])
    return dict(sorted(out.items())[:limit])
