"""Engine C ('effects'): modular frame / purity checker over the real ASTs.

Every function of the package gets an *effect summary* computed from its own body using only the summaries
DECLARED for its callees (contracts/effects.py); the obligation per function is `computed ⊆ declared`.  The
analysis is syntactic and conservative: it may fail to prove a true frame fact, it never proves a false one under
the assumptions of DESIGN §3 (no reflection / monkey-patching - their absence is itself checked here).

Effect atoms
  stdout            print / click.echo / click.secho / rich Console / traceback.print_exc / warnings.warn / logging
  fs_read:<expr>    open(<expr>, 'r'...)            fs_write:<expr>   open(<expr>, 'w'|'a'|'x'...) and Path.write_*/unlink/...
  global_write:<n>  rebinding or mutating a module-level name      global_mut_read:<n>  reading a module-level container that is mutated somewhere
  arg_mutate:<p>    attribute/subscript store or mutating method call on a parameter (or an alias of one)
  self_mutate       the same on `self`
  nondet:<what>     random / time / os.environ / id() / iteration over a set / hash()
  reflection:<what> setattr / globals / exec / eval / __dict__ / importlib.reload / functools.cache decorators (stateful)
  unknown_call:<n>  a call the tables do not know
"""
from __future__ import annotations
import ast

PURE_BUILTINS = {'len', 'float', 'int', 'round', 'abs', 'max', 'min', 'isinstance', 'str', 'all', 'any', 'tuple', 'list', 'range', 'enumerate', 'pow',
                 'map', 'set', 'dict', 'sorted', 'zip', 'repr', 'bool', 'type', 'sum', 'reversed', 'filter', 'frozenset', 'ord', 'chr', 'divmod', 'callable',
                 'ValueError', 'TypeError', 'Exception', 'KeyError', 'IndexError', 'RuntimeError', 'getattr', 'hasattr', 'iter', 'next', 'format', 'slice', 'bytes'}
PURE_MODULE_CALLS = {
    'math': None,                      # every function of math
    're': {'fullmatch', 'match', 'search', 'split', 'findall', 'compile', 'sub', 'escape', 'finditer'},
    'html': {'escape', 'unescape'},
    'os.path': {'abspath', 'join', 'basename', 'dirname', 'exists', 'splitext'},
    'tinycss2': {'serialize', 'parse_component_value_list', 'parse_declaration_list', 'parse_stylesheet', 'parse_rule_list', 'parse_one_component_value'},
}
STDOUT_CALLS = {'print', 'click.echo', 'click.secho', 'traceback.print_exc', 'warnings.warn', 'console.print', 'sys.stdout.write', 'sys.stderr.write', 'logging.warning', 'logging.error', 'logging.critical', 'logging.exception'}
MUTATORS = {'append', 'update', 'pop', 'setdefault', 'clear', 'extend', 'insert', 'remove', 'add', 'discard', 'sort', 'reverse', 'popitem', 'write', 'writelines'}
NONDET = {'random', 'time', 'datetime', 'uuid', 'secrets'}
REFLECTION_NAMES = {'setattr', 'delattr', 'globals', 'locals', 'exec', 'eval', 'vars', '__import__', 'compile'}
STATEFUL_DECORATORS = {'lru_cache', 'cache', 'cached_property', 'functools.lru_cache', 'functools.cache', 'memoize'}
FS_WRITE_METHODS = {'write_text', 'write_bytes', 'unlink', 'touch', 'mkdir', 'rmdir', 'symlink_to', 'chmod', 'hardlink_to'}
FS_WRITE_FUNCS = {'os.remove', 'os.unlink', 'os.rename', 'os.replace', 'os.mkdir', 'os.makedirs', 'os.rmdir', 'shutil.copy', 'shutil.move', 'shutil.rmtree', 'shutil.copyfile',
                  'tempfile.mkstemp', 'tempfile.NamedTemporaryFile', 'tempfile.mkdtemp', 'os.system', 'subprocess.run', 'subprocess.Popen'}
FS_READ_METHODS = {'is_file', 'is_dir', 'rglob', 'glob', 'exists', 'read_text', 'read_bytes', 'iterdir', 'stat', 'resolve'}


class FnSummary:
    def __init__(self, qual):
        self.qual = qual
        self.effects = {}       # atom -> list of (lineno, guard chain as source strings)
        self.calls = []         # (callee qual or dotted name, lineno, guards)
    def add(self, atom, lineno, guards):
        self.effects.setdefault(atom, []).append((lineno, tuple(guards)))


class Analyzer:
    def __init__(self, prog, declared):
        self.prog = prog
        self.declared = declared        # qual -> set of effect atoms (prefix match with '*') the function is ALLOWED to have
        self.mutated_globals = self._mutated_globals()

    # ------------------------------------------------------------------ module-level state
    def _mutated_globals(self):
        """module-level names bound to containers that some statement in the package mutates or rebinds"""
        out = {}
        for m in self.prog.modules.values():
            for name, e in m.consts.items():
                if isinstance(e, (ast.Dict, ast.List, ast.Set, ast.ListComp, ast.DictComp, ast.SetComp)) or (isinstance(e, ast.Call) and ast.unparse(e.func) in ('dict', 'list', 'set', 'defaultdict', 'collections.defaultdict', 'OrderedDict')):
                    if not self.prog.global_is_frozen(name):
                        out[name] = m.name
        return out

    def module_level_names(self, m):
        names = set(m.consts)
        for n in m.tree.body:
            if isinstance(n, ast.AugAssign) and isinstance(n.target, ast.Name): names.add(n.target.id)
        return names

    # ------------------------------------------------------------------ per function
    def resolve_callee(self, m, name, cls=None):
        """dotted source name of a call -> ('fn', qual) | ('ext', dotted) | ('method', attr) | ('local', name)"""
        parts = name.split('.')
        head = parts[0]
        if len(parts) == 1:
            if head in m.funcs and '.' not in head: return ('fn', f'{m.name}:{head}')
            if head in m.classes: return ('fn', f'{m.name}:{head}.__init__')
            if head in m.imports:
                ref = m.imports[head]
                if ref[0] == 'sym':
                    _, mod2, sym = ref
                    if mod2 in self.prog.modules:
                        m2 = self.prog.modules[mod2]
                        if sym in m2.funcs: return ('fn', f'{mod2}:{sym}')
                        if sym in m2.classes: return ('fn', f'{mod2}:{sym}.__init__')
                        if sym in m2.imports: return self.resolve_callee(m2, sym)
                    return ('ext', f'{mod2}.{sym}')
                return ('ext', ref[1])
            return ('builtin', head)
        if head in m.imports and m.imports[head][0] == 'mod':
            return ('ext', m.imports[head][1] + '.' + '.'.join(parts[1:]))
        if head in m.imports and m.imports[head][0] == 'sym':
            _, mod2, sym = m.imports[head]
            return ('ext', f'{mod2}.{sym}.' + '.'.join(parts[1:]))
        if head == 'self' and cls and len(parts) == 2 and f'{cls}.{parts[1]}' in m.funcs:
            return ('fn', f'{m.name}:{cls}.{parts[1]}')
        return ('method', parts[-1], '.'.join(parts[:-1]))

    def summarize(self, qual):
        fn, m = self.prog.func(qual)
        local = qual.split(':')[1]
        cls = local.split('.')[0] if '.' in local else None
        s = FnSummary(qual)
        params = [a.arg for a in fn.args.args]
        selfname = params[0] if cls and params and params[0] == 'self' else None
        # decorators that introduce state
        for d in fn.decorator_list:
            dn = ast.unparse(d.func if isinstance(d, ast.Call) else d)
            if dn in STATEFUL_DECORATORS or dn.split('.')[-1] in STATEFUL_DECORATORS: s.add(f'reflection:stateful decorator {dn}', fn.lineno, [])
        # mutable default arguments that are mutated
        mut_defaults = {}
        names = [a.arg for a in fn.args.args]
        for n, d in zip(names[len(names) - len(fn.args.defaults):], fn.args.defaults):
            if isinstance(d, (ast.List, ast.Dict, ast.Set)) or (isinstance(d, ast.Call) and ast.unparse(d.func) in ('list', 'dict', 'set')): mut_defaults[n] = d
        # local names and what they alias
        assigned = {}
        for n in ast.walk(fn):
            if isinstance(n, ast.Assign):
                for t in n.targets:
                    for x in ast.walk(t):
                        if isinstance(x, ast.Name) and isinstance(x.ctx, ast.Store): assigned.setdefault(x.id, []).append(n.value)
            elif isinstance(n, (ast.AugAssign, ast.AnnAssign)) and isinstance(n.target, ast.Name): assigned.setdefault(n.target.id, []).append(n.value)
            elif isinstance(n, ast.For):
                for x in ast.walk(n.target):
                    if isinstance(x, ast.Name): assigned.setdefault(x.id, []).append(n.iter)
            elif isinstance(n, ast.With):
                for it in n.items:
                    if it.optional_vars is not None and isinstance(it.optional_vars, ast.Name): assigned.setdefault(it.optional_vars.id, []).append(it.context_expr)
        globals_declared = {g for n in ast.walk(fn) if isinstance(n, (ast.Global, ast.Nonlocal)) for g in n.names}
        local_defs = {n.name for n in ast.walk(fn) if isinstance(n, ast.FunctionDef) and n is not fn}
        # imports made inside the function body shadow the module's table
        local_imports = {}
        for n in ast.walk(fn):
            if isinstance(n, (ast.Import, ast.ImportFrom)): m._scan_imports([n], local_imports)
        if local_imports:
            import copy
            m = copy.copy(m); m.imports = dict(m.imports); m.imports.update(local_imports)
        modnames = self.module_level_names(m)

        def root_of(e):
            while isinstance(e, (ast.Attribute, ast.Subscript)): e = e.value
            return e.id if isinstance(e, ast.Name) else None

        def aliases_param(name, depth=0):
            """does local `name` (possibly) alias a parameter's object?  (conservative)"""
            if name in params: return name
            if depth > 4: return name
            for v in assigned.get(name, []):
                if v is None: continue
                r = root_of(v) if isinstance(v, (ast.Name, ast.Attribute, ast.Subscript)) else None
                if r is not None and r != name:
                    a = aliases_param(r, depth + 1)
                    if a: return a
                if isinstance(v, (ast.IfExp, ast.BoolOp)):
                    for x in ast.walk(v):
                        if isinstance(x, ast.Name) and x.id != name:
                            a = aliases_param(x.id, depth + 1)
                            if a: return a
            return None

        def visit(node, guards):
            if isinstance(node, ast.If):
                visit_expr(node.test, guards)
                g = ast.unparse(node.test)
                for st in node.body: visit(st, guards + [g])
                for st in node.orelse: visit(st, guards + [f'not ({g})'])
                return
            if isinstance(node, (ast.FunctionDef, ast.Lambda)) and node is not fn:
                body = node.body if isinstance(node, ast.FunctionDef) else [node.body]
                for st in body: visit(st, guards) if isinstance(st, ast.stmt) else visit_expr(st, guards)
                return
            if isinstance(node, (ast.Global, ast.Nonlocal)):
                return
            if isinstance(node, (ast.Assign, ast.AugAssign, ast.AnnAssign, ast.Delete)):
                targets = node.targets if isinstance(node, (ast.Assign, ast.Delete)) else [node.target]
                for t in targets: store(t, node.lineno, guards)
                if getattr(node, 'value', None) is not None: visit_expr(node.value, guards)
                return
            if isinstance(node, ast.For):
                visit_expr(node.iter, guards)
                it = node.iter
                if isinstance(it, ast.Call) and ast.unparse(it.func) == 'set' or isinstance(it, (ast.Set, ast.SetComp)):
                    s.add('nondet:iteration over a set', node.lineno, guards)
                if isinstance(it, ast.Name):
                    for v in assigned.get(it.id, []):
                        if isinstance(v, (ast.Set, ast.SetComp)) or (isinstance(v, ast.Call) and ast.unparse(v.func) == 'set'):
                            s.add('nondet:iteration over a set', node.lineno, guards)
                for st in node.body + node.orelse: visit(st, guards)
                return
            if isinstance(node, ast.With):
                for it in node.items: visit_expr(it.context_expr, guards)
                for st in node.body: visit(st, guards)
                return
            if isinstance(node, ast.Try):
                for st in node.body + node.orelse + node.finalbody: visit(st, guards)
                for h in node.handlers:
                    for st in h.body: visit(st, guards)
                return
            if isinstance(node, ast.While):
                visit_expr(node.test, guards)
                for st in node.body + node.orelse: visit(st, guards)
                return
            if isinstance(node, ast.stmt):
                for ch in ast.iter_child_nodes(node):
                    if isinstance(ch, ast.expr): visit_expr(ch, guards)
                    elif isinstance(ch, ast.stmt): visit(ch, guards)
                return

        def store(t, lineno, guards):
            if isinstance(t, ast.Name):
                if t.id in globals_declared: s.add(f'global_write:{t.id}', lineno, guards)
                return
            if isinstance(t, (ast.Tuple, ast.List)):
                for x in t.elts: store(x, lineno, guards)
                return
            if isinstance(t, (ast.Attribute, ast.Subscript)):
                r = root_of(t)
                if r is None: return
                if r == selfname: s.add('self_mutate', lineno, guards); return
                if r not in assigned and r not in params and (r in modnames or r in m.imports): s.add(f'global_write:{r}', lineno, guards); return
                a = aliases_param(r)
                if a == selfname and selfname: s.add('self_mutate', lineno, guards)
                elif a: s.add(f'arg_mutate:{a}', lineno, guards)
                if r in mut_defaults: s.add(f'global_write:mutable default {r}', lineno, guards)

        def visit_expr(e, guards):
            for n in ast.walk(e):
                if isinstance(n, ast.Name) and isinstance(n.ctx, ast.Load):
                    if n.id in self.mutated_globals and n.id not in assigned and n.id not in params:
                        s.add(f'global_mut_read:{n.id}', n.lineno, guards)
                    if n.id in REFLECTION_NAMES and n.id not in assigned: s.add(f'reflection:{n.id}', n.lineno, guards)
                if isinstance(n, ast.Attribute) and n.attr in ('__dict__', '__class__', '__globals__'): s.add(f'reflection:{n.attr}', n.lineno, guards)
                if isinstance(n, ast.Call): call(n, guards)

        def call(n, guards):
            try: name = ast.unparse(n.func)
            except Exception: name = '<expr>'
            if isinstance(n.func, ast.Attribute):
                base = n.func.value
                while isinstance(base, (ast.Attribute, ast.Subscript)): base = base.value
                if not isinstance(base, ast.Name):
                    name = '<expr>.' + n.func.attr          # method call on the result of an expression (e.g. serialize(x).strip())
            elif not isinstance(n.func, ast.Name):
                name = '<expr>'
            if name in local_defs: return                   # a nested def: its body is analysed as part of this function
            low = name.lower()
            if name in STDOUT_CALLS or low in STDOUT_CALLS or name.endswith('.print') and 'console' in low:
                s.add('stdout', n.lineno, guards); return
            if '.' in name and name.rsplit('.', 1)[1] in ('warning', 'warn', 'error', 'critical', 'exception', 'log') and 'log' in name.rsplit('.', 1)[0].lower():
                s.add('stdout', n.lineno, guards); return       # a logger object: with logging unconfigured, WARNING and above reach stderr through the last-resort handler (debug / info do not)
            if name == 'open':
                mode = 'r'
                if len(n.args) > 1 and isinstance(n.args[1], ast.Constant): mode = n.args[1].value
                for k in n.keywords:
                    if k.arg == 'mode' and isinstance(k.value, ast.Constant): mode = k.value.value
                path = ast.unparse(n.args[0]) if n.args else '?'
                if n.args and isinstance(n.args[0], ast.Name) and (n.args[0].id not in params or n.args[0].id in assigned): path = '<local>'      # a local's spelling is not part of the effect (renaming it changes nothing)
                s.add(('fs_write:' if any(c in str(mode) for c in 'wax+') else 'fs_read:') + path, n.lineno, guards); return
            if name in FS_WRITE_FUNCS: s.add(f'fs_write:{name}', n.lineno, guards); return
            kind = self.resolve_callee(m, name, cls)
            if kind[0] == 'fn':
                s.calls.append((kind[1], n.lineno, tuple(guards))); return
            if kind[0] == 'builtin':
                b = kind[1]
                if b in PURE_BUILTINS: return
                if b in ('id', 'hash'): s.add(f'nondet:{b}()', n.lineno, guards); return
                if b in REFLECTION_NAMES: s.add(f'reflection:{b}', n.lineno, guards); return
                if b in assigned or b in params:       # calling a local callable (closure / parameter)
                    return
                s.add(f'unknown_call:{b}', n.lineno, guards); return
            if kind[0] == 'ext':
                dotted = kind[1]
                mod = dotted.rsplit('.', 1)[0]; f = dotted.rsplit('.', 1)[-1]
                if mod.split('.')[0] in NONDET or dotted.startswith('os.environ') or dotted in ('os.getenv', 'os.getpid'): s.add(f'nondet:{dotted}', n.lineno, guards); return
                if dotted in ('importlib.reload',): s.add(f'reflection:{dotted}', n.lineno, guards); return
                for pm, fs in PURE_MODULE_CALLS.items():
                    if mod == pm and (fs is None or f in fs): return
                    if dotted.startswith(pm + '.') and fs is None: return
                if dotted in ('click.echo', 'click.secho', 'traceback.print_exc', 'warnings.warn'): s.add('stdout', n.lineno, guards); return
                if dotted.split('.')[0] in ('rich',): s.add('stdout', n.lineno, guards); return
                if dotted in ('pathlib.Path',): return
                if dotted.startswith('tinycss2.ast.'): return
                s.add(f'unknown_call:{dotted}', n.lineno, guards); return
            # method call on some object
            attr, recv = kind[1], kind[2]
            r = recv.split('.')[0].split('[')[0].split('(')[0]
            if attr in FS_WRITE_METHODS: s.add(f'fs_write:{recv}.{attr}', n.lineno, guards); return
            if attr in MUTATORS:
                if r == selfname and selfname: s.add('self_mutate', n.lineno, guards); return
                if r in mut_defaults: s.add(f'global_write:mutable default {r}', n.lineno, guards); return
                if r not in assigned and r not in params and (r in modnames or r in self.mutated_globals): s.add(f'global_write:{r}', n.lineno, guards); return
                a = aliases_param(r) if r else None
                if a == selfname and selfname: s.add('self_mutate', n.lineno, guards)
                elif a: s.add(f'arg_mutate:{a}', n.lineno, guards)
                return
            if r in ('console',) and attr == 'print': s.add('stdout', n.lineno, guards); return
            # other methods: str/list/dict/re.Pattern/tinycss2 node accessors, Path accessors - pure reads
            if attr in FS_READ_METHODS: s.add(f'fs_read:{recv}.{attr}', n.lineno, guards); return
            return

        for st in fn.body: visit(st, [])
        return s


def allowed(atom, decl):
    for d in decl:
        if d == atom: return True
        if d.endswith('*') and atom.startswith(d[:-1]): return True
    return False


def check_all(prog, declared, roots=None):
    """-> (obligations [dict(name, ok, detail)], summaries).  For every declared function: its own atoms plus the DECLARED
    atoms of every callee must be within its declaration.  Functions without declaration are 'pure' ({}) by default."""
    an = Analyzer(prog, declared)
    obls = []; sums = {}
    quals = []
    for mname, m in prog.modules.items():
        for local in m.funcs:
            if f'{mname}:{local}' in getattr(prog, 'extracted', {}): continue      # a mechanically extracted block is part of a function already analysed
            quals.append(f'{mname}:{local}')
    for q in quals:
        try: s = an.summarize(q)
        except Exception as e:
            obls.append({'name': f'{q}/frame', 'ok': None, 'detail': f'analysis failed: {type(e).__name__}: {e}'}); continue
        sums[q] = s
    for q, s in sums.items():
        decl = declared.get(q, set())
        bad = []
        for atom, sites in s.effects.items():
            if not allowed(atom, decl): bad.append({'effect': atom, 'line': sites[0][0], 'guards': list(sites[0][1])})
        for callee, ln, guards in s.calls:
            cdecl = declared.get(callee, set())
            if callee not in sums and callee.split(':')[0] in prog.modules and not callee.endswith('.__init__'):
                bad.append({'effect': f'unknown_call:{callee}', 'line': ln, 'guards': list(guards)}); continue
            for atom in cdecl:
                a = atom
                if a.startswith('arg_mutate:') or a == 'self_mutate':
                    # a callee that mutates ITS argument mutates whatever we passed: conservatively an arg_mutate of ours unless declared
                    a = 'arg_mutate:*via ' + callee.split(':')[1]
                    if callee.endswith('.__init__') or callee.endswith('._parse'): continue      # constructing a fresh object
                if not allowed(a, decl) and not allowed(atom, decl): bad.append({'effect': f'{atom} (via call to {callee.split(":")[1]})', 'line': ln, 'guards': list(guards)})
        obls.append({'name': f'{q}/frame[{", ".join(sorted(decl)) or "pure"}]', 'ok': not bad, 'detail': bad[:4], 'qual': q})
    return obls, sums, an
