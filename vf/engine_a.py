"""Pool driver for engine A: verifies functions (and in-memory mutants = canaries) in parallel processes and
returns plain-data reports (z3 objects never cross a process boundary)."""
from __future__ import annotations
import multiprocessing as mp, os, time, traceback


def _worker(job):
    qual, override, variant, timeout_ms = job
    try:
        from .program import Program
        from .contracts import verify_function, model_summary
        from contracts.registry import build
        prog = Program(overrides=override or None)
        reg = build(variant)
        if qual.endswith('~rel'):
            # relational (2-run product) contract: vf/relational.py
            from .relational import verify_relational
            from contracts.relational import specs
            c = specs().get(qual)
            if c is None:
                return {'qual': qual, 'error': f'no relational contract registered for {qual}', 'results': [], 'fatal': True}
            rep = verify_relational(prog, reg, c, timeout_ms=timeout_ms)
        else:
            c = reg.get(qual)
            if c is None:
                return {'qual': qual, 'error': f'no contract registered for {qual}', 'results': [], 'fatal': True}
            rep = verify_function(prog, reg, c, timeout_ms=timeout_ms)
        props_all = sorted({p for ps in c.props.values() for p in ps})
        out = {'qual': qual, 'error': rep.error, 'vacuous': rep.vacuous, 'paths': rep.paths, 'returns': rep.returns,
               'wall': rep.wall, 'assumptions': sorted(rep.assumptions), 'results': [], 'effects': getattr(rep, 'effects', []),
               'source_digest': prog.digest()}
        for r in rep.results:
            o = r.obl
            base = o.name.split('/', 1)[1]
            if o.kind == 'post':
                label = base.split('/')[0]; props = c.props.get(label, props_all)
            elif o.kind == 'raise_msg':
                label = 'error_message_nonempty'; props = c.props.get('error_message_nonempty', props_all)
            elif o.kind == 'effect':
                label = 'effects_only_if'; props = c.props.get('effects_only_if', props_all)
            elif o.kind == 'loop':
                label = o.info.get('label', 'inv'); props = c.props.get('inv:' + label, c.props.get(label, props_all))
            elif o.kind == 'pre':
                callee = base.split('[', 1)[1].split(']')[0] if '[' in base else ''
                label = base; props = c.props.get('pre:' + callee, props_all)
            elif o.kind == 'rel':
                label = o.info.get('label', base); props = props_all
            else:
                label = base; props = props_all
            out['results'].append({'name': o.name, 'kind': o.kind, 'label': label, 'props': list(props), 'status': r.status,
                                   'solver': r.solver, 'secs': round(r.secs, 4), 'reason': r.reason,
                                   'model': model_summary(r) if r.status == 'failed' else None,
                                   'trace': [str(t) for t in o.info.get('trace', ())][-12:]})
        return out
    except Exception as e:
        return {'qual': qual, 'error': f'engine crashed: {type(e).__name__}: {e}', 'results': [], 'fatal': True,
                'traceback': traceback.format_exc()[-2000:]}


def verify_many(jobs, procs=None, timeout_ms=20000, variant=None):
    """jobs: list of (qual, overrides-dict-or-None).  Returns reports in the same order."""
    procs = procs or min(16, max(1, len(jobs)), os.cpu_count() or 4)
    payload = [(q, ov, variant, timeout_ms) for q, ov in jobs]
    if procs == 1 or len(jobs) == 1:
        return [_worker(j) for j in payload]
    ctx = mp.get_context('fork')
    with ctx.Pool(procs) as pool:
        return pool.map(_worker, payload, chunksize=1)
