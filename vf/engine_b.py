"""Helpers to run engine B on real functions of the working tree against spec functions."""
from __future__ import annotations
import ast, z3
from . import ring
from .ring import NumExec, Z3Map, var, app, Poly
from contracts import specs


def resolve_fn(prog, modname, name):
    m = prog.modules[modname]
    if name in m.funcs: return m.funcs[name], m
    if name in m.imports and m.imports[name][0] == 'sym':
        _, mod2, sym = m.imports[name]
        return resolve_fn(prog, mod2, sym)
    raise KeyError(f'{name} not found from {modname}')


def code_exec(prog, modname, inline=(), calls=None, zmap=None):
    inl = {}
    for nm in inline:
        fd, m = resolve_fn(prog, modname, nm)
        inl[nm] = (fd, {})
    return NumExec(calls or {}, inl, zmap or Z3Map())


def spec_exec(zmap=None, calls=None):
    inl = {n: (fd, {}) for n, fd in specs.FUNCS.items()}
    return NumExec(calls or {}, inl, zmap or Z3Map())


def int_vars(names, lo=0, hi=255):
    vs = {n: z3.Int(n) for n in names}
    facts = [z3.And(v >= lo, v <= hi) for v in vs.values()]
    return vs, facts


def real_vars(names):
    return {n: z3.Real(n) for n in names}
