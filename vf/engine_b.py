"""Helpers to run engine B on real functions of the working tree against spec functions."""
from __future__ import annotations
import ast, z3
from . import ring
from .ring import NumExec, Z3Map, var, app, Poly
from contracts import specs


def resolve_fn(prog, modname, name):
    m = prog.modules[modname]
    if name in m.funcs:
        wr = prog.wrapped_by(f'{modname}:{name}')
        if wr:
            from .ring import Unsupported
            raise Unsupported(f'{name} is wrapped by decorator(s) {wr}: its body is not what callers reach')
        return m.funcs[name], m
    if name in m.imports and m.imports[name][0] == 'sym':
        _, mod2, sym = m.imports[name]
        return resolve_fn(prog, mod2, sym)
    raise KeyError(f'{name} not found from {modname}')


def code_exec(prog, modname, inline=(), calls=None, zmap=None):
    inl = {}
    for nm in inline:
        fd, m = resolve_fn(prog, modname, nm)
        inl[nm] = (fd, {})
    return NumExec(calls or {}, inl, zmap or Z3Map())


def spec_exec(zmap=None, calls=None):
    inl = {n: (fd, {}) for n, fd in specs.FUNCS.items()}
    return NumExec(calls or {}, inl, zmap or Z3Map())


def int_vars(names, lo=0, hi=255):
    vs = {n: z3.Int(n) for n in names}
    facts = [z3.And(v >= lo, v <= hi) for v in vs.values()]
    return vs, facts


def real_vars(names):
    return {n: z3.Real(n) for n in names}


def _slice_worker(job):
    builder_mod, builder_fn, overrides, i, n = job
    import importlib
    from .program import Program
    prog = Program(overrides=overrides or None)
    b = getattr(importlib.import_module(builder_mod), builder_fn)
    try:
        cp, sp, z, extra = b(prog)
    except (ring.Unsupported, KeyError, ZeroDivisionError) as e:
        return {'undecided': str(e)}
    mine = cp[i::n]
    pairs, eq, diffs = ring.conform(mine, sp, z, 'slice')
    rng_bad = []
    if extra:
        for pc, v in mine:
            for nm, g in extra(v):
                r = z.valid(pc, g)
                if r != 'proved': rng_bad.append({'range': nm, 'result': r, 'path': [ring.show_cond(c) for c in pc][-4:]})
    return {'code_paths': len(cp), 'spec_paths': len(sp), 'pairs': pairs, 'equal': eq, 'diffs': diffs[:2], 'range_bad': rng_bad[:3], 'n_mine': len(mine)}


def conform_parallel(builder_mod, builder_fn, overrides=None, n=16):
    """builder(prog) -> (code_paths, spec_paths, zmap, range_goals(value)->[(name, cond)] or None); code paths are sliced over n processes"""
    import multiprocessing as mp
    with mp.get_context('fork').Pool(n) as pool:
        res = pool.map(_slice_worker, [(builder_mod, builder_fn, overrides, i, n) for i in range(n)])
    und = [r['undecided'] for r in res if 'undecided' in r]
    if und: return {'undecided': und[0]}
    return {'code_paths': res[0]['code_paths'], 'spec_paths': res[0]['spec_paths'], 'pairs': sum(r['pairs'] for r in res), 'equal': sum(r['equal'] for r in res),
            'diffs': [d for r in res for d in r['diffs']][:3], 'range_bad': [d for r in res for d in r['range_bad']][:3]}
