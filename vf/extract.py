"""Mechanical extraction of statement blocks of real functions into stand-alone functions, done on every run from the
working tree's AST (never stored).  The extracted function's body IS the original statement node (same object, same line
numbers); only the wrapper (signature, trailing return) is synthetic.

What an extraction drops is stated in its entry (and repeated in the evidence of the check that uses it).
"""
from __future__ import annotations
import ast


def _assigned(node):
    out = []
    def tg(t):
        if isinstance(t, ast.Name):
            if t.id not in out: out.append(t.id)
        elif isinstance(t, (ast.Tuple, ast.List)):
            for x in t.elts: tg(x)
    for n in ast.walk(node):
        if isinstance(n, ast.Assign):
            for t in n.targets: tg(t)
        elif isinstance(n, (ast.AugAssign, ast.AnnAssign)): tg(n.target)
        elif isinstance(n, ast.For): tg(n.target)
        elif isinstance(n, ast.ExceptHandler) and n.name and n.name not in out: out.append(n.name)
        elif isinstance(n, (ast.Import, ast.ImportFrom)):
            for a in n.names:
                nm = a.asname or a.name.split('.')[0]
                if nm not in out: out.append(nm)
        elif isinstance(n, ast.comprehension): tg(n.target)
    return out


def extract_block(fn, block, name):
    """block: a statement node inside fn.  Parameters = all parameters of fn, then the locals of fn bound outside the
    block that the block reads (first-use order); result = tuple of the fn-locals the block assigns that are also bound
    outside it (their value on entry is a parameter)."""
    params = [a.arg for a in fn.args.args]
    inside = set(id(n) for n in ast.walk(block))
    outer_bound = list(params)
    for n in ast.walk(fn):
        if id(n) in inside: continue
        if isinstance(n, (ast.Assign, ast.AugAssign, ast.AnnAssign, ast.For, ast.ExceptHandler, ast.Import, ast.ImportFrom, ast.comprehension)):
            # only the targets bound by this very node (not by nested nodes inside the block)
            tmp = ast.Module(body=[], type_ignores=[])
            for x in _assigned_shallow(n):
                if x not in outer_bound: outer_bound.append(x)
    in_assigned = _assigned(block)
    reads = list(params)        # every parameter of the enclosing function, used or not: a block that stops reading one keeps its signature
    for n in ast.walk(block):
        if isinstance(n, ast.Name) and isinstance(n.ctx, ast.Load) and n.id in outer_bound and n.id not in reads: reads.append(n.id)
    live_out = [x for x in in_assigned if x in outer_bound]
    for x in live_out:
        if x not in reads: reads.append(x)
    ret = ast.Return(value=ast.Tuple(elts=[ast.Name(id=x, ctx=ast.Load()) for x in live_out], ctx=ast.Load()))
    fdef = ast.FunctionDef(name=name, args=ast.arguments(posonlyargs=[], args=[ast.arg(arg=x) for x in reads], kwonlyargs=[], kw_defaults=[], defaults=[]),
                           body=[block, ret], decorator_list=[], returns=None, type_params=[])
    ast.copy_location(ret, block); ret.lineno = ret.end_lineno = getattr(block, 'end_lineno', block.lineno)
    ast.copy_location(fdef, block)
    ast.fix_missing_locations(fdef)
    return fdef, reads, live_out


def _assigned_shallow(n):
    out = []
    def tg(t):
        if isinstance(t, ast.Name): out.append(t.id)
        elif isinstance(t, (ast.Tuple, ast.List)):
            for x in t.elts: tg(x)
    if isinstance(n, ast.Assign):
        for t in n.targets: tg(t)
    elif isinstance(n, (ast.AugAssign, ast.AnnAssign)): tg(n.target)
    elif isinstance(n, ast.For): tg(n.target)
    elif isinstance(n, ast.comprehension): tg(n.target)
    elif isinstance(n, ast.ExceptHandler) and n.name: out.append(n.name)
    elif isinstance(n, (ast.Import, ast.ImportFrom)):
        for a in n.names: out.append(a.asname or a.name.split('.')[0])
    return out


# ---------------------------------------------------------------------------------------------------- the extractions in use
def _cli_coloured_rule(fn):
    """the unique `if <text-colour declaration>:` statement of process_nodes_recursive: the If whose body holds the try block
    with the three counters"""
    cands = [n for n in ast.walk(fn) if isinstance(n, ast.If) and any(isinstance(s, ast.Try) for s in n.body)]
    if len(cands) != 1: raise KeyError(f'{len(cands)} candidate per-rule blocks in process_nodes_recursive')
    return cands[0]


def _cli_at_rule(fn):
    """the unique `elif isinstance(node, AtRule):` statement of process_nodes_recursive"""
    cands = [n for n in ast.walk(fn) if isinstance(n, ast.If) and isinstance(n.test, ast.Call) and ast.unparse(n.test.func) == 'isinstance'
             and len(n.test.args) == 2 and ast.unparse(n.test.args[1]) == 'AtRule']
    if len(cands) != 1: raise KeyError(f'{len(cands)} candidate at-rule blocks in process_nodes_recursive')
    return cands[0]


def _cli_decl_scan(fn):
    """the loop that picks a rule's text-colour and background declarations: the unique `for` whose body starts with `if <target>.name == "color"`"""
    cands = []
    for n in ast.walk(fn):
        if isinstance(n, ast.For) and isinstance(n.target, ast.Name) and n.body and isinstance(n.body[0], ast.If):
            for t in ast.walk(n.body[0].test):
                if isinstance(t, ast.Compare) and ast.unparse(t.left) == f'{n.target.id}.name' and len(t.comparators) == 1 and isinstance(t.comparators[0], ast.Constant) and t.comparators[0].value == 'color':
                    cands.append(n); break
    if len(cands) != 1: raise KeyError(f'{len(cands)} candidate declaration-scan loops in process_nodes_recursive')
    return cands[0]


EXTRACTIONS = {
    'cm_colors.cli.main:process_nodes_recursive__decl_scan': dict(
        outer='process_nodes_recursive', select=_cli_decl_scan,
        drops='everything but the loop over the rule\'s parsed declarations (inputs: the list of Declaration objects and the initial None values of the two results)'),
    'cm_colors.cli.main:process_nodes_recursive__at_rule': dict(
        outer='process_nodes_recursive', select=_cli_at_rule,
        drops='the enclosing loop over the node list and the branch for qualified rules (a separate extraction)'),
    'cm_colors.cli.main:process_nodes_recursive__coloured_rule': dict(
        outer='process_nodes_recursive', select=_cli_coloured_rule,
        drops=("the enclosing loop over the node list, the parsing of the rule's declaration list and the scan for its last `color` / `background-color` "
               "declaration (inputs of the block: color_decl, bg_decl), the re-serialisation of a modified rule (`if modified:`) and the descent into @media/@supports "
               "(a recursive call of the same function)")),
}


def install(prog):
    """adds the extracted functions to the program index (called by Program.__init__); failures leave the function absent,
    so a contract on it reports 'no longer attaches' (undecided) instead of proving something else"""
    prog.extracted = {}
    for qual, e in EXTRACTIONS.items():
        mod, local = qual.split(':')
        m = prog.modules.get(mod)
        if m is None or e['outer'] not in m.funcs: continue
        try:
            block = e['select'](m.funcs[e['outer']])
            fdef, params, live_out = extract_block(m.funcs[e['outer']], block, local)
        except KeyError:
            continue
        m.funcs[local] = fdef
        prog.extracted[qual] = {'n_outer_params': len(m.funcs[e['outer']].args.args), 'params': params, 'returns': live_out, 'lines': (block.lineno, getattr(block, 'end_lineno', block.lineno)), 'drops': e['drops']}
