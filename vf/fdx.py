"""Engine D: evaluation of the REAL function over a whole finite domain (16 processes).  Complete for the stated
domain, exact for CPython floats; reported with exhaustive:true only when the full domain was enumerated."""
from __future__ import annotations
import multiprocessing as mp, os, time, importlib
from .program import SRC_ROOT

N24 = 1 << 24


def rgb_of(i): return (i >> 16, (i >> 8) & 255, i & 255)


def quick_domain():
    """bounded stand-in domain for the quick tier: a 52^3 lattice (every 5th level + 255), all 256 greys,
    every channel swept 0..255 against 16 settings of the other two, and a fixed pseudo-random sample"""
    L = sorted(set(range(0, 256, 5)) | {255})
    s = set()
    for r in L:
        for g in L:
            for b in L: s.add((r << 16) | (g << 8) | b)
    for v in range(256): s.add((v << 16) | (v << 8) | v)
    oth = (0, 17, 128, 255)
    for v in range(256):
        for a in oth:
            for b in oth:
                s.add((v << 16) | (a << 8) | b); s.add((a << 16) | (v << 8) | b); s.add((a << 16) | (b << 8) | v)
    x = 12345
    for _ in range(60000):
        x = (x * 1103515245 + 12345) & 0x7fffffff
        s.add(x & 0xffffff)
    return sorted(s)


def _init():
    import sys
    if SRC_ROOT not in sys.path[:1]: sys.path.insert(0, SRC_ROOT)


def _call(job):
    modname, fname, chunk, extra = job
    _init()
    w = getattr(importlib.import_module(modname), fname)
    return w(chunk, extra)


def sweep(worker_mod, worker_fn, tier, extra=None, procs=16, domain=None):
    """worker(chunk, extra) -> dict(n=..., fails=[...], stats={...}); chunk is a range or list of 24-bit ints.
    Returns (total_n, fails, merged_stats, exhaustive, wall)"""
    t0 = time.time()
    if domain is not None:
        ids = domain; exhaustive = False
        step = max(1, len(ids) // (procs * 8))
        chunks = [ids[i:i + step] for i in range(0, len(ids), step)]
    elif tier == 'thorough':
        step = N24 // 512
        chunks = [range(i, i + step) for i in range(0, N24, step)]; exhaustive = True
    else:
        ids = quick_domain(); exhaustive = False
        step = max(1, len(ids) // (procs * 8))
        chunks = [ids[i:i + step] for i in range(0, len(ids), step)]
    jobs = [(worker_mod, worker_fn, c, extra) for c in chunks]
    with mp.get_context('fork').Pool(procs) as pool:
        res = pool.map(_call, jobs, chunksize=1)
    n = sum(r['n'] for r in res)
    fails = [f for r in res for f in r.get('fails', [])]
    stats = {}
    for r in res:
        for k, v in r.get('stats', {}).items():
            if k.startswith('max'): stats[k] = max(stats.get(k, v), v)
            elif k.startswith('min'): stats[k] = min(stats.get(k, v), v)
            else: stats[k] = stats.get(k, 0) + v
    return n, fails, stats, exhaustive, time.time() - t0
