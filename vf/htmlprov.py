"""String-provenance analysis for the HTML report generators (C19), on the real ASTs.

Obligations per function F in {generate_report, to_html, to_html_bulk}:
  provenance  every {hole} of every f-string that flows into the page is, by single-assignment dataflow inside F,
              (a) html.escape(...) with quote not disabled, or (b) a composite f-string / concatenation of safe parts,
              (c) the HTML returned by a function that itself satisfies this obligation, (d) a constant, or
              (e) a level badge from _get_level_badge, whose pass-through branch is safe only if the level argument
              comes from a finite constant set (checked at the call sites that build the report data);
  context     in the page template every hole sits in element text (outside <style>/<script>/comments) or inside a
              DOUBLE-QUOTED attribute value - the two contexts html.escape(quote=True) cannot break out of - and the
              literal parts of a composite placed inside an attribute contain no quote characters.
"""
from __future__ import annotations
import ast, re

SAFE = ('ESC', 'CONST', 'COMPOSITE', 'HTML', 'BADGE')


class Prov:
    def __init__(self, prog, qual, safe_html_funcs=(), badge_func='_get_level_badge'):
        self.prog, self.qual = prog, qual
        self.fn, self.mod = prog.func(qual)
        self.safe_html_funcs, self.badge_func = set(safe_html_funcs), badge_func
        self.env = {}            # name -> (class, detail)
        self.problems = []       # dicts
        self.holes = []          # (class, source, lineno)
        self.templates = []      # (JoinedStr node, [classes])
        self.params = [a.arg for a in self.fn.args.args]
        for p in self.params: self.env[p] = ('RAW', p)

    def classify(self, e):
        if isinstance(e, ast.Constant): return ('CONST', repr(e.value)[:30])
        if isinstance(e, ast.Name): return self.env.get(e.id, ('RAW', e.id))
        if isinstance(e, ast.JoinedStr):
            classes = []
            for v in e.values:
                if isinstance(v, ast.FormattedValue):
                    c = self.classify(v.value); classes.append(c)
                    self.holes.append((c[0], ast.unparse(v.value), v.lineno))
                    if c[0] not in SAFE: self.problems.append({'kind': 'unescaped hole', 'expr': ast.unparse(v.value), 'line': v.lineno, 'provenance': c})
            self.templates.append((e, classes))
            return ('COMPOSITE', 'f-string')
        if isinstance(e, ast.BinOp) and isinstance(e.op, ast.Add):
            a, b = self.classify(e.left), self.classify(e.right)
            if a[0] in SAFE and b[0] in SAFE: return ('COMPOSITE', 'concat')
            return ('RAW', ast.unparse(e)[:40])
        if isinstance(e, ast.Call):
            f = ast.unparse(e.func)
            if f == 'html.escape':
                for k in e.keywords:
                    if k.arg == 'quote' and not (isinstance(k.value, ast.Constant) and k.value.value is True):
                        return ('RAW', 'html.escape with quote disabled')
                if len(e.args) > 1 and not (isinstance(e.args[1], ast.Constant) and e.args[1].value is True): return ('RAW', 'html.escape with quote disabled')
                if e.args and any(isinstance(c, ast.Call) and ast.unparse(c.func).endswith('unescape') for c in ast.walk(e.args[0])):
                    return ('RAW', 'escaped after html.unescape: text that spells a character reference is no longer shown verbatim')
                return ('ESC', ast.unparse(e.args[0]) if e.args else '')
            if f == 'str' and e.args: return self.classify(e.args[0])
            if f in self.safe_html_funcs:
                return ('HTML', f)
            if f == self.badge_func: return ('BADGEPAIR', ast.unparse(e.args[0]) if e.args else '')
            if f == 'os.path.abspath': return ('RAW', f)
            # a helper of the same module whose every return is an escaped / constant / composite value (its parameters being RAW):
            # judged by this very analysis on the helper's own body
            if isinstance(e.func, ast.Name) and e.func.id in self.mod.funcs and f != self.qual.split(':')[1] and getattr(self, 'depth', 0) < 3:
                sub = Prov(self.prog, f'{self.mod.name}:{e.func.id}', self.safe_html_funcs, self.badge_func); sub.depth = getattr(self, 'depth', 0) + 1
                rets = []
                for n in ast.walk(sub.fn):
                    if isinstance(n, ast.Return): rets.append(n)
                sub.run()
                ok = bool(rets) and not sub.problems and all(r.value is not None and sub.classify(r.value)[0] in ('ESC', 'CONST', 'COMPOSITE') for r in rets)
                if ok: return ('ESC', f'helper {f}: every return is escaped')
            return ('RAW', f'call {f}')
        if isinstance(e, ast.IfExp):
            a, b = self.classify(e.body), self.classify(e.orelse)
            return a if a[0] == b[0] else (('COMPOSITE', 'ifexp') if a[0] in SAFE and b[0] in SAFE else ('RAW', 'ifexp'))
        return ('RAW', ast.unparse(e)[:40])

    def run(self):
        self.visit(self.fn.body)
        return self

    def visit(self, stmts):
        for st in stmts:
            if isinstance(st, ast.Assign) and len(st.targets) == 1:
                t = st.targets[0]
                c = self.classify(st.value)
                if isinstance(t, ast.Name):
                    self.bind(t.id, c, st)
                elif isinstance(t, ast.Tuple) and c[0] == 'BADGEPAIR':
                    self.bind(t.elts[0].id, ('BADGE', c[1]), st); self.bind(t.elts[1].id, ('CONST', 'badge class'), st)
                elif isinstance(t, ast.Tuple):
                    for x in t.elts:
                        if isinstance(x, ast.Name): self.bind(x.id, ('RAW', 'unpack'), st)
            elif isinstance(st, ast.AugAssign) and isinstance(st.target, ast.Name):
                c = self.classify(st.value)
                old = self.env.get(st.target.id, ('RAW', '?'))
                self.env[st.target.id] = ('COMPOSITE', 'accumulated') if old[0] in SAFE and c[0] in SAFE else ('RAW', 'accumulated with raw')
            elif isinstance(st, ast.If):
                self.visit(st.body); self.visit(st.orelse)
            elif isinstance(st, ast.For):
                for x in ast.walk(st.target):
                    if isinstance(x, ast.Name): self.env[x.id] = ('RAW', 'loop element')
                self.visit(st.body)
            elif isinstance(st, ast.With):
                self.visit(st.body)
            elif isinstance(st, ast.Return) and st.value is not None:
                self.ret = self.classify(st.value)
            elif isinstance(st, ast.Expr):
                if isinstance(st.value, ast.Call) and ast.unparse(st.value.func).endswith('.write') and st.value.args:
                    c = self.classify(st.value.args[0])
                    if c[0] not in SAFE: self.problems.append({'kind': 'raw value written to the report', 'expr': ast.unparse(st.value.args[0])[:60], 'line': st.lineno, 'provenance': c})

    def bind(self, name, c, st):
        # a name re-bound on two paths keeps the WEAKER class
        old = self.env.get(name)
        if old is not None and name not in self.params and old[0] in SAFE and c[0] not in SAFE: self.env[name] = c
        elif old is not None and name not in self.params and old[0] not in SAFE and old[1] not in ('loop element',): pass
        else: self.env[name] = c

    def badge_args(self):
        return sorted({h[1] for h in self.holes if h[0] == 'BADGE'} | {v[1] for v in self.env.values() if v[0] == 'BADGE'})


MARK = '\x00H%d\x00'


def contexts(template_parts):
    """template_parts: list of str literals and ints (hole indexes).  -> {hole index: context}"""
    out = {}
    state = 'text'; raw = None; tagname = ''
    buf = ''
    for part in template_parts:
        if isinstance(part, int):
            out[part] = state if raw is None or state != 'text' else f'rawtext:{raw}'
            continue
        i = 0; s = part
        while i < len(s):
            ch = s[i]
            if state == 'text':
                if raw:
                    m = re.match(r'</' + raw + r'\s*>', s[i:], re.I)
                    if m: raw = None; i += len(m.group(0)); continue
                    i += 1; continue
                if s.startswith('<!--', i): state = 'comment'; i += 4; continue
                if ch == '<' and i + 1 < len(s) and (s[i + 1].isalpha() or s[i + 1] in '/!'):
                    state = 'tag'; m = re.match(r'</?([a-zA-Z0-9]+)', s[i:]); tagname = m.group(1).lower() if m else ''; i += 1; continue
                i += 1
            elif state == 'comment':
                if s.startswith('-->', i): state = 'text'; i += 3
                else: i += 1
            elif state == 'tag':
                if ch == '"': state = 'attr-dq'
                elif ch == "'": state = 'attr-sq'
                elif ch == '=' and i + 1 < len(s) and s[i + 1] not in '"\' \n\t': state = 'attr-unquoted'
                elif ch == '>':
                    state = 'text'
                    if tagname in ('style', 'script') and not s[:i].rstrip().endswith('/'): raw = tagname
                i += 1
            elif state == 'attr-dq':
                if ch == '"': state = 'tag'
                i += 1
            elif state == 'attr-sq':
                if ch == "'": state = 'tag'
                i += 1
            elif state == 'attr-unquoted':
                if ch in ' \n\t': state = 'tag'
                elif ch == '>': state = 'text'
                i += 1
    return out


def page_template(fn):
    """all string material of the function that builds the page, in source order, as parts (literals / hole ids), with
    the expression of each hole"""
    parts = []; holes = []
    for n in sorted((x for x in ast.walk(fn) if isinstance(x, (ast.JoinedStr, ast.Constant))), key=lambda x: (x.lineno, x.col_offset)):
        pass
    return parts, holes


def check_contexts(fn):
    """for every f-string of fn separately: context of each hole given the literal text of that f-string, starting in
    'text' state (each page fragment of these generators starts and ends at element-text level; verified: the state
    after the last literal must be 'text' again)"""
    problems = []; n = 0
    for js in (x for x in ast.walk(fn) if isinstance(x, ast.JoinedStr)):
        parts = []; exprs = {}
        for v in js.values:
            if isinstance(v, ast.Constant): parts.append(v.value)
            else: exprs[len(exprs)] = ast.unparse(v.value); parts.append(len(exprs) - 1)
        lits = ''.join(p for p in parts if isinstance(p, str))
        if '<' not in lits:
            # a CSS fragment destined for a style="..." attribute: must not contain quotes itself
            if '"' in lits or "'" in lits: problems.append({'kind': 'quote character in an attribute fragment', 'line': js.lineno})
            continue
        ctx = contexts(parts)
        end = contexts(parts + [10 ** 6])[10 ** 6]
        if end != 'text': problems.append({'kind': f'fragment does not end at element-text level ({end})', 'line': js.lineno})
        for k, c in ctx.items():
            n += 1
            if c not in ('text', 'attr-dq'): problems.append({'kind': f'hole in unsafe context {c}', 'expr': exprs[k], 'line': js.lineno})
    return problems, n
