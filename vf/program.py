"""Loads the real source of cm_colors from the working tree (or in-memory mutants of it) and indexes it.

Nothing here is a model of the code: every engine works on the `ast` of the files found under
<root>/cm_colors at the time of the run.  `overrides` lets the canary self-test verify *in-memory*
mutants of the real source (never written to /repo).
"""
from __future__ import annotations
import ast, os, hashlib, subprocess

REPO = os.environ.get('VERIF_REPO', '/repo')
SRC_ROOT = os.path.join(REPO, 'src')
PKG = 'cm_colors'


class ModuleInfo:
    def __init__(self, name, path, src):
        self.name, self.path, self.src = name, path, src
        self.tree = ast.parse(src, filename=path)
        self.funcs = {}      # local qual ('f' or 'C.m') -> FunctionDef
        self.classes = {}    # name -> ClassDef
        self.imports = {}    # local name -> ('mod', modname) | ('sym', modname, symbol)
        self.consts = {}     # module-level simple assignments name -> ast expr
        self._index()

    def _resolve_from(self, node):
        if node.level == 0:
            return node.module
        parts = self.name.split('.')
        base = parts[:len(parts) - node.level]
        if node.module:
            base += node.module.split('.')
        return '.'.join(base)

    def _scan_imports(self, body, table):
        for n in body:
            if isinstance(n, ast.Import):
                for a in n.names:
                    table[a.asname or a.name.split('.')[0]] = ('mod', a.name if a.asname else a.name.split('.')[0])
            elif isinstance(n, ast.ImportFrom):
                m = self._resolve_from(n)
                for a in n.names:
                    table[a.asname or a.name] = ('sym', m, a.name)

    def _index(self):
        self._scan_imports(self.tree.body, self.imports)
        for n in self.tree.body:
            if isinstance(n, ast.FunctionDef):
                self.funcs[n.name] = n
            elif isinstance(n, ast.ClassDef):
                self.classes[n.name] = n
                for m in n.body:
                    if isinstance(m, ast.FunctionDef):
                        self.funcs[f'{n.name}.{m.name}'] = m
            elif isinstance(n, ast.Assign) and len(n.targets) == 1 and isinstance(n.targets[0], ast.Name):
                self.consts[n.targets[0].id] = n.value
            elif isinstance(n, ast.AnnAssign) and isinstance(n.target, ast.Name) and n.value is not None:
                self.consts[n.target.id] = n.value


class Program:
    def __init__(self, src_root=None, overrides=None):
        self.src_root = src_root or SRC_ROOT
        self.overrides = overrides or {}
        self.modules = {}
        pk = os.path.join(self.src_root, PKG)
        for dp, dn, fn in os.walk(pk):
            dn[:] = [d for d in dn if d != '__pycache__']
            for f in sorted(fn):
                if not f.endswith('.py'):
                    continue
                path = os.path.join(dp, f)
                rel = os.path.relpath(path, self.src_root)[:-3]
                name = rel.replace(os.sep, '.')
                if name.endswith('.__init__'):
                    name = name[:-9]
                src = self.overrides.get(name)
                if src is None:
                    with open(path, encoding='utf-8') as fh:
                        src = fh.read()
                self.modules[name] = ModuleInfo(name, path, src)
        from .extract import install
        install(self)       # mechanically extracted statement blocks (vf/extract.py), rebuilt from the current AST

    def module(self, name):
        return self.modules[name]

    def func(self, qual):
        """'cm_colors.core.optimisation:_strategy_strict' -> (FunctionDef, ModuleInfo)"""
        mod, local = qual.split(':')
        m = self.modules[mod]
        if '.<locals>.' in local:
            outer, inner = local.split('.<locals>.', 1)
            if outer not in m.funcs: raise KeyError(f'function {qual} not found in working tree')
            for n in ast.walk(m.funcs[outer]):
                if isinstance(n, ast.FunctionDef) and n.name == inner and n is not m.funcs[outer]: return n, m
            raise KeyError(f'nested function {qual} not found in working tree')
        if local not in m.funcs:
            raise KeyError(f'function {qual} not found in working tree')
        return m.funcs[local], m

    TRANSPARENT_DECORATORS = {'property', 'staticmethod', 'classmethod'}

    def wrapped_by(self, qual):
        """decorators of a function that replace it by something else at import time (everything except property / staticmethod /
        classmethod): a contract proved on the body says nothing about what callers of the NAME reach"""
        try: fn, _ = self.func(qual.split('#')[0])
        except KeyError: return []
        out = []
        for d in getattr(fn, 'decorator_list', []):
            nm = ast.unparse(d.func if isinstance(d, ast.Call) else d)
            if nm.split('.')[-1] not in self.TRANSPARENT_DECORATORS and not nm.endswith('.setter'): out.append(nm)
        out += self.rebound().get(qual.split('#')[0], [])
        return out

    def rebound(self):
        """functions / methods whose NAME is bound to something else after the `def`: a module-level assignment to the same name, or an
        attribute store `<anything>.<name> = ...` / setattr(..., '<name>', ...) anywhere in the package (monkey-patching).  Conservative, by bare name."""
        if hasattr(self, '_rebound'): return self._rebound
        names = {}
        for mn, m in self.modules.items():
            for local in m.funcs:
                if mn + ':' + local in getattr(self, 'extracted', {}): continue
                names.setdefault(local.split('.')[-1], []).append(f'{mn}:{local}')
        out = {}
        def hit(name, why):
            for q in names.get(name, []): out.setdefault(q, []).append(why)
        for mn, m in self.modules.items():
            for n in m.tree.body:
                tgts = n.targets if isinstance(n, ast.Assign) else ([n.target] if isinstance(n, (ast.AugAssign, ast.AnnAssign)) else [])
                for t in tgts:
                    if isinstance(t, ast.Name) and f'{mn}:{t.id}' in [q for qs in names.values() for q in qs]:
                        out.setdefault(f'{mn}:{t.id}', []).append(f'module-level assignment to {t.id} at {mn}:{n.lineno}')
            for n in ast.walk(m.tree):
                if isinstance(n, ast.Attribute) and isinstance(n.ctx, ast.Store) and n.attr in names and not (isinstance(n.value, ast.Name) and n.value.id == 'self'):
                    hit(n.attr, f'attribute store .{n.attr} = ... at {mn}:{n.lineno}')
                elif isinstance(n, ast.Call) and ast.unparse(n.func) == 'setattr' and len(n.args) >= 2 and isinstance(n.args[1], ast.Constant) and n.args[1].value in names:
                    hit(n.args[1].value, f'setattr(..., {n.args[1].value!r}, ...) at {mn}:{n.lineno}')
        self._rebound = out
        return out

    def public_api_problems(self, expected=None):
        """the names a user imports from the package are the verified definitions themselves: cm_colors/__init__ binds ColorPair, Color and
        make_readable_bulk by plain `from ... import` of the modules under contract, binds each only once, and no class of the package
        inherits from ColorPair / Color (a subclass or wrapper exported under the same name would bypass every contract)"""
        expected = expected or {'ColorPair': ('cm_colors.core.colors', 'ColorPair'), 'Color': ('cm_colors.core.colors', 'Color'), 'make_readable_bulk': ('cm_colors.core.cm_colors', 'make_readable_bulk')}
        out = []
        m = self.modules.get(PKG)
        if m is None: return ['package __init__ not found']
        for name, (mod, sym) in expected.items():
            ref = m.imports.get(name)
            if ref != ('sym', mod, sym): out.append(f'{PKG}.{name} is bound to {ref}, not imported from {mod}')
            n_bind = sum(1 for n in ast.walk(m.tree) if (isinstance(n, ast.ImportFrom) and any((a.asname or a.name) == name for a in n.names)) or (isinstance(n, (ast.FunctionDef, ast.ClassDef)) and n.name == name)
                         or (isinstance(n, ast.Assign) and any(isinstance(t, ast.Name) and t.id == name for t in n.targets)))
            if n_bind != 1: out.append(f'{PKG}.{name} is bound {n_bind} times in __init__')
        for mn, mm in self.modules.items():
            for cn, cd in mm.classes.items():
                for b in cd.bases:
                    if ast.unparse(b).split('.')[-1] in ('ColorPair', 'Color'): out.append(f'class {mn}:{cn} inherits from {ast.unparse(b)}')
        return out

    def has_func(self, qual):
        mod, local = qual.split(':')
        return mod in self.modules and local in self.modules[mod].funcs

    def source_of(self, qual):
        fn, m = self.func(qual)
        return ast.get_source_segment(m.src, fn)

    def digest(self):
        h = hashlib.sha256()
        for k in sorted(self.modules):
            h.update(k.encode()); h.update(self.modules[k].src.encode())
        return h.hexdigest()[:16]

    MUTATORS = {'append', 'update', 'pop', 'setdefault', 'clear', 'extend', 'insert', 'remove', 'add', 'discard', 'sort', 'reverse', 'popitem', '__setitem__', '__delitem__'}

    def global_is_frozen(self, name):
        """no statement anywhere in the package can mutate or rebind the module-level container `name`
        (conservative, by bare name: subscript/attribute stores, augmented assignment, del, mutating method calls,
        `global` declarations, or passing it to setattr/exec-style reflection)"""
        if not hasattr(self, '_frozen'): self._frozen = {}
        if name in self._frozen: return self._frozen[name]
        ok = True
        for m in self.modules.values():
            for n in ast.walk(m.tree):
                if isinstance(n, ast.Global) and name in n.names: ok = False
                elif isinstance(n, (ast.Subscript, ast.Attribute)) and isinstance(n.ctx, (ast.Store, ast.Del)) and isinstance(n.value, ast.Name) and n.value.id == name: ok = False
                elif isinstance(n, ast.AugAssign) and isinstance(n.target, ast.Name) and n.target.id == name: ok = False
                elif isinstance(n, ast.Delete) and any(isinstance(t, ast.Name) and t.id == name for t in n.targets): ok = False
                elif isinstance(n, ast.Call) and isinstance(n.func, ast.Attribute) and isinstance(n.func.value, ast.Name) and n.func.value.id == name and n.func.attr in self.MUTATORS: ok = False
                elif isinstance(n, ast.FunctionDef):
                    # a function that assigns the bare name locally shadows it (fine); nothing to do
                    pass
            # module-level re-binding more than once
            cnt = sum(1 for n in m.tree.body if isinstance(n, (ast.Assign, ast.AnnAssign)) and any(isinstance(t, ast.Name) and t.id == name for t in (n.targets if isinstance(n, ast.Assign) else [n.target])))
            if cnt > 1: ok = False
        self._frozen[name] = ok
        return ok

    def mutate(self, modname, old, new, count=1):
        """In-memory mutant: textual replacement in one module's source; returns a new Program or None if
        the pattern does not occur exactly `count` times (pattern no longer matches the code)."""
        src = self.modules[modname].src
        if src.count(old) != count:
            return None
        ov = dict(self.overrides); ov[modname] = src.replace(old, new)
        try: ast.parse(ov[modname])
        except SyntaxError: return None          # on this tree the textual mutation does not yield a program: the canary does not apply
        return Program(self.src_root, ov)


def repo_state():
    try:
        head = subprocess.run(['git', '-C', REPO, 'rev-parse', 'HEAD'], capture_output=True, text=True).stdout.strip()
        dirty = bool(subprocess.run(['git', '-C', REPO, 'status', '--porcelain', '--', 'src'], capture_output=True, text=True).stdout.strip())
    except Exception:
        head, dirty = 'unknown', False
    return {'head': head, 'dirty': dirty}
