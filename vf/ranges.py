"""Engine R: range contracts.  A function gets `pre` (an interval per parameter) and `post` (an interval per result component);
the real AST is executed over intervals (reals; floats are treated as reals - stated assumption), callees are used BY CONTRACT
(argument intervals must lie within the callee's pre - an obligation - and the callee's post is assumed), and every partial
operation generates a safety obligation:

    x / d              0 not in range(d)                       (ZeroDivisionError)
    math.sqrt(x)       range(x) >= 0                           (ValueError: math domain error)
    pow(x, p), p not an integer:  range(x) >= 0                (a complex result / ValueError)
    math.exp(x)        range(x) <= 709                         (OverflowError)
    math.log(x)        range(x) > 0

plus `post`: the returned range lies within the contract's post (so results are finite, and non-negative where the post says so).
Interval arithmetic alone loses correlations; two sound refinements are used and named in the obligation's back end:
  * algebraic rule  X / (X + K)  with X >= 0, K > 0  is within [0, 1)   (same sub-expression on both sides, by AST equality);
  * z3 (nlsat) on the POLYNOMIAL ABSTRACTION of the expression: maximal non-polynomial sub-terms become variables bounded by their
    computed ranges, syntactically equal sub-terms share a variable; `radicand < 0` (resp. `denominator == 0`) must be unsat.
Branches are joined (path-insensitive) except for comparisons of a name with a constant, which refine the name's range.
Anything outside this fragment raises Unsupported (the check reports undecided, never a violation).
"""
from __future__ import annotations
import ast, math, time
from fractions import Fraction

INF = float('inf')


class Unsupported(Exception):
    pass


def _dn(x): return x if x in (INF, -INF) else math.nextafter(x, -INF) - abs(x) * 1e-13
def _up(x): return x if x in (INF, -INF) else math.nextafter(x, INF) + abs(x) * 1e-13


class Iv:
    __slots__ = ('lo', 'hi')
    def __init__(self, lo, hi=None):
        self.lo = float(lo); self.hi = float(lo if hi is None else hi)
        if not self.lo <= self.hi: raise Unsupported(f'empty interval [{lo}, {hi}]')
    def __repr__(self): return f'[{self.lo:.6g}, {self.hi:.6g}]'
    def within(self, o): return o.lo <= self.lo and self.hi <= o.hi
    def join(self, o): return Iv(min(self.lo, o.lo), max(self.hi, o.hi))
    def finite(self): return -INF < self.lo and self.hi < INF


def _flo(fr):
    """largest float <= the exact rational fr"""
    try: f = float(fr)
    except OverflowError: return -INF if fr < 0 else math.nextafter(INF, 0)
    return f if Fraction(f) <= fr else math.nextafter(f, -INF)
def _fhi(fr):
    """smallest float >= the exact rational fr"""
    try: f = float(fr)
    except OverflowError: return INF if fr > 0 else math.nextafter(-INF, 0)
    return f if Fraction(f) >= fr else math.nextafter(f, INF)
def _F(x): return Fraction(x)
def _fin(*xs): return all(x not in (INF, -INF) for x in xs)


def const(x): return Iv(x, x)
def add(a, b):
    lo = _flo(_F(a.lo) + _F(b.lo)) if _fin(a.lo, b.lo) else -INF
    hi = _fhi(_F(a.hi) + _F(b.hi)) if _fin(a.hi, b.hi) else INF
    return Iv(lo, hi)
def neg(a): return Iv(-a.hi, -a.lo)
def sub(a, b): return add(a, neg(b))
def mul(a, b):
    if not _fin(a.lo, a.hi, b.lo, b.hi):
        if (a.lo == a.hi == 0) or (b.lo == b.hi == 0): return Iv(0.0, 0.0)
        return Iv(-INF, INF)
    ps = [_F(x) * _F(y) for x in (a.lo, a.hi) for y in (b.lo, b.hi)]
    return Iv(_flo(min(ps)), _fhi(max(ps)))
def square(a):
    if not _fin(a.lo, a.hi): return Iv(0.0, INF)
    m, M = (0.0 if a.lo <= 0 <= a.hi else min(abs(a.lo), abs(a.hi))), max(abs(a.lo), abs(a.hi))
    return Iv(_flo(_F(m) * _F(m)), _fhi(_F(M) * _F(M)))
def div(a, b):
    if b.lo <= 0 <= b.hi: raise ZeroDivisionError
    if not _fin(a.lo, a.hi, b.lo, b.hi): return Iv(-INF, INF)
    qs = [_F(x) / _F(y) for x in (a.lo, a.hi) for y in (b.lo, b.hi)]
    return Iv(_flo(min(qs)), _fhi(max(qs)))
def ipow(a, n):
    if n == 0: return const(1)
    if not _fin(a.lo, a.hi): return Iv(0.0 if n % 2 == 0 else -INF, INF)
    if n % 2 == 0:
        m, M = (0.0 if a.lo <= 0 <= a.hi else min(abs(a.lo), abs(a.hi))), max(abs(a.lo), abs(a.hi))
        return Iv(_flo(_F(m) ** n), _fhi(_F(M) ** n))
    return Iv(_flo(_F(a.lo) ** n), _fhi(_F(a.hi) ** n))          # odd powers are monotone
def sqrt_iv(a):
    def lo(x):
        r = math.sqrt(x); return r if _F(r) ** 2 <= _F(x) else math.nextafter(r, 0.0)
    def hi(x):
        r = math.sqrt(x); return r if _F(r) ** 2 >= _F(x) else math.nextafter(r, INF)
    return Iv(lo(max(a.lo, 0.0)), hi(max(a.hi, 0.0)) if a.hi < INF else INF)


class Obl:
    def __init__(self, name, ok, backend, detail, secs=0.0):
        self.name, self.ok, self.backend, self.detail, self.secs = name, ok, backend, detail, secs


class RangeContract:
    def __init__(self, qual, pre, post, props=None, note=''):
        self.qual, self.pre, self.post, self.props, self.note = qual, pre, post, props or [], note      # pre: {param: Iv | [Iv,...]}, post: Iv | [Iv,...]


class RangeExec:
    def __init__(self, prog, contracts, qual):
        self.prog, self.contracts, self.qual = prog, contracts, qual
        self.short = qual.split(':')[1]
        self.obls = []
        self.fn, self.mod = prog.func(qual)
        cnt = {}
        for x in ast.walk(self.fn):
            if isinstance(x, ast.Assign):
                for t in x.targets:
                    for y in ast.walk(t):
                        if isinstance(y, ast.Name): cnt[y.id] = cnt.get(y.id, 0) + 1
        self.multi = {k for k, v in cnt.items() if v > 1} | set()

    # ------------------------------------------------------------------ obligations
    def oblige(self, kind, node, ok, backend, detail, secs=0.0):
        self.obls.append(Obl(f'{self.short}/{kind}@L{getattr(node, "lineno", "?")}[{ast.unparse(node)[:60]}]', ok, backend, detail, secs))

    def nonneg(self, node, arg_node, iv, env, what):
        if iv.lo >= 0: self.oblige(what, node, True, 'interval', f'{iv}'); return
        t0 = time.time()
        ok, det = self.z3_sign(arg_node, env, 'nonneg')
        self.oblige(what, node, ok, 'interval + z3 nlsat on the polynomial abstraction', f'interval {iv}; {det}', time.time() - t0)

    # ------------------------------------------------------------------ z3 fallback on the polynomial abstraction
    def z3_sign(self, node, env, want):
        import z3
        vars_ = {}
        cons = []
        def var_for(n):
            key = ast.dump(n)
            if key not in vars_:
                iv = self.ev(n, env, quiet=True)
                if not isinstance(iv, Iv): raise Unsupported('tuple in arithmetic')
                v = z3.Real(f'v{len(vars_)}'); vars_[key] = v
                if iv.lo > -INF: cons.append(v >= z3.RealVal(Fraction(iv.lo)))
                if iv.hi < INF: cons.append(v <= z3.RealVal(Fraction(iv.hi)))
            return vars_[key]
        def term(n):
            if isinstance(n, ast.Constant) and isinstance(n.value, (int, float)): return z3.RealVal(Fraction(n.value))
            if isinstance(n, ast.BinOp) and isinstance(n.op, (ast.Add, ast.Sub, ast.Mult)):
                a, b = term(n.left), term(n.right)
                return a + b if isinstance(n.op, ast.Add) else (a - b if isinstance(n.op, ast.Sub) else a * b)
            if isinstance(n, ast.UnaryOp) and isinstance(n.op, ast.USub): return -term(n.operand)
            if isinstance(n, ast.Call) and isinstance(n.func, ast.Name) and n.func.id == 'pow' and len(n.args) == 2 and isinstance(n.args[1], ast.Constant) and isinstance(n.args[1].value, int) and 0 <= n.args[1].value <= 4:
                b = term(n.args[0]); r = z3.RealVal(1)
                for _ in range(n.args[1].value): r = r * b
                return r
            if isinstance(n, ast.Name) and n.id in env and isinstance(env[n.id], tuple) and env[n.id][0] == 'def':
                return term(env[n.id][1])          # a local defined by one polynomial expression: expand once
            return var_for(n)
        try: t = term(node)
        except Unsupported as e: return None, str(e)
        so = z3.Solver(); so.set('timeout', 20000)
        so.add(*cons); so.add(t < 0 if want == 'nonneg' else t == 0)
        r = so.check()
        if r == z3.unsat: return True, f'unsat over {len(vars_)} abstracted sub-terms'
        if r == z3.sat: return False, f'abstraction admits {so.model()}'
        return None, f'z3: {so.reason_unknown()}'

    # ------------------------------------------------------------------ expressions
    def ev(self, n, env, quiet=False):
        cv = _constval(n)
        if cv is not None and not isinstance(n, ast.Constant): return const(cv)      # constant sub-expression: exactly the float Python computes
        if isinstance(n, ast.Constant):
            if isinstance(n.value, bool) or not isinstance(n.value, (int, float)): raise Unsupported(f'constant {n.value!r}')
            return const(n.value)
        if isinstance(n, ast.Name):
            if n.id not in env: raise Unsupported(f'name {n.id}')
            v = env[n.id]
            if isinstance(v, tuple) and v[0] == 'def': return v[2]
            return v
        if isinstance(n, ast.Attribute) and ast.unparse(n) == 'math.pi': return Iv(_dn(math.pi), _up(math.pi))
        if isinstance(n, ast.Tuple): return [self.ev(x, env, quiet) for x in n.elts]
        if isinstance(n, ast.UnaryOp) and isinstance(n.op, ast.USub): return neg(self.ev(n.operand, env, quiet))
        if isinstance(n, ast.UnaryOp) and isinstance(n.op, ast.UAdd): return self.ev(n.operand, env, quiet)
        if isinstance(n, ast.BinOp):
            if isinstance(n.op, ast.Mult) and ast.dump(n.left) == ast.dump(n.right): return square(self.ev(n.left, env, quiet))
            a, b = self.ev(n.left, env, quiet), self.ev(n.right, env, quiet)
            if not (isinstance(a, Iv) and isinstance(b, Iv)): raise Unsupported('arithmetic on a tuple')
            if isinstance(n.op, ast.Add): return add(a, b)
            if isinstance(n.op, ast.Sub): return sub(a, b)
            if isinstance(n.op, ast.Mult): return mul(a, b)
            if isinstance(n.op, ast.Div):
                if b.lo <= 0 <= b.hi:
                    if not quiet:
                        t0 = time.time(); ok, det = self.z3_sign(n.right, env, 'nonzero')
                        self.oblige('denominator_nonzero', n, ok, 'interval + z3 nlsat on the polynomial abstraction', f'interval {b}; {det}', time.time() - t0)
                    return Iv(-INF, INF)
                if not quiet: self.oblige('denominator_nonzero', n, True, 'interval', f'{b}')
                # X / (X + K), X >= 0, K > 0  ->  [0, 1)
                if isinstance(n.right, ast.BinOp) and isinstance(n.right.op, ast.Add) and a.lo >= 0:
                    for same, other in ((n.right.left, n.right.right), (n.right.right, n.right.left)):
                        if ast.dump(same) == ast.dump(n.left) and self.ev(other, env, True).lo > 0: return Iv(0.0, 1.0)
                return div(a, b)
            raise Unsupported(f'operator {type(n.op).__name__}')
        if isinstance(n, ast.IfExp):
            return self.join_vals(self.ev(n.body, env, quiet), self.ev(n.orelse, env, quiet))
        if isinstance(n, ast.ListComp) and len(n.generators) == 1 and not n.generators[0].ifs and isinstance(n.generators[0].target, ast.Name):
            it = self.ev(n.generators[0].iter, env, quiet)
            if not isinstance(it, list): raise Unsupported('comprehension over a non-tuple')
            return [self.ev(n.elt, dict(env, **{n.generators[0].target.id: x}), quiet) for x in it]
        if isinstance(n, ast.Call): return self.call(n, env, quiet)
        raise Unsupported(f'expression {type(n).__name__} at line {getattr(n, "lineno", "?")}')

    def join_vals(self, a, b):
        if isinstance(a, list) and isinstance(b, list) and len(a) == len(b): return [self.join_vals(x, y) for x, y in zip(a, b)]
        if isinstance(a, Iv) and isinstance(b, Iv): return a.join(b)
        raise Unsupported('join of different shapes')

    def call(self, n, env, quiet):
        f = ast.unparse(n.func)
        args = [self.ev(a, env, quiet) for a in n.args]
        if n.keywords: raise Unsupported('keyword arguments')
        if f == 'pow' and len(args) == 2:
            b, e = args
            if e.lo != e.hi: raise Unsupported('non-constant exponent')
            p = e.lo
            if p == int(p) and p >= 0: return ipow(b, int(p))
            if not quiet: self.nonneg(n, n.args[0], b, env, 'fractional_power_base_nonneg')
            lo = max(b.lo, 0.0)
            if p > 0: return Iv(max(0.0, _dn(lo ** p)), _up(max(b.hi, 0.0) ** p))
            raise Unsupported('negative fractional exponent')
        if f == 'math.sqrt':
            if not quiet: self.nonneg(n, n.args[0], args[0], env, 'sqrt_radicand_nonneg')
            return sqrt_iv(args[0])
        if f == 'math.exp':
            if not quiet: self.oblige('exp_no_overflow', n, args[0].hi <= 709, 'interval', f'{args[0]}')
            return Iv(0.0, _up(math.exp(min(args[0].hi, 709))))
        if f in ('math.sin', 'math.cos'): return Iv(-1.0, 1.0)
        if f == 'math.radians': return mul(args[0], Iv(_dn(math.pi / 180), _up(math.pi / 180)))
        if f == 'math.degrees': return mul(args[0], Iv(_dn(180 / math.pi), _up(180 / math.pi)))
        if f == 'math.atan2': return Iv(_dn(-math.pi), _up(math.pi))
        if f == 'round' and len(args) == 1:
            return Iv(math.floor(args[0].lo - 0.5) if args[0].lo > -INF else -INF, math.ceil(args[0].hi + 0.5) if args[0].hi < INF else INF)      # an integer within half a unit (ties to even)
        if f == 'abs': return Iv(0.0 if args[0].lo <= 0 <= args[0].hi else min(abs(args[0].lo), abs(args[0].hi)), max(abs(args[0].lo), abs(args[0].hi)))
        if f in ('max', 'min') and len(args) >= 2 and all(isinstance(a, Iv) for a in args):
            g = max if f == 'max' else min
            return Iv(g(a.lo for a in args), g(a.hi for a in args))
        # a closure defined in this function: inline
        if isinstance(n.func, ast.Name) and n.func.id in env and isinstance(env[n.func.id], tuple) and env[n.func.id][0] == 'closure':
            fd = env[n.func.id][1]
            sub_env = dict(env); sub_env.update({a.arg: v for a, v in zip(fd.args.args, args)})
            r = self.block(fd.body, sub_env, quiet)
            if r is None: raise Unsupported('closure without return')
            return r
        # a function of the package: by contract
        q = self.resolve(n.func)
        c = self.contracts.get(q) if q else None
        if c is None and q is not None and not self.prog.wrapped_by(q) and getattr(self, 'depth', 0) < 6:
            # a helper of the package without a range contract: its real body is evaluated in place over the argument ranges
            fd, md = self.prog.func(q)
            if len(fd.args.args) == len(args) and not fd.args.defaults:
                sub = RangeExec(self.prog, self.contracts, q); sub.obls = self.obls; sub.depth = getattr(self, 'depth', 0) + 1
                r = sub.block(fd.body, {a.arg: v for a, v in zip(fd.args.args, args)}, quiet)
                if r is None: raise Unsupported(f'{f} returns nothing')
                return r
        if c is None: raise Unsupported(f'call of {f} (no range contract)')
        fn, _ = self.prog.func(q)
        names = [a.arg for a in fn.args.args]
        if len(args) != len(names): raise Unsupported(f'arity of {f}')
        ok = all(self.within(a, c.pre[nm]) for a, nm in zip(args, names))
        if not quiet: self.oblige(f'call[{q.split(":")[1]}]/pre', n, ok, 'interval', f'arguments {args} within {[c.pre[nm] for nm in names]}')
        return c.post

    def within(self, a, b):
        if isinstance(a, list) and isinstance(b, list) and len(a) == len(b): return all(self.within(x, y) for x, y in zip(a, b))
        return isinstance(a, Iv) and isinstance(b, Iv) and a.within(b)

    def resolve(self, f):
        if isinstance(f, ast.Name):
            if f.id in self.mod.funcs: return f'{self.mod.name}:{f.id}'
            ref = self.mod.imports.get(f.id)
            if ref and ref[0] == 'sym' and ref[1] in self.prog.modules and ref[2] in self.prog.modules[ref[1]].funcs: return f'{ref[1]}:{ref[2]}'
        return None

    # ------------------------------------------------------------------ statements; returns the joined return value (or None)
    def block(self, stmts, env, quiet=False):
        ret = None
        for i, st in enumerate(stmts):
            if isinstance(st, ast.Expr) and isinstance(st.value, ast.Constant): continue
            if isinstance(st, ast.Pass): continue
            if isinstance(st, ast.FunctionDef): env[st.name] = ('closure', st); continue
            if isinstance(st, ast.Return):
                v = self.ev(st.value, env, quiet)
                return v if ret is None else self.join_vals(ret, v)
            if isinstance(st, ast.Assign) and len(st.targets) > 1 and all(isinstance(t, ast.Name) for t in st.targets):
                v = self.ev(st.value, env, quiet)
                for t in st.targets: env[t.id] = v
                continue
            if isinstance(st, ast.Assign) and len(st.targets) == 1:
                t = st.targets[0]
                v = self.ev(st.value, env, quiet)
                if isinstance(t, ast.Name):
                    # remember polynomial definitions over single-assignment names for the z3 abstraction (expanded once)
                    names = {x.id for x in ast.walk(st.value) if isinstance(x, ast.Name)}
                    single = t.id not in self.multi and not (names & self.multi)
                    env[t.id] = ('def', st.value, v) if isinstance(v, Iv) and _polynomial(st.value) and single else v
                elif isinstance(t, ast.Tuple) and isinstance(v, list) and len(v) == len(t.elts) and all(isinstance(x, ast.Name) for x in t.elts):
                    for x, y in zip(t.elts, v): env[x.id] = y
                else: raise Unsupported(f'assignment at line {st.lineno}')
                continue
            if isinstance(st, ast.If):
                e1, e2 = dict(env), dict(env)
                feas1, feas2 = self.refine(st.test, e1, True), self.refine(st.test, e2, False)
                rest = stmts[i + 1:]
                outs = []
                for feas, e, body in ((feas1, e1, st.body), (feas2, e2, st.orelse)):
                    if not feas: continue
                    outs.append(self.block(list(body) + list(rest), e, quiet))
                outs = [o for o in outs if o is not None]
                if not outs: return ret
                r = outs[0]
                for o in outs[1:]: r = self.join_vals(r, o)
                return r if ret is None else self.join_vals(ret, r)
            raise Unsupported(f'statement {type(st).__name__} at line {st.lineno}')
        return ret

    def refine(self, test, env, truth):
        """narrow env for the branch; False when the branch is unreachable by ranges.  `name <op> constant`, `constant <op> name`,
        `not T`, and the conjunctive side of and/or refine; everything else leaves the ranges as they are (sound)."""
        if isinstance(test, ast.UnaryOp) and isinstance(test.op, ast.Not): return self.refine(test.operand, env, not truth)
        if isinstance(test, ast.BoolOp) and ((isinstance(test.op, ast.And) and truth) or (isinstance(test.op, ast.Or) and not truth)):
            return all(self.refine(v, env, truth) for v in test.values)          # every conjunct holds on this branch
        if isinstance(test, ast.Compare) and len(test.ops) == 1 and isinstance(test.comparators[0], ast.Name) and _constval(test.left) is not None:
            flip = {ast.Gt: ast.Lt, ast.GtE: ast.LtE, ast.Lt: ast.Gt, ast.LtE: ast.GtE, ast.Eq: ast.Eq, ast.NotEq: ast.NotEq}.get(type(test.ops[0]))
            if flip is not None:
                return self.refine(ast.Compare(left=test.comparators[0], ops=[flip()], comparators=[ast.Constant(value=_constval(test.left))]), env, truth)
        if isinstance(test, ast.Compare) and len(test.ops) == 1 and isinstance(test.left, ast.Name) and isinstance(test.comparators[0], ast.Constant) and isinstance(test.comparators[0].value, (int, float)) and test.left.id in env:
            v = env[test.left.id]
            if isinstance(v, tuple) and v[0] == 'def': v = v[2]
            if not isinstance(v, Iv): return True
            c = float(test.comparators[0].value); op = type(test.ops[0])
            if not truth: op = {ast.Gt: ast.LtE, ast.GtE: ast.Lt, ast.Lt: ast.GtE, ast.LtE: ast.Gt, ast.Eq: ast.NotEq, ast.NotEq: ast.Eq}.get(op, op)
            lo, hi = v.lo, v.hi
            if op in (ast.Gt, ast.GtE): lo = max(lo, c)
            elif op in (ast.Lt, ast.LtE): hi = min(hi, c)
            elif op is ast.Eq: lo, hi = max(lo, c), min(hi, c)
            if lo > hi: return False
            env[test.left.id] = Iv(lo, hi)
        return True


def _constval(n):
    """value of an expression built from numeric literals with + - * / only (None otherwise)"""
    if isinstance(n, ast.Constant): return n.value if isinstance(n.value, (int, float)) and not isinstance(n.value, bool) else None
    if isinstance(n, ast.UnaryOp) and isinstance(n.op, ast.USub):
        v = _constval(n.operand); return None if v is None else -v
    if isinstance(n, ast.BinOp) and isinstance(n.op, (ast.Add, ast.Sub, ast.Mult, ast.Div)):
        a, b = _constval(n.left), _constval(n.right)
        if a is None or b is None: return None
        try: return a + b if isinstance(n.op, ast.Add) else a - b if isinstance(n.op, ast.Sub) else a * b if isinstance(n.op, ast.Mult) else a / b
        except ZeroDivisionError: return None
    return None


def _polynomial(n):
    for x in ast.walk(n):
        if isinstance(x, ast.Call) or isinstance(x, (ast.IfExp, ast.ListComp, ast.Tuple)): return False
        if isinstance(x, ast.BinOp) and not isinstance(x.op, (ast.Add, ast.Sub, ast.Mult)): return False
    return True


def verify_range(prog, contracts, qual):
    """-> (obligations, error)"""
    c = contracts[qual]
    try:
        ex = RangeExec(prog, contracts, qual)
    except KeyError as e:
        return [], f'contract no longer attaches: {e}'
    wr = prog.wrapped_by(qual)
    if wr: return [], f'function is wrapped by decorator(s) {wr}: a range contract proved on the body does not transfer to the name'
    names = [a.arg for a in ex.fn.args.args]
    if set(names) != set(c.pre): return [], f'contract no longer attaches: parameters {names} vs {sorted(c.pre)}'
    env = {n: c.pre[n] for n in names}
    try:
        r = ex.block(ex.fn.body, env)
        if r is None: raise Unsupported('no return value')
        ok = ex.within(r, c.post)
        ex.obls.append(Obl(f'{ex.short}/post[result within {c.post}]', ok, 'interval', f'computed {r}'))
    except Unsupported as e:
        return _dedupe(ex.obls), f'unsupported construct: {e}'
    except ZeroDivisionError:
        return _dedupe(ex.obls), 'internal: interval division by an interval containing 0'
    return _dedupe(ex.obls), None


def _dedupe(obls):
    """the continuation of an `if` is evaluated once per branch: keep one obligation per name, the worst verdict wins"""
    out = {}
    rank = {False: 0, None: 1, True: 2}
    for o in obls:
        if o.name not in out or rank[o.ok] < rank[out[o.name].ok]: out[o.name] = o
    return list(out.values())
