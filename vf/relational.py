"""Relational (2-run product) verification for engine A: the SAME real function AST is executed twice in lock-step
on one accumulating path condition - a `hi` run and a `lo` run that share every argument except the ones listed as
differing - and a relational postcondition Post(args_hi, args_lo, ret_hi, ret_lo) is proved for all inputs.

* top-level statements are executed for hi, then for lo, on the same path (each run has its own environment; the heap
  and the path condition are threaded through both);
* a top-level `for` named in the relational spec is cut by a RELATIONAL invariant Rel(state_hi, state_lo, k): entry and
  preservation obligations, havoc of both states; the unary invariants of the function's own contract are assumed on
  both sides (they are proved by the unary check of the same function, engine A);
* exits inside the loop body, per pair of body outcomes in the same iteration:
    (ret, ret) / (brk, brk)  both runs leave together: exploration continues after the loop / at the postcondition;
    (continue, ret_lo)       the lo run is finished first: obligation `lo_only(ret_lo)` - what must hold of a lo result
                             on its own so that the postcondition holds whatever hi does later;
    (continue, brk_lo)       obligation `lo_exit_ok(state_lo)`; the hi run finishes the loop alone (havoc + unary invariant);
    (ret_hi | brk_hi, continue)   obligation: infeasible ("the hi run never gets ahead of the lo run");
* callees are used by CONTRACT: their unary contract as usual, plus - for callees that have a relational contract
  (`callee_rel`) - the relational postcondition instantiated for every (hi call, lo call) pair of that callee on the
  path.  The instantiation is sound because the callee is a deterministic function of its arguments (engine C, C15) and
  the relational contract is itself proved by this driver on the callee's real body.
"""
from __future__ import annotations
import ast, time
import z3
from .values import *
from . import symex as sx
from .spec import Sym
from .contracts import discharge, FunctionReport


class RelSpec:
    """qual: function.  shared: {param: shape | callable(S,p,ex)}; differing: {param: shape} (created twice).
    pre(S, a_hi, a_lo) -> Bool.  post: {label: fn(S, a_hi, a_lo, ret_hi, ret_lo) -> Bool}.
    lo_only(S, a_lo, ret_lo) -> Bool | None.
    loops: {header: {'rel': fn(S, st_hi, st_lo, a_hi, a_lo, k) -> {label: Bool}, 'lo_exit_ok': fn(S, st_lo, a_lo) -> Bool}}
    callee_rel: {callee short name: fn(S, ns_hi, ns_lo, r_hi, r_lo) -> Bool | None}"""
    def __init__(self, qual, shared, differing, pre, post, lo_only=None, loops=None, callee_rel=None, props=None, note=''):
        self.qual, self.shared, self.differing, self.pre, self.post, self.lo_only = qual, shared, differing, pre, post, lo_only
        self.loops = loops or {}; self.callee_rel = callee_rel or {}; self.props = props or {}; self.note = note
        self.short = qual.split(':')[1] + '~rel'


class _St:
    __slots__ = ('pc', 'heap', 'eh', 'el', 'rh', 'rl', 'tr', 'calls_hi')
    def __init__(self, pc, heap, eh, el, rh=None, rl=None, tr=(), calls_hi=()):
        self.pc, self.heap, self.eh, self.el, self.rh, self.rl, self.tr, self.calls_hi = pc, heap, eh, el, rh, rl, tr, calls_hi


def _results(trace, start):
    return tuple(t for t in trace[start:] if isinstance(t, tuple) and len(t) == 4 and t[0] == 'result')


class _Driver:
    def __init__(self, prog, reg, rs):
        self.prog, self.reg, self.rs = prog, reg, rs
        self.S = Sym()
        self.ex = sx.Exec(prog, reg, self.S, {})
        self.ex.effects = []; self.ex.effect = lambda *a, **k: None
        self.ex.cur, self.ex.cur_short, self.ex.cur_contract = rs.qual, rs.short, None
        self.obls = []
        self.npaths = 0
        self.ninst = 0

    def oblige(self, name, pc, goal, **info):
        self.obls.append(sx.Obligation(f'{self.rs.short}/{name}', sx.PC.of(pc), goal, 'rel', info))

    # ------------------------------------------------------------------ one side, one statement / block
    def side(self, stmts, pc, heap, env, fr, trace):
        outs = []
        for kind, q, v in self.ex.block(stmts, sx.Path(pc, dict(env), dict(heap), trace), fr):
            if kind == 'exc': raise sx.Unsupported(f'exception {v.typ} escaping at line {getattr(v, "where", "?")} in a relational run')
            outs.append((kind, q, v))
        return outs

    def rel_facts(self, calls_hi, new_lo):
        facts = []
        for _, short, ns_lo, r_lo in new_lo:
            f = self.rs.callee_rel.get(short)
            if f is None: continue
            for _, sh, ns_hi, r_hi in calls_hi:
                if sh != short: continue
                try: g = f(self.S, ns_hi, ns_lo, r_hi, r_lo)
                except (AttributeError, TypeError, AssertionError, IndexError): g = None
                if g is not None: facts.append(g); self.ninst += 1
        return facts

    # ------------------------------------------------------------------ lock-step over top-level statements
    def run(self, stmts, states, fr_hi, fr_lo):
        for st in stmts:
            nxt = []
            for s in states:
                if s.rh is not None and s.rl is not None: nxt.append(s); continue
                if isinstance(st, ast.For) and self.loop_key(st, fr_hi) is not None and s.rh is None and s.rl is None:
                    nxt += self.product_loop(st, s, fr_hi, fr_lo)
                else:
                    nxt += self.lockstep(st, s, fr_hi, fr_lo)
            states = nxt
        return states

    def loop_key(self, st, fr):
        """the relational loop spec for this `for`: by header text, else by the position recorded in the spec"""
        h = ast.unparse(st.iter)
        if h in self.rs.loops: return h
        own = [id(n) for n in sx.own_for_loops(fr.fn)]
        pos = own.index(id(st)) if id(st) in own else None
        for k, v in self.rs.loops.items():
            if v.get('pos') is not None and v.get('pos') == pos: return k
        return None

    def lockstep(self, st, s, fr_hi, fr_lo):
        res = []
        if s.rh is not None or s.rl is not None: raise sx.Unsupported('one run finished, the other still running at top level')
        for kh, qh, vh in self.side([st], s.pc, s.heap, s.eh, fr_hi, s.tr):
            calls_hi = s.calls_hi + _results(qh.trace, len(s.tr))
            for kl, ql, vl in self.side([st], qh.pc, qh.heap, s.el, fr_lo, qh.trace):
                facts = self.rel_facts(calls_hi, _results(ql.trace, len(qh.trace)))
                pc = ql.pc + facts if facts else ql.pc
                if facts and not self.ex.feasible(pc): continue
                if kh in ('brk', 'cont') or kl in ('brk', 'cont'): raise sx.Unsupported('break/continue at top level')
                if kh == 'fall' and kl == 'fall':
                    res.append(_St(pc, ql.heap, qh.env, ql.env, None, None, ql.trace, calls_hi))
                elif kh == 'ret' and kl == 'ret':
                    res.append(_St(pc, ql.heap, qh.env, ql.env, vh if vh is not None else NONE, vl if vl is not None else NONE, ql.trace, calls_hi))
                elif kh == 'fall' and kl == 'ret':
                    if self.rs.lo_only is None: raise sx.Unsupported('the lo run returns before the hi run and no lo_only obligation is given')
                    self.npaths += 1
                    self.oblige(f'lo_returns_first@L{st.lineno}', pc, self.rs.lo_only(self.S, fr_lo.argns, vl if vl is not None else NONE), trace=ql.trace)
                else:
                    self.npaths += 1
                    self.oblige(f'hi_never_ahead@L{st.lineno}', pc, z3.BoolVal(False), trace=ql.trace)
        return res

    # ------------------------------------------------------------------ product of a for loop
    def product_loop(self, st, s, fr_hi, fr_lo):
        ex, S, rs = self.ex, self.S, self.rs
        hdr = ast.unparse(st.iter)
        spec = rs.loops[self.loop_key(st, fr_hi)]
        a_hi, a_lo = fr_hi.argns, fr_lo.argns
        unary = fr_hi.loop_spec(st, hdr)
        ph = sx.Path(s.pc, dict(s.eh), dict(s.heap), s.tr)
        its_h = ex.ev(st.iter, ph, fr_hi)
        if len(its_h) != 1 or isinstance(its_h[0][1], sx.Raised): raise sx.Unsupported('loop iterable splits paths')
        qh0, ith = its_h[0]
        its_l = ex.ev(st.iter, sx.Path(qh0.pc, dict(s.el), dict(qh0.heap), qh0.trace), fr_lo)
        if len(its_l) != 1 or isinstance(its_l[0][1], sx.Raised): raise sx.Unsupported('loop iterable splits paths')
        ql0, itl = its_l[0]
        base_pc, base_heap = ql0.pc, ql0.heap
        length = None
        if isinstance(ith, sx.VRange) and isinstance(itl, sx.VRange):
            same = ith.n.t == itl.n.t; length = ith.n.t
            mk = lambda k: (VInt(k), [k < ith.n.t])
        elif isinstance(ith, VSymSeq) and isinstance(itl, VSymSeq):
            same = z3.BoolVal(ith is itl or ith.ident.eq(itl.ident))
            def mk(k):
                e = fresh(R, 'tol'); return VReal(e), [e <= ith.maxof]
        else:
            ih, il = ex.items_of(ith, ql0), ex.items_of(itl, ql0)
            if ih is None or il is None or len(ih) != len(il) or not ih or not all(isinstance(x, (VReal, VInt)) for x in list(ih) + list(il)):
                raise sx.Unsupported('loop iterables of the two runs are not comparable')
            same = z3.And([num(x) == num(y) for x, y in zip(ih, il)]); length = z3.IntVal(len(ih))
            def mk(k):
                e = fresh(R, 'el'); return VReal(e), [z3.Or([e == num(x) for x in ih])]
        self.oblige(f'loop[{hdr}]/same_iterable', base_pc, same)
        nsp = sx.Path(base_pc, {}, base_heap)
        for lab, g in spec['rel'](S, sx.Namespace(s.eh, nsp), sx.Namespace(s.el, nsp), a_hi, a_lo, z3.IntVal(0)).items():
            self.oblige(f'loop[{hdr}]/rel_entry:{lab}', base_pc, g)
        assigned = sx._assigned_names(st)
        if sx._appended_names(st): raise sx.Unsupported('list mutation inside a product loop')
        shapes = unary.shapes if unary is not None else {}
        def havoc(env, q, tag):
            e = dict(env)
            for nme in assigned:
                if sx.ROLE_REV.get(nme, nme) in shapes: e[nme] = ex.fresh_value(q, shapes[sx.ROLE_REV.get(nme, nme)], f'{nme}_{tag}')
                elif nme in e and not isinstance(e[nme], (VFunc, VClass)):
                    sh = shape_of(e[nme]); e[nme] = ex.fresh_value(q, sh, f'{nme}_{tag}') if sh != 'unk' else VUnk(nme)
                else: e.pop(nme, None)
            return e
        def inv_facts(env, argns, q, k):
            if unary is None: return []
            return [g for _, g in sx._inv_parts(unary.inv(S, argns, sx.Namespace(env, q), k))]
        out = []
        # ---- an arbitrary iteration k, both runs at the loop head
        k = fresh(I, 'iter')
        q = sx.Path(base_pc, {}, dict(base_heap), s.tr)
        eh, el = havoc(s.eh, q, 'hi'), havoc(s.el, q, 'lo')
        elem, efacts = mk(k)
        rel = spec['rel'](S, sx.Namespace(eh, q), sx.Namespace(el, q), a_hi, a_lo, k)
        pc = q.pc + [k >= 0] + efacts + inv_facts(eh, a_hi, q, k) + inv_facts(el, a_lo, q, k) + list(rel.values())
        if ex.feasible(pc):
            p1 = sx.Path(pc, eh, dict(q.heap), s.tr)
            for q1, r in ex.bind(st.target, elem, p1, fr_hi):
                if isinstance(r, sx.Raised): raise sx.Unsupported('loop target binding raises')
                for kh, qh, vh in self.side(st.body, q1.pc, q1.heap, q1.env, fr_hi, q1.trace):
                    calls_hi = s.calls_hi + _results(qh.trace, len(s.tr))
                    p2 = sx.Path(qh.pc, dict(el), dict(qh.heap), qh.trace)
                    for q2, r2 in ex.bind(st.target, elem, p2, fr_lo):
                        for kl, ql, vl in self.side(st.body, q2.pc, q2.heap, q2.env, fr_lo, q2.trace):
                            facts = self.rel_facts(calls_hi, _results(ql.trace, len(qh.trace)))
                            pc2 = ql.pc + facts if facts else ql.pc
                            if facts and not ex.feasible(pc2): continue
                            self.npaths += 1
                            ch, cl = kh in ('fall', 'cont'), kl in ('fall', 'cont')
                            if ch and cl:
                                for lab, g in spec['rel'](S, sx.Namespace(qh.env, ql), sx.Namespace(ql.env, ql), a_hi, a_lo, k + 1).items():
                                    self.oblige(f'loop[{hdr}]/rel_preserved:{lab}', pc2, g, trace=ql.trace)
                            elif kh == 'ret' and kl == 'ret':
                                out.append(_St(pc2, ql.heap, qh.env, ql.env, vh if vh is not None else NONE, vl if vl is not None else NONE, ql.trace, calls_hi))
                            elif kh == 'brk' and kl == 'brk':
                                out.append(_St(pc2, ql.heap, qh.env, ql.env, None, None, ql.trace, calls_hi))
                            elif ch and kl == 'ret':
                                if rs.lo_only is None: raise sx.Unsupported('the lo run returns first and no lo_only obligation is given')
                                self.oblige(f'loop[{hdr}]/lo_returns_first@{_retline(ql.trace)}', pc2, rs.lo_only(S, a_lo, vl if vl is not None else NONE), trace=ql.trace)
                            elif ch and kl == 'brk':
                                g = spec.get('lo_exit_ok')
                                if g is None: raise sx.Unsupported('the lo run leaves the loop first and no lo_exit_ok is given')
                                self.oblige(f'loop[{hdr}]/lo_leaves_first', pc2, g(S, sx.Namespace(ql.env, ql), a_lo), trace=ql.trace)
                                out += self.hi_alone(st, qh, ql, pc2, a_hi, fr_hi, havoc, inv_facts, mk, length, calls_hi)
                            else:
                                self.oblige(f'loop[{hdr}]/hi_never_ahead[{kh},{kl}]', pc2, z3.BoolVal(False), trace=ql.trace)
        # ---- normal exit of both runs after n iterations
        n = fresh(I, 'n')
        q = sx.Path(base_pc, {}, dict(base_heap), s.tr)
        eh, el = havoc(s.eh, q, 'hi_exit'), havoc(s.el, q, 'lo_exit')
        rel = spec['rel'](S, sx.Namespace(eh, q), sx.Namespace(el, q), a_hi, a_lo, n)
        pc = q.pc + [n >= 0] + ([n == z3.If(length >= 0, length, 0)] if length is not None else []) + inv_facts(eh, a_hi, q, n) + inv_facts(el, a_lo, q, n) + list(rel.values())
        if st.orelse: raise sx.Unsupported('for-else in a product loop')
        if ex.feasible(pc): out.append(_St(pc, q.heap, eh, el, None, None, s.tr, s.calls_hi))
        return out

    def hi_alone(self, st, qh, ql, pc, a_hi, fr_hi, havoc, inv_facts, mk, length, calls_hi):
        """lo has left the loop (state ql.env, lo_exit_ok proved).  hi continues alone from the next loop head: it either
        exits normally after n iterations, or leaves from inside some later iteration j.  Both are explored symbolically
        from a havocked state that satisfies hi's unary invariant (what the unary proof establishes at every loop head)."""
        ex = self.ex
        out = []
        n = fresh(I, 'n')
        q = sx.Path(pc, {}, dict(ql.heap), ql.trace)
        eh = havoc(qh.env, q, 'hi_rest')
        pcn = q.pc + [n >= 0] + ([n == z3.If(length >= 0, length, 0)] if length is not None else []) + inv_facts(eh, a_hi, q, n)
        if ex.feasible(pcn): out.append(_St(pcn, q.heap, eh, ql.env, None, None, ql.trace, calls_hi))
        j = fresh(I, 'iter_hi')
        q = sx.Path(pc, {}, dict(ql.heap), ql.trace)
        eh = havoc(qh.env, q, 'hi_later')
        elem, efacts = mk(j)
        pcj = q.pc + [j >= 0] + efacts + inv_facts(eh, a_hi, q, j)
        if ex.feasible(pcj):
            p1 = sx.Path(pcj, eh, dict(q.heap), ql.trace)
            for q1, r in ex.bind(st.target, elem, p1, fr_hi):
                for kh, qh2, vh in self.side(st.body, q1.pc, q1.heap, q1.env, fr_hi, q1.trace):
                    if kh == 'brk': out.append(_St(qh2.pc, qh2.heap, qh2.env, ql.env, None, None, qh2.trace, calls_hi))
                    elif kh == 'ret': raise sx.Unsupported('hi returns from a loop the lo run left by break')
        return out


def _retline(trace):
    for t in reversed(trace):
        if isinstance(t, str) and t.startswith('ret'): return t
    return 'end'


def _default(fn, name):
    names = [a.arg for a in fn.args.args]
    d = dict(zip(names[len(names) - len(fn.args.defaults):], fn.args.defaults))
    return d.get(name)


def verify_relational(prog, reg, rs: RelSpec, timeout_ms=20000):
    rep = FunctionReport(rs.qual + '~rel')
    t0 = time.time()
    try:
        fn, mod = prog.func(rs.qual)
    except KeyError as e:
        rep.error = f'contract no longer attaches: {e}'; return rep
    wr = prog.wrapped_by(rs.qual)
    if wr:
        rep.error = f'function is wrapped by decorator(s) {wr}: a relational contract proved on the body does not transfer to the name'; return rep
    d = _Driver(prog, reg, rs)
    sx.set_role_aliases(fn, reg.get(rs.qual).loops if reg.get(rs.qual) is not None else [])
    S, ex = d.S, d.ex
    unary = reg.get(rs.qual)
    argnames = [a.arg for a in fn.args.args]
    missing = [n for n in list(rs.shared) + list(rs.differing) if n not in argnames]
    if missing:
        rep.error = f'contract no longer attaches: parameters {missing} not in signature {argnames}'; return rep
    try:
        p0 = sx.Path([], {})
        eh, el = {}, {}
        for n in argnames:
            if n in rs.shared:
                sh = rs.shared[n]
                eh[n] = el[n] = sh(S, p0, ex) if callable(sh) else ex.fresh_value(p0, sh, n)
            elif n in rs.differing:
                eh[n] = ex.fresh_value(p0, rs.differing[n], n + '_hi'); el[n] = ex.fresh_value(p0, rs.differing[n], n + '_lo')
            else:
                dflt = _default(fn, n)
                if dflt is None: rep.error = f'contract no longer attaches: parameter {n} has no shape and no default'; return rep
                eh[n] = el[n] = ex.lift_const(ast.literal_eval(dflt))
        a_hi, a_lo = sx.Namespace(dict(eh), p0), sx.Namespace(dict(el), p0)
        fr_hi, fr_lo = sx.Frame(rs.qual, fn, mod, unary), sx.Frame(rs.qual, fn, mod, unary)
        fr_hi.argns, fr_lo.argns = a_hi, a_lo
        pre = [rs.pre(S, a_hi, a_lo)]
        if unary is not None and unary.pre: pre += [unary.pre(S, a_hi), unary.pre(S, a_lo)]
        st0 = _St(sx.PC.of(pre), p0.heap, eh, el)
        if not ex.feasible(st0.pc):
            rep.vacuous = True; rep.error = 'relational precondition unsatisfiable (vacuous contract)'; return rep
        for s in d.run(fn.body, [st0], fr_hi, fr_lo):
            d.npaths += 1
            rh = s.rh if s.rh is not None else NONE
            rl = s.rl if s.rl is not None else NONE
            for lab, post in rs.post.items():
                try: g = post(S, a_hi, a_lo, rh, rl)
                except (AttributeError, TypeError, AssertionError, IndexError): g = z3.BoolVal(False)
                d.oblige(f'{lab}/{_retline(s.tr)}', s.pc, g, trace=s.tr, label=lab)
    except sx.Unsupported as e:
        rep.error = f'unsupported construct: {e}'; rep.wall = time.time() - t0
        return rep
    facts = list(S.facts)
    for o in d.obls: rep.results.append(discharge(o, facts, timeout_ms))
    rep.paths = d.npaths; rep.returns = d.npaths
    rep.assumptions = set(ex.assumptions)
    rep.rel_instances = d.ninst
    rep.wall = time.time() - t0
    rep.nfeas = ex.nfeas
    return rep
