"""Engine B ('ringconf'): "this numeric function computes exactly the published formula".

Both the REAL function AST and a spec function (written from the standard, in /verif/contracts/specs.py) are
executed symbolically over the reals to terms; a term is a polynomial with exact rational coefficients over
*atoms* (input variables and applications of uninterpreted functions to normalised arguments).  Two terms are
equal for every interpretation of the atoms iff their canonical polynomials coincide (the ring/field-tactic
argument; division is multiplication by an INV atom, denominators are side conditions).  Branch conditions are
matched with z3 in QF_LIRA with non-linear monomials abstracted (sound for pruning: an abstractly infeasible
pair is really infeasible; a pair wrongly kept must ALSO have equal normal forms, so the engine can only fail to
prove, never prove something false).  Float rounding is NOT modelled here (closed numerically by engine D).

Function identities built into the normaliser (each is a theorem about the real function):
  sin(-x) = -sin(x), sin(0) = 0, cos(-x) = cos(x), abs(-x) = abs(x), pow(x, n) = x^n for n in 0..3,
  INV(-p) = -INV(p), INV(c) = 1/c, INV(c*m) = (1/c)*INV(m), x*INV(x) = 1 for atoms declared non-zero (pi),
  atan2(y,x) = pi * AT2N(y,x) with AT2N in (-1, 1]."""
from __future__ import annotations
import ast
from fractions import Fraction as Fr
import z3


class Poly:
    __slots__ = ('m', '_k', '_h')
    def __init__(self, m=None):
        self.m = {k: v for k, v in (m or {}).items() if v != 0}; self._k = None; self._h = None
    @staticmethod
    def const(c): return Poly({(): Fr(c)})
    @staticmethod
    def atom(a): return Poly({((a, 1),): Fr(1)})
    def __add__(s, o):
        o = lift(o); r = dict(s.m)
        for k, v in o.m.items(): r[k] = r.get(k, 0) + v
        return Poly(r)
    __radd__ = __add__
    def __neg__(s): return Poly({k: -v for k, v in s.m.items()})
    def __sub__(s, o): return s + (-lift(o))
    def __rsub__(s, o): return lift(o) - s
    def __mul__(s, o):
        o = lift(o); r = {}
        for k1, v1 in s.m.items():
            for k2, v2 in o.m.items():
                k = mono_mul(k1, k2)
                r[k] = r.get(k, 0) + v1 * v2
        return Poly(r)
    __rmul__ = __mul__
    def is_const(s): return all(k == () for k in s.m)
    def cval(s): return s.m.get((), Fr(0))
    def key(s):
        if s._k is None: s._k = tuple(sorted(((tuple((a.key, e) for a, e in k), v) for k, v in s.m.items())))
        return s._k
    def __eq__(s, o): return isinstance(o, (Poly, int, Fr)) and s.key() == lift(o).key()
    def __hash__(s):
        if s._h is None: s._h = hash(s.key())
        return s._h
    def lead_sign(s):
        if not s.m: return 1
        k = min(s.m, key=lambda k: tuple((a.key, e) for a, e in k))
        return 1 if s.m[k] > 0 else -1
    def show(s, limit=6):
        if not s.m: return '0'
        parts = []
        for k, v in sorted(s.m.items(), key=lambda kv: tuple((a.key, e) for a, e in kv[0]))[:limit]:
            mono = '*'.join(f'{a.show()}^{e}' if e != 1 else a.show() for a, e in k)
            parts.append(f'{v}*{mono}' if mono else f'{v}')
        return ' + '.join(parts) + (' + ...' if len(s.m) > limit else '')
    def atoms(s):
        out = set()
        for k in s.m:
            for a, _ in k: out.add(a)
        return out


NONZERO = set()      # atom names that are non-zero constants (pi): x*INV(x) cancels


def mono_mul(k1, k2):
    d = {}
    for a, e in k1: d[a] = d.get(a, 0) + e
    for a, e in k2: d[a] = d.get(a, 0) + e
    # cancellation x * INV(x) for non-zero constant atoms
    for a in list(d):
        if a.f == 'INV' and len(a.args) == 1:
            inner = a.args[0]
            if len(inner.m) == 1:
                (mk, mv), = inner.m.items()
                if mv == 1 and len(mk) == 1 and mk[0][1] == 1 and mk[0][0].f in NONZERO and mk[0][0] in d:
                    x = mk[0][0]
                    c = min(d[a], d[x]); d[a] -= c; d[x] -= c
    return tuple(sorted(((a, e) for a, e in d.items() if e != 0), key=lambda t: t[0].key))


def lift(x):
    if isinstance(x, Poly): return x
    if isinstance(x, bool): raise TypeError('bool in arithmetic')
    return Poly.const(x)


_atoms = {}


class Atom:
    __slots__ = ('f', 'args', 'key')
    def __new__(cls, f, args=()):
        args = tuple(args)
        k = (f, tuple(a.key() for a in args))
        a = _atoms.get(k)
        if a is None:
            a = object.__new__(cls); a.f, a.args, a.key = f, args, k; _atoms[k] = a
        return a
    def show(s):
        return s.f if not s.args else f"{s.f}({', '.join(a.show(3) for a in s.args)})"
    def __repr__(s): return s.show()


def var(n): return Poly.atom(Atom(n))
def app(f, *args): return Poly.atom(Atom(f, [lift(a) for a in args]))


def inv(p):
    p = lift(p)
    if p.is_const():
        if p.cval() == 0: raise ZeroDivisionError('division by constant zero')
        return Poly.const(1 / p.cval())
    if len(p.m) == 1:
        (k, v), = p.m.items()
        r = Poly.const(1 / v)
        for a, e in k:
            base = a.args[0] if a.f == 'INV' else None
            for _ in range(e):
                r = r * (base if base is not None else Poly.atom(Atom('INV', [Poly.atom(a)])))
        return r
    if p.lead_sign() < 0: return -inv(-p)
    return app('INV', p)


def odd(f, p):
    p = lift(p)
    if not p.m: return Poly.const(0)
    if p.lead_sign() < 0: return -app(f, -p)
    return app(f, p)


def even(f, p):
    p = lift(p)
    return app(f, -p) if p.lead_sign() < 0 else app(f, p)


def ppow(p, n):
    p, n = lift(p), lift(n)
    if n.is_const() and n.cval().denominator == 1 and 0 <= n.cval() <= 3:
        r = Poly.const(1)
        for _ in range(int(n.cval())): r = r * p
        return r
    if p.is_const() and n.is_const() and n.cval().denominator == 1 and n.cval() >= 0:
        return Poly.const(p.cval() ** int(n.cval()))
    return app('POW', p, n)


PI = var('pi'); NONZERO.add('pi')


def msqrt(p):
    p = lift(p)
    if not p.m: return Poly.const(0)          # sqrt(0) = 0
    return app('SQRT', p)


# ------------------------------------------------------------------ conditions
class Cond:
    def __init__(s, op, a, b): s.op, s.a, s.b = op, lift(a), lift(b)
    def show(s): return f'({s.a.show(3)} {s.op} {s.b.show(3)})'
class CNot:
    def __init__(s, c): s.c = c
    def show(s): return 'not ' + show_cond(s.c)
class CAnd:
    def __init__(s, cs): s.cs = cs
    def show(s): return '(' + ' and '.join(show_cond(c) for c in s.cs) + ')'
class COr:
    def __init__(s, cs): s.cs = cs
    def show(s): return '(' + ' or '.join(show_cond(c) for c in s.cs) + ')'


def show_cond(c): return c.show() if hasattr(c, 'show') else repr(c)


class Z3Map:
    """polynomials -> z3 linear terms: input variables keep their sort/bounds, ABS/MAX-free, other monomials abstracted"""
    def __init__(s, vars_=None, facts=None, ranges=None):
        s.ranges = ranges or {}    # function name -> (lo, hi) for every application (from the callee's contract)
        s.vars = vars_ or {}       # atom name -> z3 const (Int or Real)
        s.mono = {}
        s.side = []                # facts about abstracted atoms (ranges of sin/cos/sqrt/AT2N ...)
        s.extra = facts or []
    def atom_term(s, a):
        if not a.args and a.f in s.vars:
            v = s.vars[a.f]; return z3.ToReal(v) if v.sort() == z3.IntSort() else v
        if a.f == 'ABS':
            t = s.poly(a.args[0]); return z3.If(t >= 0, t, -t)
        k = ('a', a.key)
        if k not in s.mono:
            x = z3.Real(f'a{len(s.mono)}'); s.mono[k] = x
            if a.f in s.ranges:
                lo, hi = s.ranges[a.f]
                if lo is not None: s.side.append(x >= lo)
                if hi is not None: s.side.append(x <= hi)
            if a.f in ('SIN', 'COS'): s.side.append(z3.And(x >= -1, x <= 1))
            if a.f == 'SQRT':
                s.side.append(x >= 0)
                inner = s.poly(a.args[0]); s.side.append((x == 0) == (inner == 0))
            if a.f == 'AT2N': s.side.append(z3.And(x > -1, x <= 1))
            if a.f == 'EXP': s.side.append(x > 0)
            if a.f == 'pi': s.side.append(z3.And(x > z3.RealVal('3.14159'), x < z3.RealVal('3.1416')))
            if a.f == 'POW':
                base = s.poly(a.args[0]); s.side.append(z3.Implies(base >= 0, x >= 0)); s.side.append(z3.Implies(base > 0, x > 0))
        return s.mono[k]
    def poly(s, p):
        t = z3.RealVal(0)
        for k, v in p.m.items():
            c = z3.RealVal(str(v))
            if k == (): t = t + c
            elif len(k) == 1 and k[0][1] == 1: t = t + c * s.atom_term(k[0][0])
            else:
                kk = ('m', tuple((a.key, e) for a, e in k))
                if kk not in s.mono:
                    x = z3.Real(f'm{len(s.mono)}'); s.mono[kk] = x
                    # squares (even powers of one atom) are non-negative
                    if all(e % 2 == 0 for _, e in k): s.side.append(x >= 0)
                t = t + c * s.mono[kk]
        return t
    def cond(s, c):
        if isinstance(c, Cond):
            a, b = s.poly(c.a), s.poly(c.b)
            return {'<': a < b, '<=': a <= b, '>': a > b, '>=': a >= b, '==': a == b, '!=': a != b}[c.op]
        if isinstance(c, CNot): return z3.Not(s.cond(c.c))
        if isinstance(c, CAnd): return z3.And([s.cond(x) for x in c.cs])
        if isinstance(c, COr): return z3.Or([s.cond(x) for x in c.cs])
        if isinstance(c, bool): return z3.BoolVal(c)
        raise TypeError(c)
    def feasible(s, conds, timeout=10000):
        so = z3.Solver(); so.set('timeout', timeout)
        so.add(*[s.cond(c) for c in conds]); so.add(*s.side); so.add(*s.extra)
        return so.check() != z3.unsat
    def valid(s, conds, goal, timeout=20000):
        """pc => goal ?  -> 'proved' | 'refuted' | 'unknown'"""
        so = z3.Solver(); so.set('timeout', timeout)
        g = s.cond(goal)
        so.add(*[s.cond(c) for c in conds]); so.add(*s.side); so.add(*s.extra); so.add(z3.Not(g))
        r = so.check()
        return 'proved' if r == z3.unsat else ('refuted' if r == z3.sat else 'unknown')


class Unsupported(Exception):
    pass


# ------------------------------------------------------------------ evaluator
class NumExec:
    """path-splitting evaluator of straight-line numeric Python.  `calls`: name -> python callable on values
    returning a value or a list of (conds, value); `inline`: name -> (FunctionDef, module) executed from the AST."""
    def __init__(s, calls=None, inline=None, zmap=None, consts=None):
        s.calls = calls or {}; s.inline = inline or {}; s.z = zmap or Z3Map(); s.consts = consts or {}
        s.depth = 0

    def run(s, fn, args):
        env = {}
        names = [a.arg for a in fn.args.args]
        for n, v in zip(names, args): env[n] = v
        return [(pc, v) for k, pc, v in s.block(fn.body, env, []) if k == 'ret']

    def block(s, stmts, env, pc):
        if not stmts: return [('fall', pc, env)]
        st, rest = stmts[0], stmts[1:]
        if isinstance(st, (ast.Expr, ast.Pass)):
            return s.block(rest, env, pc)
        if isinstance(st, ast.Return):
            if st.value is None: return [('ret', pc, None)]
            return [('ret', pc + c, v) for c, v in s.ev(st.value, env, pc)]
        if isinstance(st, ast.FunctionDef):
            env = dict(env); env[st.name] = ('closure', st, env); return s.block(rest, env, pc)
        if isinstance(st, (ast.Assign, ast.AnnAssign)):
            out = []
            targets = st.targets if isinstance(st, ast.Assign) else [st.target]
            for c, v in s.ev(st.value, env, pc):
                e2 = dict(env)
                for t in targets: s.bind(t, v, e2)
                out += s.block(rest, e2, pc + c)
            return out
        if isinstance(st, ast.AugAssign):
            e = ast.BinOp(left=ast.Name(id=st.target.id, ctx=ast.Load()), op=st.op, right=st.value)
            out = []
            for c, v in s.ev(e, env, pc):
                e2 = dict(env); e2[st.target.id] = v; out += s.block(rest, e2, pc + c)
            return out
        if isinstance(st, ast.If):
            out = []
            for c0, cond in s.ev(st.test, env, pc):
                if isinstance(cond, Poly) and cond.is_const(): cond = bool(cond.cval())
                for cnd, body in ((cond, st.body), (neg(cond), st.orelse)):
                    if cnd is False: continue
                    pc2 = pc + c0 + ([] if cnd is True else [cnd])
                    if cnd is not True and not s.z.feasible(pc2): continue
                    for r in s.block(body, env, pc2):
                        if r[0] == 'fall': out += s.block(rest, r[2], r[1])
                        else: out.append(r)
            return out
        if isinstance(st, ast.Raise):
            return [('exc', pc, None)]
        raise Unsupported(f'statement {type(st).__name__} line {st.lineno}')

    def bind(s, t, v, env):
        if isinstance(t, ast.Name): env[t.id] = v
        elif isinstance(t, (ast.Tuple, ast.List)):
            if not isinstance(v, (tuple, list)) or len(v) != len(t.elts): raise Unsupported('unpack shape')
            for a, b in zip(t.elts, v): s.bind(a, b, env)
        else: raise Unsupported('target')

    def evs(s, es, env, pc):
        outs = [([], [])]
        for e in es:
            nxt = []
            for c, vs in outs:
                for c2, v in s.ev(e, env, pc + c): nxt.append((c + c2, vs + [v]))
            outs = nxt
        return outs

    def ev(s, e, env, pc):
        """-> list of (extra conds, value)"""
        if isinstance(e, ast.Constant):
            v = e.value
            if isinstance(v, bool): return [([], v)]
            if isinstance(v, float): return [([], Poly.const(Fr(repr(v))))]      # decimal text of the literal
            if isinstance(v, int): return [([], Poly.const(v))]
            if isinstance(v, str) or v is None: return [([], v)]
        if isinstance(e, ast.Name):
            if e.id in env: return [([], env[e.id])]
            if e.id in s.consts: return [([], s.consts[e.id])]
            raise Unsupported(f'name {e.id}')
        if isinstance(e, (ast.Tuple, ast.List)):
            return [(c, tuple(vs)) for c, vs in s.evs(e.elts, env, pc)]
        if isinstance(e, ast.ListComp):
            g = e.generators[0]
            out = []
            for c, it in s.ev(g.iter, env, pc):
                if not isinstance(it, (tuple, list)): raise Unsupported('comprehension over non-tuple')
                acc = [(c, [])]
                for x in it:
                    nxt = []
                    for c1, vs in acc:
                        e2 = dict(env); s.bind(g.target, x, e2)
                        for c2, v in s.ev(e.elt, e2, pc + c1): nxt.append((c1 + c2, vs + [v]))
                    acc = nxt
                out += [(c1, tuple(vs)) for c1, vs in acc]
            return out
        if isinstance(e, ast.UnaryOp):
            if isinstance(e.op, ast.USub): return [(c, -lift(v)) for c, v in s.ev(e.operand, env, pc)]
            if isinstance(e.op, ast.UAdd): return s.ev(e.operand, env, pc)
            if isinstance(e.op, ast.Not): return [(c, neg(v)) for c, v in s.ev(e.operand, env, pc)]
        if isinstance(e, ast.BinOp):
            out = []
            for c, (a, b) in s.evs([e.left, e.right], env, pc):
                if isinstance(e.op, ast.Add): v = lift(a) + lift(b)
                elif isinstance(e.op, ast.Sub): v = lift(a) - lift(b)
                elif isinstance(e.op, ast.Mult): v = lift(a) * lift(b)
                elif isinstance(e.op, ast.Div): v = lift(a) * inv(b)
                elif isinstance(e.op, ast.Pow): v = ppow(a, b)
                else: raise Unsupported(f'operator {type(e.op).__name__}')
                out.append((c, v))
            return out
        if isinstance(e, ast.BoolOp):
            return [(c, CAnd(vs) if isinstance(e.op, ast.And) else COr(vs)) for c, vs in s.evs(e.values, env, pc)]
        if isinstance(e, ast.Compare):
            out = []
            for c, vs in s.evs([e.left] + e.comparators, env, pc):
                cs = []
                for op, l, r in zip(e.ops, vs, vs[1:]):
                    o = {ast.Eq: '==', ast.NotEq: '!=', ast.Lt: '<', ast.LtE: '<=', ast.Gt: '>', ast.GtE: '>='}.get(type(op))
                    if o is None: raise Unsupported('comparison operator')
                    if isinstance(l, tuple) or isinstance(r, tuple):
                        if o != '==' or not (isinstance(l, tuple) and isinstance(r, tuple) and len(l) == len(r)): raise Unsupported('tuple comparison')
                        cs.append(CAnd([Cond('==', x, y) for x, y in zip(l, r)]))
                    else: cs.append(Cond(o, l, r))
                out.append((c, cs[0] if len(cs) == 1 else CAnd(cs)))
            return out
        if isinstance(e, ast.IfExp):
            out = []
            for c0, cond in s.ev(e.test, env, pc):
                for cnd, br in ((cond, e.body), (neg(cond), e.orelse)):
                    pc2 = pc + c0 + [cnd]
                    if not s.z.feasible(pc2): continue
                    out += [(c0 + [cnd] + c, v) for c, v in s.ev(br, env, pc2)]
            return out
        if isinstance(e, ast.Subscript):
            out = []
            for c, base in s.ev(e.value, env, pc):
                i = ast.literal_eval(e.slice)
                out.append((c, base[i]))
            return out
        if isinstance(e, ast.Attribute):
            nm = ast.unparse(e)
            if nm == 'math.pi': return [([], PI)]
            raise Unsupported(f'attribute {nm}')
        if isinstance(e, ast.Call): return s.call(e, env, pc)
        raise Unsupported(f'expression {type(e).__name__}')

    def call(s, e, env, pc):
        f = ast.unparse(e.func)
        out = []
        for c, args in s.evs(e.args, env, pc):
            if f in env and isinstance(env[f], tuple) and env[f] and env[f][0] == 'closure':
                _, fd, cenv = env[f]
                res = s.run_inline(fd, cenv, args, pc + c)
            elif f in s.calls:
                res = s.calls[f](*args)
                if not isinstance(res, list): res = [([], res)]
            elif f in s.inline:
                fd, consts = s.inline[f]
                res = s.run_inline(fd, {}, args, pc + c)
            elif f in BUILTIN: res = BUILTIN[f](s, pc + c, *args)
            else: raise Unsupported(f'call {f}')
            out += [(c + c2, v) for c2, v in res]
        return out

    def run_inline(s, fd, cenv, args, pc):
        if s.depth > 8: raise Unsupported('inline depth')
        env = dict(cenv)
        for a, v in zip(fd.args.args, args): env[a.arg] = v
        s.depth += 1
        try:
            res = []
            for k, pc2, v in s.block(fd.body, env, list(pc)):
                if k == 'ret': res.append((pc2[len(pc):], v))
                else: raise Unsupported('inline function falls off the end')
            return res
        finally: s.depth -= 1


def neg(c):
    if isinstance(c, bool): return not c
    if isinstance(c, CNot): return c.c
    if isinstance(c, Cond):
        return Cond({'<': '>=', '<=': '>', '>': '<=', '>=': '<', '==': '!=', '!=': '=='}[c.op], c.a, c.b)
    return CNot(c)


def _maxmin(which):
    def f(s, pc, *args):
        if len(args) == 1 and isinstance(args[0], (tuple, list)): args = args[0]
        res = [([], lift(args[0]))]
        for b in args[1:]:
            b = lift(b); nxt = []
            for c, a in res:
                if a == b: nxt.append((c, a)); continue
                c1 = Cond('>=' if which == 'max' else '<=', a, b)
                for cond, v in ((c1, a), (neg(c1), b)):
                    if s.z.feasible(pc + c + [cond]): nxt.append((c + [cond], v))
            res = nxt
        return res
    return f


BUILTIN = {
    'max': _maxmin('max'), 'min': _maxmin('min'),
    'abs': lambda s, pc, p: [([], even('ABS', p))],
    'pow': lambda s, pc, a, b: [([], ppow(a, b))],
    'float': lambda s, pc, a: [([], a)],
    'math.sqrt': lambda s, pc, p: [([], msqrt(p))],
    'math.sin': lambda s, pc, p: [([], odd('SIN', p))],
    'math.cos': lambda s, pc, p: [([], even('COS', p))],
    'math.exp': lambda s, pc, p: [([], app('EXP', p))],
    'math.radians': lambda s, pc, p: [([], lift(p) * PI * Fr(1, 180))],
    'math.atan2': lambda s, pc, y, x: [([], PI * app('AT2N', y, x))],
    'cbrt': lambda s, pc, p: [([], app('POW', p, Fr(1, 3)))],
    'sqrt': lambda s, pc, p: [([], msqrt(p))],
}


# ------------------------------------------------------------------ conformance
def conform(code_paths, spec_paths, zmap, label, pre=(), exact_fallback=None):
    """for every jointly feasible (code path, spec path): values must have equal normal forms.
    -> (pairs, equal, diffs[list of dicts])"""
    pairs = equal = 0; diffs = []
    pre = list(pre)
    for pc1, v1 in code_paths:
        for pc2, v2 in spec_paths:
            if not zmap.feasible(pre + pc1 + pc2): continue
            pairs += 1
            if same_value(v1, v2): equal += 1
            elif linear_equal(zmap, pre + pc1 + pc2, v1, v2): equal += 1       # equal under the path condition (e.g. a clamp boundary)
            elif exact_fallback is not None and exact_equal(pre + pc1 + pc2, v1, v2, exact_fallback): equal += 1
            else: diffs.append({'code_path': [show_cond(c) for c in pc1], 'spec_path': [show_cond(c) for c in pc2], 'difference': diff_value(v1, v2)})
    return pairs, equal, diffs


def same_value(a, b):
    if isinstance(a, (tuple, list)) or isinstance(b, (tuple, list)):
        return isinstance(a, (tuple, list)) and isinstance(b, (tuple, list)) and len(a) == len(b) and all(same_value(x, y) for x, y in zip(a, b))
    if isinstance(a, (str, type(None))) or isinstance(b, (str, type(None))): return a == b
    return lift(a) == lift(b)


def diff_value(a, b):
    if isinstance(a, (tuple, list)) and isinstance(b, (tuple, list)) and len(a) == len(b):
        for i, (x, y) in enumerate(zip(a, b)):
            if not same_value(x, y): return {'component': i, **diff_value(x, y)}
    if isinstance(a, (str, type(None))) or isinstance(b, (str, type(None))): return {'code': repr(a), 'spec': repr(b)}
    if isinstance(a, (tuple, list)) or isinstance(b, (tuple, list)): return {'code': 'tuple', 'spec': 'scalar/other shape'}
    d = lift(a) - lift(b)
    return {'code_minus_spec': d.show(8), 'monomials_differing': len(d.m)}


class Z3Exact:
    """polynomials -> z3 NON-linear real terms (INV is real division).  Only for small range lemmas (2-3 atoms);
    z3's nlsat decides these.  Atoms other than INV are real constants with optional declared ranges."""
    def __init__(s, ranges=None):
        s.ranges = ranges or {}; s.consts = {}; s.side = []
    def atom(s, a):
        if a.f == 'INV': return 1 / s.poly(a.args[0])
        if a.f == 'ABS':
            t = s.poly(a.args[0]); return z3.If(t >= 0, t, -t)
        if a.args and a.f not in s.ranges:
            # an uninterpreted function of its (exactly translated) arguments: congruence is available to the solver
            f = z3.Function('uf_' + a.f, *([z3.RealSort()] * len(a.args)), z3.RealSort())
            return f(*[s.poly(x) for x in a.args])
        if a.key not in s.consts:
            x = z3.Real(f'x{len(s.consts)}_{a.f}'); s.consts[a.key] = x
            if a.f in s.ranges:
                lo, hi = s.ranges[a.f]
                if lo is not None: s.side.append(x >= lo)
                if hi is not None: s.side.append(x <= hi)
        return s.consts[a.key]
    def poly(s, p):
        t = z3.RealVal(0)
        for k, v in lift(p).m.items():
            term = z3.RealVal(str(v))
            for a, e in k:
                for _ in range(e): term = term * s.atom(a)
            t = t + term
        return t
    def cond(s, c):
        if isinstance(c, Cond):
            a, b = s.poly(c.a), s.poly(c.b)
            return {'<': a < b, '<=': a <= b, '>': a > b, '>=': a >= b, '==': a == b, '!=': a != b}[c.op]
        if isinstance(c, CNot): return z3.Not(s.cond(c.c))
        if isinstance(c, CAnd): return z3.And([s.cond(x) for x in c.cs])
        if isinstance(c, COr): return z3.Or([s.cond(x) for x in c.cs])
        return z3.BoolVal(bool(c))
    def prove(s, pcs, goal_z3, timeout=20000):
        so = z3.Solver(); so.set('timeout', timeout)
        so.add(*[s.cond(c) for c in pcs]); so.add(*s.side); so.add(z3.Not(goal_z3))
        r = so.check()
        return ('proved', None) if r == z3.unsat else (('refuted', so.model()) if r == z3.sat else ('unknown', None))


def exact_equal(pcs, a, b, ranges):
    """normal forms differ: try to prove pc => a == b in exact non-linear real arithmetic (only when few atoms are
    involved, e.g. a path that pins two atoms to be equal)"""
    if isinstance(a, (tuple, list)):
        return isinstance(b, (tuple, list)) and len(a) == len(b) and all(exact_equal(pcs, x, y, ranges) for x, y in zip(a, b))
    if isinstance(a, (str, type(None))) or isinstance(b, (str, type(None))): return a == b
    d = lift(a) - lift(b)
    def count(p, seen):
        for at in p.atoms():
            if at.f == 'INV': count(at.args[0], seen)
            else: seen.add(at.key)
        return seen
    if len(count(d, set())) > 10: return False
    ze = Z3Exact(ranges=ranges)
    r, _ = ze.prove(pcs, ze.poly(a) == ze.poly(b), timeout=10000)
    return r == 'proved'


def linear_equal(zmap, pcs, a, b):
    """pc => a == b, decided by z3 with monomials abstracted (sound: holds for every interpretation of the atoms)"""
    if isinstance(a, (tuple, list)) or isinstance(b, (tuple, list)):
        return isinstance(a, (tuple, list)) and isinstance(b, (tuple, list)) and len(a) == len(b) and all(same_value(x, y) or linear_equal(zmap, pcs, x, y) for x, y in zip(a, b))
    if isinstance(a, (str, type(None), bool)) or isinstance(b, (str, type(None), bool)): return a == b
    return zmap.valid(pcs, Cond('==', a, b)) == 'proved'
