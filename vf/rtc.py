"""Engine E: run-time contracts on the REAL functions (imported from <repo>/src), evaluated with the concrete
reading of the spec vocabulary (oracles, not the library).  Bounded; never counted as proved.  Also used to
turn a failed deductive obligation into a concrete failing input (replay)."""
from __future__ import annotations
import importlib, os, random, sys, types, multiprocessing as mp, itertools
from .program import SRC_ROOT
from .conc import Conc, Indeterminate


def load_lib():
    """import the real package from the working tree (explicit sys.path entry, not /venv's editable install)"""
    if SRC_ROOT not in sys.path[:1]:
        sys.path.insert(0, SRC_ROOT)
    for k in [k for k in sys.modules if k == 'cm_colors' or k.startswith('cm_colors.')]:
        pass
    import cm_colors
    assert os.path.realpath(cm_colors.__file__).startswith(os.path.realpath(SRC_ROOT)), cm_colors.__file__
    ns = types.SimpleNamespace()
    for m in ('cm_colors.core.optimisation', 'cm_colors.core.contrast', 'cm_colors.core.color_metrics', 'cm_colors.core.conversions',
              'cm_colors.core.color_parser', 'cm_colors.core.colors', 'cm_colors.core.cm_colors'):
        mod = importlib.import_module(m)
        for k, v in vars(mod).items():
            if callable(v) and getattr(v, '__module__', None) == m: setattr(ns, k, v)
    ns.__file__ = cm_colors.__file__
    return ns


def resolve(qual):
    mod, local = qual.split(':')
    o = importlib.import_module(mod)
    for part in local.split('.'): o = getattr(o, part)
    return o


def check_call(c, kwargs, lib=None, labels=None):
    """call the real function under contract `c`; -> list of (label, detail) failures, n_skipped"""
    S = Conc(lib)
    a = types.SimpleNamespace(**kwargs); a._path = None
    if c.pre is not None:
        try:
            if not S.b(c.pre(S, a)): return None, 0
        except Indeterminate:
            return None, 1
    fn = resolve(c.qual)
    try:
        r = fn(**kwargs)
    except Exception as e:
        if any(type(e).__name__ == t or t == 'Exception?' for t in c.raises): return [], 0
        return [('raises_only', f'{type(e).__name__}: {e}')], 0
    fails, skipped = [], 0
    for label, post in c.posts.items():
        if labels is not None and label not in labels: continue
        try:
            ok = S.b(post(S, a, r))
        except Indeterminate:
            skipped += 1; continue
        if not ok: fails.append((label, {'result': repr(r)}))
    return fails, skipped


# ------------------------------------------------------------------ input generators
THRESHOLDS = (3.0, 4.5, 7.0)


def rand_rgb(rng): return (rng.randrange(256), rng.randrange(256), rng.randrange(256))


def grey(v): return (v, v, v)


def pair_stream(rng, near_frac=0.6):
    """text/background pairs: uniform, grey x grey, equal colours, and pairs concentrated just below / above a threshold"""
    from oracles import colour as oc
    K = oc.FloatK
    fixed = [((0, 0, 0), (255, 255, 255)), ((255, 255, 255), (0, 0, 0)), ((119, 119, 119), (255, 255, 255)), ((118, 118, 118), (255, 255, 255)),
             ((128, 128, 128), (128, 128, 128)), ((203, 249, 83), (114, 82, 220)), ((255, 0, 0), (0, 0, 255)), ((102, 102, 102), (255, 255, 255)),
             ((136, 136, 136), (255, 255, 255)), ((89, 89, 89), (0, 0, 0)), ((148, 148, 148), (255, 255, 255)), ((26, 187, 255), (255, 255, 255))]
    for p in fixed: yield p
    while True:
        u = rng.random()
        if u < near_frac:
            th = rng.choice(THRESHOLDS)
            for _ in range(200):
                t, b = rand_rgb(rng), rand_rgb(rng) if rng.random() < 0.7 else grey(rng.randrange(256))
                r = oc.contrast(K, t, b)
                if 0.78 * th <= r <= 1.04 * th:
                    yield t, b; break
        elif u < near_frac + 0.1:
            yield grey(rng.randrange(256)), grey(rng.randrange(256))
        elif u < near_frac + 0.13:
            c = rand_rgb(rng); yield c, c
        else:
            yield rand_rgb(rng), rand_rgb(rng)


def _run_case(job):
    qual, kwargs, labels = job
    from contracts.registry import build
    global _REG, _LIB
    try: _REG
    except NameError:
        _REG = build(); _LIB = load_lib()
    c = _REG.get(qual)
    kw = dict(kwargs)
    if isinstance(kw.get('self'), tuple) and kw['self'] and kw['self'][0] == 'ColorPair':
        kw['self'] = _LIB.ColorPair(*kw['self'][1:])
        for (m, v) in kw.pop('_history', ()):          # earlier calls on the SAME object (stateful defects)
            try: kw['self'].make_readable(m, v)
            except Exception: pass
    kw.pop('_history', None)
    fails, skipped = check_call(c, kw, _LIB, labels)
    return kwargs, fails, skipped


def run_cases(jobs, procs=16):
    """jobs: iterable of (qual, kwargs, labels).  -> list of (kwargs, fails|None, skipped)"""
    jobs = list(jobs)
    if not jobs: return []
    ctx = mp.get_context('fork')
    with ctx.Pool(min(procs, len(jobs))) as pool:
        return pool.map(_run_case, jobs, chunksize=max(1, len(jobs) // (procs * 4)))
