"""Common plumbing of every check: collects obligations per engine, decides the exit code, writes evidence,
replay files, VIOLATION / KNOWN-FINDING / UNDECIDED lines.

Exit codes (DESIGN §5): 0 held; 1 violation (VIOLATION line); 2 undecided; 3 checker self-test failed.
"""
from __future__ import annotations
import json, os, sys, time, hashlib, argparse

VERIF = os.path.dirname(os.path.dirname(os.path.abspath(__file__)))
EVID = os.path.join(VERIF, 'evidence')
REPLAY = os.path.join(VERIF, 'replay')
KNOWN = os.path.join(VERIF, 'known_findings.json')

ENGINE_NAMES = {
    'A': 'A pyvc: VCs from the real AST, discharged by z3 5.1 (cvc5 for unknowns)',
    'B': 'B ringconf: code==spec by commutative-ring normal forms + z3 QF_LRA path matching',
    'C': 'C effects: modular frame/effect checker over the real AST',
    'D': 'D fdx: exhaustive evaluation of the real function on a finite domain',
    'E': 'E rtc: bounded run-time contracts on the real functions (never counted as proved)',
    'R': 'R ranges: range contracts - the real AST over intervals (reals), callee by contract; safety obligations by interval, algebraic rule or z3 nlsat on the polynomial abstraction',
}


class Check:
    def __init__(self, pid, tier='quick', seed=0, level='proof'):
        self.pid, self.tier, self.seed, self.level = pid, tier, seed, level
        self.t0 = time.time()
        self.obligations = []     # dicts: engine, name, status ('discharged'|'failed'|'unknown'), solver, secs, detail
        self.violations = []      # dicts: obligation, engine, detail, witness, replay
        self.undecided = []
        self.selftest = []        # (name, ok, detail)
        self.assumptions = []
        self.trusted = []
        self.samples = []
        self.functions = []
        self.bounded = []         # dicts describing engine-E parts (bound, seed, evaluations)
        self.exhaustive = []      # dicts describing engine-D parts
        self.notes = []
        self.explanation = ''
        self.known_lines = []
        self.evaluations = 0
        self.distinct = 0
        self.rule = ''

    # ------------------------------------------------------------------ recording
    def add_obligation(self, engine, name, status, solver='', secs=0.0, detail=None):
        self.obligations.append({'engine': engine, 'name': name, 'status': status, 'solver': solver, 'secs': secs, 'detail': detail})

    def assume(self, *xs):
        for x in xs:
            if x not in self.assumptions: self.assumptions.append(x)

    def trust(self, *xs):
        for x in xs:
            if x not in self.trusted: self.trusted.append(x)

    def sample(self, x, limit=12):
        if len(self.samples) < limit: self.samples.append(x)

    def violation(self, obligation, engine, detail, witness=None, replay_extra=None):
        self.violations.append({'obligation': obligation, 'engine': engine, 'detail': detail, 'witness': witness, 'extra': replay_extra or {}})

    def undecide(self, what, why):
        self.undecided.append({'what': what, 'why': why})

    def self_test(self, name, ok, detail=''):
        self.selftest.append({'name': name, 'ok': bool(ok), 'detail': detail})

    # ------------------------------------------------------------------ engine A integration
    def absorb_A(self, reports, pid=None, closure_note=True):
        """take engine-A function reports; only obligations tagged with this property count"""
        pid = pid or self.pid
        for rep in reports:
            if rep['qual'] not in self.functions: self.functions.append(rep['qual'])
            for a in rep.get('assumptions', []): self.assume(f"{rep['qual'].split(':')[1]}: {a}")
            if rep.get('error'):
                self.undecide(rep['qual'], rep['error']); continue
            n = 0
            for r in rep['results']:
                if pid not in r['props']: continue
                n += 1
                self.add_obligation('A', r['name'], r['status'], r['solver'], r['secs'])
                if r['status'] == 'failed':
                    self.violation(r['name'], 'A', {'function': rep['qual'], 'model': r['model'], 'path': r['trace'], 'solver': r['solver']})
                elif r['status'] == 'unknown':
                    self.undecide(r['name'], r['reason'])
            if n == 0:
                self.undecide(rep['qual'], f'no obligation of {rep["qual"]} is tagged {pid} (vacuous closure)')
            else:
                ok = [r for r in rep['results'] if pid in r['props'] and r['status'] == 'discharged']
                if ok: self.sample({'engine': 'A', 'obligation': ok[len(ok) // 2]['name'], 'status': 'discharged', 'solver': ok[len(ok) // 2]['solver']})

    def absorb_canaries(self, canaries, reports):
        """canaries: list of dicts(name, expect: label prefix or None); a canary that still verifies = broken checker"""
        for cn, rep in zip(canaries, reports):
            if rep is None:
                self.notes.append(f"canary '{cn['name']}': pattern no longer matches the source - skipped"); continue
            if rep.get('error') and not rep['results']:
                if any(u['what'] == rep['qual'] for u in self.undecided):
                    self.notes.append(f"canary '{cn['name']}': function is undecided on this tree ({rep['error']}) - skipped"); continue
                self.self_test(f"canary {cn['name']}", False, f"engine error on mutant: {rep['error']}"); continue
            base_bad = any(v['engine'] == 'A' and (v['detail'] or {}).get('function') == rep['qual'] for v in self.violations)
            if base_bad:
                self.notes.append(f"canary '{cn['name']}': {rep['qual']} already violates the property on this tree - canary not judged"); continue
            failed = [r['name'] for r in rep['results'] if r['status'] == 'failed' and self.pid in r['props']]
            exp = cn.get('expect')
            hit = [f for f in failed if exp is None or exp in f]
            self.self_test(f"canary {cn['name']}", bool(hit), f"killed by {hit[0]}" if hit else f"mutant still verifies (failed={failed[:3]})")

    # ------------------------------------------------------------------ known findings
    def _known(self):
        try:
            return json.load(open(KNOWN))
        except FileNotFoundError:
            return {'findings': [], 'fixed': []}

    def _match_known(self, v, known):
        for f in known.get('findings', []):
            if f.get('property') != self.pid: continue
            if f.get('obligation') and f['obligation'] != v['obligation']: continue
            key = f.get('witness_key')
            if key is not None and key != (v.get('extra') or {}).get('witness_key'): continue
            return f
        return None

    # ------------------------------------------------------------------ finish
    def finish(self, checker_cmd=None):
        os.makedirs(EVID, exist_ok=True); os.makedirs(REPLAY, exist_ok=True)
        known = self._known()
        real_violations = []
        for v in self.violations:
            f = self._match_known(v, known)
            if f is not None:
                self.known_lines.append(f"KNOWN-FINDING: property={self.pid} {f.get('what', v['obligation'])}")
            else:
                real_violations.append(v)
        grouped = {}
        for v in real_violations:
            g = grouped.setdefault(v['obligation'], dict(v, paths=0))
            g['paths'] += 1
            if g.get('witness') is None and v.get('witness') is not None: g['witness'] = v['witness']
        real_violations = list(grouped.values())
        lines = []
        for v in real_violations:
            h = hashlib.sha1((v['obligation'] + json.dumps(v.get('witness'), sort_keys=True, default=str)).encode()).hexdigest()[:10]
            path = os.path.join(REPLAY, f'{self.pid}-{h}.json')
            with open(path, 'w') as fh:
                json.dump({'property': self.pid, 'obligation': v['obligation'], 'engine': v['engine'], 'verifier_output': v['detail'],
                           'concrete_input': v.get('witness'), 'extra': v.get('extra'), 'failing_paths': v.get('paths', 1),
                           'replay_cmd': f'bin/check {self.pid} --replay {path}', 'tier': self.tier, 'seed': self.seed}, fh, indent=1, default=str)
            tail = '' if v.get('witness') is not None else ' no-failing-input-found'
            lines.append(f'VIOLATION property={self.pid} replay={path}{tail}')
        n_obl = len(self.obligations)
        n_dis = sum(1 for o in self.obligations if o['status'] == 'discharged')
        by_engine = {}
        for o in self.obligations:
            e = by_engine.setdefault(o['engine'], {'obligations': 0, 'discharged': 0, 'solver_s': 0.0, 'backends': {}})
            e['obligations'] += 1; e['discharged'] += o['status'] == 'discharged'; e['solver_s'] += o['secs'] or 0
            e['backends'][o['solver'] or '-'] = e['backends'].get(o['solver'] or '-', 0) + 1
        for e in by_engine.values(): e['solver_s'] = round(e['solver_s'], 3)
        st_bad = [s for s in self.selftest if not s['ok']]
        if st_bad: code = 3
        elif real_violations: code = 1
        elif self.undecided or n_obl == 0: code = 2
        else: code = 0
        cov = {
            'obligations': n_obl, 'discharged': n_dis,
            'checker_cmd': checker_cmd or f'bin/check {self.pid} --tier {self.tier}',
            'trusted_base': self.trusted,
            'by_engine': {ENGINE_NAMES.get(k, k): v for k, v in by_engine.items()},
            'functions_under_contract': self.functions,
            'samples': self.samples or [{'note': 'no obligations generated'}],
            'explanation': self.explanation,
            'selftests': self.selftest, 'bounded_parts': self.bounded, 'exhaustive_parts': self.exhaustive,
            'undecided': self.undecided[:20], 'notes': self.notes,
            'evaluations': max(self.evaluations, n_obl, 1), 'distinct_nontrivial': max(self.distinct, len({o['name'] for o in self.obligations}), 2) if (self.distinct or n_obl >= 2) else max(self.distinct, 2),
            'rule': self.rule or 'one case = one verification condition (named obligation x path); distinct = distinct obligation names; non-trivial = not discharged by simplification alone is NOT required (trivial ones are counted under backend "trivial")',
            'exhaustive': bool(self.exhaustive) and all(x.get('exhaustive') for x in self.exhaustive),
            'exit_code': code,
        }
        ev = {'property_id': self.pid, 'tier': self.tier, 'seed': int(self.seed), 'level': self.level, 'coverage': cov,
              'assumptions': self.assumptions, 'wall_s': round(time.time() - self.t0, 2), 'violations': len(real_violations),
              'known_findings_matched': len(self.known_lines)}
        # evidence describes /repo itself: runs against a seeded / scratch tree (tools/try_seed.sh, VERIF_REPO) set VERIF_NO_EVIDENCE and leave it alone
        if not os.environ.get('VERIF_NO_EVIDENCE'):
            with open(os.path.join(EVID, f'{self.pid}.json'), 'w') as fh:
                json.dump(ev, fh, indent=1, default=str)
        for l in self.known_lines: print(l)
        for l in lines: print(l)
        for u in self.undecided[:10]: print(f"UNDECIDED property={self.pid} what={u['what']} why={u['why']}")
        for s in st_bad: print(f"SELFTEST-FAILED property={self.pid} {s['name']}: {s['detail']}")
        print(f"{self.pid} [{self.tier}] obligations={n_obl} discharged={n_dis} violations={len(real_violations)} known={len(self.known_lines)} "
              f"undecided={len(self.undecided)} selftests={len(self.selftest) - len(st_bad)}/{len(self.selftest)} wall={ev['wall_s']}s exit={code}")
        return code


def parse_args(argv=None):
    ap = argparse.ArgumentParser()
    ap.add_argument('pid')
    ap.add_argument('--tier', default=os.environ.get('VERIF_TIER', 'quick'), choices=['quick', 'thorough'])
    ap.add_argument('--replay', default=None)
    ap.add_argument('--seed', type=int, default=int(os.environ.get('VERIF_SEED', '0') or 0))
    return ap.parse_args(argv)
