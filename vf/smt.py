"""Second solver for what z3 leaves open: cvc5 (CLI) on the same SMT-LIB query."""
import subprocess, tempfile, os

CVC5 = '/usr/bin/cvc5'


def cvc5_check(smt2: str, timeout_ms=20000, strings=False):
    if 'check-sat' not in smt2:
        smt2 += '\n(check-sat)\n'
    with tempfile.NamedTemporaryFile('w', suffix='.smt2', delete=False) as f:
        f.write('(set-logic ALL)\n' + smt2)
        name = f.name
    try:
        args = [CVC5, '--lang=smt2', f'--tlimit={timeout_ms}']
        if strings: args += ['--strings-exp']
        r = subprocess.run(args + [name], capture_output=True, text=True, timeout=timeout_ms / 1000 + 10)
        out = r.stdout.strip().splitlines()
        return out[0].strip() if out else f'error: {r.stderr.strip()[:200]}'
    except subprocess.TimeoutExpired:
        return 'timeout'
    finally:
        os.unlink(name)
