"""Shared spec vocabulary of engine A (DESIGN §4.2) in its *symbolic* reading: abstraction symbols are
uninterpreted z3 functions; contracts are written against the methods of `Sym` only.

Symbols:  CR(a,b) WCAG contrast ratio   DE(a,b) CIEDE2000   RGBSTR(t) the string rgbint_to_string makes
          FMT(t,f) the value format_color makes     ESC(s) html.escape(s, quote=True)
The meaning of each symbol is fixed elsewhere: CR/DE by engine B conformance + engine D numerics (C05/C11),
READ(RGBSTR t)=t and READ(FMT(t,f))=t by engine D exhaustively (C06).
"""
from __future__ import annotations
import z3
from .values import *
from . import values as _v

SeqSort = z3.DeclareSort('SeqId')


class Sym:
    concrete = False
    def __init__(self):
        self.facts = []            # GLOBAL valid side facts (pi, REACH closure instances, sequence bounds)
        self._factkeys = set()
        self.pending = []          # PATH-LOCAL valid facts about arithmetic applications (round, trunc, mul, pow); flushed into the path by the executor
        self.ex = None
        self._fn = {}
        self.CRf = z3.Function('CR', I, I, I, I, I, I, R)
        self.DEf = z3.Function('DE', I, I, I, I, I, I, R)
        self.pi = z3.Real('pi')
        self.fact('pi', z3.And(self.pi > z3.RealVal('3.14159'), self.pi < z3.RealVal('3.1416')))

    # ---------------------------------------------------------------- infrastructure
    def fact(self, key, f):
        if key not in self._factkeys:
            self._factkeys.add(key); self.facts.append(f)

    def lfact(self, key, f):
        self.pending.append(f)

    def fn(self, name, sorts, rng):
        k = (name, tuple(str(s) for s in sorts), str(rng))
        if k not in self._fn:
            self._fn[k] = z3.Function(f'{name}', *sorts, rng) if sorts else z3.Const(name, rng)
        return self._fn[k]

    def app(self, name, args, rng):
        sorts = [a.sort() for a in args]
        nm = name + '<' + ','.join(str(s)[0] for s in sorts) + '>'
        f = self.fn(nm, sorts, rng)
        return f(*args) if args else f

    def opaque_real(self, name, args, commutative=False):
        r = self.app('f_' + name, list(args), R)
        if commutative and len(args) == 2 and not args[0].eq(args[1]):
            self.lfact(None, r == self.app('f_' + name, [args[1], args[0]], R))
        # valid facts about the real operation that the symbol stands for (kept minimal: absorbing / neutral elements, signs)
        if name == 'mul' and len(args) == 2:
            x, y = args
            self.lfact(None, z3.And(z3.Implies(z3.Or(x == 0, y == 0), r == 0), z3.Implies(x == 1, r == y), z3.Implies(y == 1, r == x),
                                       z3.Implies(z3.And(x >= 0, y >= 0), r >= 0), z3.Implies(z3.And(x <= 0, y <= 0), r >= 0),
                                       z3.Implies(z3.And(x >= 0, y <= 0), r <= 0), z3.Implies(z3.And(x <= 0, y >= 0), r <= 0),
                                       # monotonicity of multiplication instantiated for the constants 255 and 1 (channel / alpha ranges)
                                       z3.Implies(z3.And(x <= 255, y >= 0), r <= 255 * y), z3.Implies(z3.And(y <= 255, x >= 0), r <= 255 * x),
                                       z3.Implies(z3.And(x <= 1, y >= 0), r <= y), z3.Implies(z3.And(y <= 1, x >= 0), r <= x)))
        if name == 'pow' and len(args) == 2:
            x, y = args
            self.lfact(None, z3.And(z3.Implies(x == 1, r == 1), z3.Implies(z3.And(x == 0, y > 0), r == 0), z3.Implies(x >= 0, r >= 0),
                                       z3.Implies(z3.And(x >= 0, x <= 1, y >= 0), z3.And(r >= 0, r <= 1))))
        return r

    def opaque_int(self, name, args):
        r = self.app('i_' + name, list(args), I)
        if name == 'mul' and len(args) == 2:
            x, y = args
            if not x.eq(y): self.lfact(None, r == self.app('i_' + name, [y, x], I))
            self.lfact(None, z3.And(z3.Implies(z3.Or(x == 0, y == 0), r == 0), z3.Implies(x == 1, r == y), z3.Implies(y == 1, r == x),
                                    z3.Implies(z3.And(x >= 0, y >= 0), r >= 0), z3.Implies(z3.And(x <= 0, y <= 0), r >= 0),
                                    z3.Implies(z3.And(x >= 0, y <= 0), r <= 0), z3.Implies(z3.And(x <= 0, y >= 0), r <= 0),
                                    z3.Implies(z3.And(x <= 255, y >= 0), r <= 255 * y), z3.Implies(z3.And(y <= 255, x >= 0), r <= 255 * x),
                                    z3.Implies(z3.And(x <= 1, y >= 0), r <= y), z3.Implies(z3.And(y <= 1, x >= 0), r <= x)))
        return r

    def const_real(self, name):
        if name == 'pi': return self.pi
        return z3.Real(name)

    def nonneg_int(self, name):
        t = fresh(I, name); self.lfact(None, t >= 0); return t

    def pure_value(self, fname, argvals, shape, p=None):
        """a value of `shape` whose leaves are function symbols applied to the leaves of the arguments"""
        ts, sigs = [], []
        for a in argvals:
            l, s = leaves(a); ts += l; sigs.append(s)
        sig = ';'.join(sigs)
        cnt = [0]
        def mk(sh):
            if sh in ('int', 'real', 'bool', 'str') or (isinstance(sh, tuple) and sh[0] == 'opt'): cnt[0] += 1   # leaves only
            nm = f'{fname}[{sig}]#{cnt[0]}'
            if sh == 'int': return VInt(self.app(nm, ts, I))
            if sh == 'real': return VReal(self.app(nm, ts, R))
            if sh == 'bool': return VBool(self.app(nm, ts, B))
            if sh == 'none': return NONE
            if sh == 'rgb': return VTuple([mk('int') for _ in range(3)])
            if sh == 'real3': return VTuple([mk('real') for _ in range(3)])
            if sh == 'rgbstr': return self.mk_rgbstr(mk('rgb'))
            if sh == 'str': return VStr(code=self.app(nm, ts, I))
            if isinstance(sh, tuple) and sh[0] == 'tuple': return VTuple([mk(s) for s in sh[1]])
            if isinstance(sh, tuple) and sh[0] == 'opt':
                isn = self.app(nm + '?', ts, B); return VOpt(isn, mk(sh[1]))
            raise ValueError(f'pure result shape {sh}')
        return mk(shape)

    # ---------------------------------------------------------------- booleans
    def And(self, *xs): return z3.And(*[self.b(x) for x in xs]) if xs else z3.BoolVal(True)
    def Or(self, *xs): return z3.Or(*[self.b(x) for x in xs]) if xs else z3.BoolVal(False)
    def Not(self, x): return z3.Not(self.b(x))
    def Implies(self, a, b): return z3.Implies(self.b(a), self.b(b))
    def Iff(self, a, b): return self.b(a) == self.b(b)
    def If(self, c, a, b): return z3.If(self.b(c), a, b)
    true = z3.BoolVal(True)
    false = z3.BoolVal(False)

    def b(self, x):
        if isinstance(x, bool): return z3.BoolVal(x)
        if isinstance(x, VBool): return x.t
        if isinstance(x, V): return self.ex.truth(x, None)
        return x

    # ---------------------------------------------------------------- numbers
    def r(self, x):
        """Real term of a numeric value / python number / z3 term"""
        if isinstance(x, V): return num(x)
        if isinstance(x, float): return z3.RealVal(repr(x))
        if isinstance(x, int): return z3.RealVal(x)
        return x
    def ge(self, a, b): return self.r(a) >= self.r(b)
    def gt(self, a, b): return self.r(a) > self.r(b)
    def le(self, a, b): return self.r(a) <= self.r(b)
    def lt(self, a, b): return self.r(a) < self.r(b)
    def eq(self, a, b): return self.r(a) == self.r(b)
    def eqi(self, a, n): return self.i(a) == n if isinstance(a, (VInt, VBool)) else self.false
    def num_value(self, t): return VReal(t)
    def const(self, x): return z3.RealVal(repr(x))
    def is_tuple(self, v): return isinstance(v, VTuple)
    def payload(self, v): return v.sym[1]
    def lit(self, s): return VStr(lit=s)

    # ---------------------------------------------------------------- colours
    def is_none(self, v):
        if isinstance(v, VNone): return self.true
        if isinstance(v, VOpt): return v.isnone
        return self.false
    def the(self, v):
        return v.inner if isinstance(v, VOpt) else v
    def is_tuple3(self, v):
        return isinstance(v, VTuple) and len(v.xs) == 3
    def rgb8(self, v):
        """3-tuple of ints each in 0..255 (bool-typed members are ints in Python; the tag is checked statically)"""
        v = self.the(v)
        if not (isinstance(v, VTuple) and len(v.xs) == 3 and all(isinstance(x, (VInt, VBool)) for x in v.xs)): return self.false
        return z3.And([z3.And(self.i(x) >= 0, self.i(x) <= 255) for x in v.xs])
    def i(self, x):
        if isinstance(x, VInt): return x.t
        if isinstance(x, VBool): return z3.If(x.t, 1, 0)
        if isinstance(x, int): return z3.IntVal(x)
        return x
    def in_0_255(self, v):
        """3-tuple of numbers (int or float) each in [0, 255]"""
        v = self.the(v)
        if not (isinstance(v, VTuple) and len(v.xs) == 3 and all(is_num(x) for x in v.xs)): return self.false
        return z3.And([z3.And(num(x) >= 0, num(x) <= 255) for x in v.xs])
    def opt_rgb8(self, v):
        """None or rgb8"""
        if isinstance(v, VNone): return self.true
        if isinstance(v, VOpt): return z3.Or(v.isnone, self.rgb8(v.inner))
        return self.rgb8(v)
    def opt(self, v, f):
        """v is None or f(v)"""
        if isinstance(v, VNone): return self.true
        if isinstance(v, VOpt): return z3.Or(v.isnone, self.b(f(v.inner)))
        return self.b(f(v))
    def ints(self, t):
        t = self.the(t)
        assert isinstance(t, VTuple) and len(t.xs) == 3, t
        return [self.i(x) for x in t.xs]
    def CR(self, a, b): return self.CRf(*self.ints(a), *self.ints(b))
    def DE(self, a, b): return self.DEf(*self.ints(a), *self.ints(b))
    def teq(self, a, b):
        a, b = self.the(a), self.the(b)
        if not (isinstance(a, VTuple) and isinstance(b, VTuple)) or len(a.xs) != len(b.xs): return self.false
        return z3.And([self.i(x) == self.i(y) if isinstance(x, (VInt, VBool)) and isinstance(y, (VInt, VBool)) else num(x) == num(y) for x, y in zip(a.xs, b.xs)])
    def item(self, v, i): return v.xs[i]

    def MIN(self, large, very):
        """the required minimum ratio, from the statement of C01: 4.5 / 3.0 / 7.0 / 4.5"""
        l, v = self.b(large), self.b(very)
        return z3.If(v, z3.If(l, z3.RealVal('4.5'), z3.RealVal('7.0')), z3.If(l, z3.RealVal('3.0'), z3.RealVal('4.5')))

    def maxof(self, seq, p=None):
        """upper bound of a tolerance schedule: computed for literal lists, symbolic MAXOF for symbolic ones"""
        if isinstance(seq, VSymSeq): return seq.maxof
        items = seq.xs if isinstance(seq, VTuple) else (p or self.ex_path).cell(seq.oid)['items']
        r = num(items[0])
        for x in items[1:]: r = z3.If(num(x) > r, num(x), r)
        return z3.simplify(r)

    def fresh_symseq(self, name='seq'):
        ident = fresh(SeqSort, name)
        mx = z3.Function('MAXOF', SeqSort, R)(ident)
        last = z3.Function('LAST', SeqSort, R)(ident)
        self.fact(f'last{ident}', last <= mx)
        return VSymSeq(ident, mx, last)

    # ---------------------------------------------------------------- strings (abstract constructors)
    def mk_rgbstr(self, t):
        code = self.app('RGBSTR', self.ints(t), I)
        return VStr(code=code, sym=('rgbstr', t))
    def mk_fmt(self, t, f):
        code = self.app('FMT', self.ints(t) + [f.code], I)
        return VStr(code=code, sym=('fmt', t, f))
    def mk_fstr(self, vals, nodes):
        # the library's hex formatter: f"#{r:02x}{g:02x}{b:02x}" over three ints
        import ast as _ast
        if (len(nodes) == 4 and isinstance(nodes[0], _ast.Constant) and nodes[0].value == '#' and all(isinstance(n, _ast.FormattedValue) and n.format_spec is not None
                and _ast.unparse(n.format_spec) in ("f'02x'", 'f"02x"') for n in nodes[1:]) and all(isinstance(v, VInt) for v in vals[1:])):
            t = VTuple(vals[1:])
            return VStr(code=self.app('HEX6', self.ints(t), I), sym=('hex6', t))
        parts = []
        for v, n in zip(vals, nodes):
            parts.append(v)
        lit = None
        if all(isinstance(v, VStr) and v.lit is not None and not getattr(n, 'format_spec', None) and getattr(n, 'conversion', -1) == -1 for v, n in zip(vals, nodes)):
            lit = ''.join(v.lit for v in vals)
            return VStr(lit=lit)
        return VStr(code=fresh(I, 'fstr'), sym=('fstr', parts, nodes))
    def mk_concat(self, parts):
        if all(x.lit is not None for x in parts): return VStr(lit=''.join(x.lit for x in parts))
        return VStr(code=fresh(I, 'cat'), sym=('fstr', parts, [None] * len(parts)))
    def mk_str_of(self, v, p):
        if isinstance(v, VTuple) and len(v.xs) == 3 and all(isinstance(x, VInt) for x in v.xs):
            return VStr(code=self.app('STR_OF_T3', self.ints(v), I), sym=('strof', v))
        if isinstance(v, VInt): return VStr(code=self.app('STR_OF_I', [v.t], I), sym=('strof', v))
        if isinstance(v, VNone): return VStr(lit='None')
        return VStr(code=fresh(I, 'strof'), sym=('strof', v))
    def exc_message(self, e):
        if isinstance(e.msg, VStr): return e.msg
        # raised by a builtin (float('x'), int('g', 16), unpacking): CPython's own message - assumed non-empty;
        # raised by a callee under contract: the callee's obligation `error_message_nonempty` covers it
        return VStr(code=fresh(I, 'excmsg'), sym=('excmsg', e))

    def str_nonempty(self, v):
        if v.lit is not None: return z3.BoolVal(len(v.lit) > 0)
        if v.sym:
            k = v.sym[0]
            if k in ('rgbstr', 'fmt', 'hex6'): return self.true       # 'rgb(…)' / '#rrggbb' / C06 lemma: every formatted value is non-empty
            if k == 'fstr' and any(isinstance(x, VStr) and x.lit for x in v.sym[1]): return self.true
            if k in ('strof', 'excmsg'): return self.true
        return self.app('NONEMPTY', [v.code], B)
    def str_eq(self, a, b): return a.code == b.code
    def str_len(self, v):
        t = self.app('LEN', [v.code], I); self.lfact(None, t >= 0); return t
    def in_table(self, a, g): return self.app('IN_' + g.name.split(':')[1], [a.code], B)
    def table_lookup(self, g, a): return VStr(code=self.app('LOOKUP_' + g.name.split(':')[1], [a.code], I))
    def str_contains(self, hay, needle): return self.app('CONTAINS', [hay.code, needle.code], B)
    def str_slice(self, v, lo, hi):
        return VStr(code=self.app(f'SLICE_{lo}_{hi}', [v.code], I), sym=('slice', v, lo, hi))
    HEXDIGITS = '0123456789abcdefABCDEF'
    def all_chars_in(self, v, alphabet):
        """every character of the string v is in the literal alphabet (uninterpreted predicate per alphabet)"""
        return self.app('ALLCHARS_' + str(lit_code(alphabet)), [v.code], B)
    def str_is_float(self, v): return self.app('IS_FLOAT', [v.code], B)
    def str_to_float(self, v): return self.app('TO_FLOAT', [v.code], R)
    def str_is_int_base(self, v, base): return self.app('IS_INT', [v.code, self.i(base)], B)
    def str_to_int_base(self, v, base):
        r = self.app('TO_INT', [v.code, self.i(base)], I)
        # finite-table lemma (engine D, all 22^2 digit pairs): a two-character slice of a string made of hex digits only
        # reads as an integer in 0..255 in base 16 (and int() does not raise on it)
        if v.sym and v.sym[0] == 'slice' and isinstance(v.sym[2], int) and isinstance(v.sym[3], int) and v.sym[3] - v.sym[2] == 2 and v.sym[2] >= 0:
            base_v = v.sym[1]
            prem = z3.And(self.all_chars_in(base_v, self.HEXDIGITS), self.str_len(base_v) >= v.sym[3], self.i(base) == 16)
            self.lfact(None, z3.Implies(prem, z3.And(r >= 0, r <= 255, self.str_is_int_base(v, base))))
        return r

    def str_method(self, o, m, args, p, node):
        from . import symex as sx
        ln = getattr(node, 'lineno', None)
        if o.lit is not None and all(isinstance(a, VStr) and a.lit is not None or isinstance(a, VInt) and sx._const_int(a) is not None for a in args):
            pyargs = [a.lit if isinstance(a, VStr) else sx._const_int(a) for a in args]
            try:
                r = getattr(o.lit, m)(*pyargs)
            except Exception as e:
                return [(p, sx.Raised(VExc(type(e).__name__, where=ln)))]
            if isinstance(r, bool): return [(p, VBool(r))]
            if isinstance(r, int): return [(p, VInt(r))]
            if isinstance(r, str): return [(p, VStr(lit=r))]
            if isinstance(r, list):
                q = p.fork(); return [(q, self.ex.new_list(q, [VStr(lit=x) for x in r]))]
        if any(not isinstance(a, (VStr, VInt, VTuple)) for a in args):
            if any(isinstance(a, VUnk) for a in args):
                return [(p, VUnk('strmeth')), (p.fork(), sx.Raised(VExc('TypeError', where=ln)))]
            return [(p, sx.Raised(VExc('TypeError', where=ln)))]
        codes = [o.code] + [a.code if isinstance(a, VStr) else a.t for a in args if not isinstance(a, VTuple)]
        if m in ('strip', 'lower', 'upper', 'lstrip', 'rstrip', 'replace', 'title', 'format'):
            return [(p, VStr(code=self.app('S_' + m, codes, I), sym=('meth', m, o, args)))]
        if m in ('startswith', 'endswith', 'isdigit', 'isalpha'):
            return [(p, VBool(self.app('S_' + m, codes, B)))]
        if m in ('find', 'rfind', 'index', 'count'):
            return [(p, VInt(self.app('S_' + m, codes, I)))]
        if m in ('split', 'rsplit', 'splitlines'):
            return [(p, VUnk('str.split'))]
        if m == 'join':
            return [(p, VStr(code=fresh(I, 'join')))]
        return self.ex.opaque_call(f'str.{m}', p, node)

    # ---------------------------------------------------------------- rounding
    def round_half_even(self, t):
        r = self.app('ROUND', [t], I)
        self.lfact(None, z3.And(z3.ToReal(r) - t <= z3.RealVal('1/2'), t - z3.ToReal(r) <= z3.RealVal('1/2')))
        return r
    def trunc(self, t):
        r = self.app('TRUNC', [t], I)
        self.lfact(None, z3.If(t >= 0, z3.And(z3.ToReal(r) <= t, t < z3.ToReal(r) + 1), z3.And(z3.ToReal(r) >= t, t > z3.ToReal(r) - 1)))
        return r

    def denotes(self, v):
        """the rgb tuple a colour value denotes (tuple: itself; RGBSTR t: t; FMT(t,f): t — lemma C06-D)"""
        if isinstance(v, VTuple): return v
        if isinstance(v, VStr) and v.sym and v.sym[0] in ('rgbstr', 'fmt'): return v.sym[1]
        return None
