"""Dispatch lemmas in z3's string theory (cvc5 for what z3 leaves open): "for every string of the CSS class K the
real function reaches K's branch".  The decision list (tests in order, outcome of each branch) is EXTRACTED from
the real AST of the function's `if isinstance(color, str):` block on every run; each test is translated
mechanically:   x.startswith(lit) -> prefixof      lit in x -> contains      x in CSS_NAMED_COLORS -> member of the
table read from the real module      re.fullmatch(lit, x) -> regular-language membership      and/or/not.

Assumed (stated in evidence): str.strip() / str.lower() map a whitespace-padded, any-case member of K to the
lower-cased core of K (the image property), and ',' / ' ' occur in s exactly when they occur in s.lower()."""
from __future__ import annotations
import ast, re
import z3


class Unsupported(Exception):
    pass


# ------------------------------------------------------------------ tiny regex -> z3 (the patterns in the code are literal)
def regex_to_z3(pat):
    pos = [0]
    def peek(): return pat[pos[0]] if pos[0] < len(pat) else None
    def take():
        c = pat[pos[0]]; pos[0] += 1; return c
    def alt():
        parts = [seq()]
        while peek() == '|':
            take(); parts.append(seq())
        return parts[0] if len(parts) == 1 else z3.Union(*parts)
    def seq():
        items = []
        while peek() is not None and peek() not in '|)':
            items.append(rep())
        if not items: return z3.Re(z3.StringVal(''))
        return items[0] if len(items) == 1 else z3.Concat(*items)
    def rep():
        a = atom()
        while peek() in ('*', '+', '?', '{'):
            c = take()
            if c == '*': a = z3.Star(a)
            elif c == '+': a = z3.Plus(a)
            elif c == '?': a = z3.Option(a)
            else:
                m = re.match(r'(\d+)(?:,(\d*))?\}', pat[pos[0]:])
                if not m: raise Unsupported('regex quantifier')
                pos[0] += len(m.group(0))
                lo = int(m.group(1)); hi = lo if m.group(2) is None else (int(m.group(2)) if m.group(2) else None)
                if hi is None: a = z3.Concat(*([a] * lo + [z3.Star(a)])) if lo else z3.Star(a)
                else: a = z3.Loop(a, lo, hi)
        return a
    def atom():
        c = take()
        if c == '(':
            if pat[pos[0]:pos[0] + 2] == '?:': pos[0] += 2
            a = alt()
            if take() != ')': raise Unsupported('regex group')
            return a
        if c == '[':
            neg = peek() == '^'
            if neg: raise Unsupported('negated class')
            rs = []
            while peek() != ']':
                x = take()
                if x == '\\': x = cls_escape(take())
                if isinstance(x, list): rs += x; continue
                if peek() == '-' and pat[pos[0] + 1] != ']':
                    take(); y = take(); rs.append(z3.Range(x, y))
                else: rs.append(z3.Re(z3.StringVal(x)))
            take()
            return rs[0] if len(rs) == 1 else z3.Union(*rs)
        if c == '\\':
            e = cls_escape(take())
            return z3.Union(*e) if isinstance(e, list) and len(e) > 1 else (e[0] if isinstance(e, list) else z3.Re(z3.StringVal(e)))
        if c == '.': return z3.AllChar(z3.ReSort(z3.StringSort()))
        return z3.Re(z3.StringVal(c))
    def cls_escape(c):
        if c == 'd': return [z3.Range('0', '9')]
        if c == 's': return [z3.Re(z3.StringVal(x)) for x in ' \t\n\r\f\v']
        if c == 'w': return [z3.Range('a', 'z'), z3.Range('A', 'Z'), z3.Range('0', '9'), z3.Re(z3.StringVal('_'))]
        return c
    r = alt()
    if pos[0] != len(pat): raise Unsupported('regex tail')
    return r


# ------------------------------------------------------------------ extraction of the decision list
def str_block(fn):
    for st in fn.body:
        if isinstance(st, ast.If) and ast.unparse(st.test) == f'isinstance({fn.args.args[0].arg}, str)': return st.body
    raise Unsupported('no `if isinstance(<argument>, str):` block')


def outcome_of(stmts):
    """name of what a branch does: the literal it returns, or the first library call of its return / raise"""
    for st in stmts:
        for n in ast.walk(st):
            if isinstance(n, ast.Return) and n.value is not None:
                if isinstance(n.value, ast.Constant): return repr(n.value.value)
                for c in ast.walk(n.value):
                    if isinstance(c, ast.Call): return ast.unparse(c.func)
                return ast.unparse(n.value)[:30]
            if isinstance(n, ast.Raise): return 'raise'
    return None


def first_call(stmts):
    for st in stmts:
        for n in ast.walk(st):
            if isinstance(n, ast.Call): return ast.unparse(n.func)
    return None


def decision_list(body):
    """[(list of (test_ast, polarity) that must hold, outcome)] in evaluation order; assignments that only rename the
    normalised string are tracked in `alias`"""
    out = []; alias = {}
    def walk(stmts, guards):
        neg = []          # tests of earlier sibling ifs that returned: must be false
        for st in stmts:
            if isinstance(st, ast.Assign) and len(st.targets) == 1 and isinstance(st.targets[0], ast.Name):
                alias[st.targets[0].id] = st.value; continue
            if isinstance(st, ast.If):
                inner = [x for x in st.body if isinstance(x, ast.If)]
                always_returns = any(isinstance(x, (ast.Return, ast.Raise)) for x in st.body) or (st.body and isinstance(st.body[-1], ast.If) and st.body[-1].orelse)
                g = guards + neg + [(st.test, True, st)]
                if inner and not any(isinstance(x, (ast.Return, ast.Raise)) for x in st.body if not isinstance(x, ast.If)):
                    walk([x for x in st.body if isinstance(x, (ast.If, ast.Return, ast.Raise))], g)
                    for x in st.body:
                        if isinstance(x, ast.If) and x.orelse: pass
                else:
                    out.append((g, outcome_of(st.body)))
                if st.orelse: out.append((guards + neg + [(st.test, False, st)], outcome_of(st.orelse)))
                neg.append((st.test, False, st))
                continue
            if isinstance(st, (ast.Return, ast.Raise)):
                out.append((guards + neg, outcome_of([st]))); return
            if isinstance(st, ast.Expr) and isinstance(st.value, ast.Constant): continue
            # anything else (a loop, a try, ...) can decide the outcome in ways this extraction does not follow: undecided, not a violation
            raise Unsupported(f'{type(st).__name__} statement at line {st.lineno} in the dispatch block')
    walk(body, [])
    return out, alias


class Translator:
    def __init__(self, table_keys):
        self.t = z3.String('s_lower'); self.s = z3.String('s')
        self.table = table_keys
        self.param = 'color'; self.alias = {}
        self.side = [z3.Contains(self.s, z3.StringVal(',')) == z3.Contains(self.t, z3.StringVal(',')), z3.Contains(self.s, z3.StringVal(' ')) == z3.Contains(self.t, z3.StringVal(' '))]
    def role(self, e, depth=0):
        """what a string expression denotes, by dataflow from the parameter (never by the spelling of a local):
        'raw' = the argument, 'stripped' = argument.strip(), 'lower' = the stripped text lower-cased"""
        if depth > 6: return None
        if isinstance(e, ast.Name):
            if e.id == self.param: return 'raw'
            if e.id in self.alias: return self.role(self.alias[e.id], depth + 1)
            return None
        if isinstance(e, ast.Call) and isinstance(e.func, ast.Attribute) and not e.args and not e.keywords:
            inner = self.role(e.func.value, depth + 1)
            if e.func.attr == 'strip' and inner in ('raw', 'stripped'): return 'stripped'
            if e.func.attr == 'strip' and inner == 'lower': return 'lower'
            if e.func.attr == 'lower' and inner in ('stripped', 'lower'): return 'lower'
        return None
    def var(self, e):
        r = self.role(e)
        if r == 'lower': return self.t
        if r == 'stripped': return self.s
        raise Unsupported(f'string expression {ast.unparse(e)}')
    def tr(self, e):
        if isinstance(e, ast.BoolOp):
            xs = [self.tr(v) for v in e.values]
            return z3.And(xs) if isinstance(e.op, ast.And) else z3.Or(xs)
        if isinstance(e, ast.UnaryOp) and isinstance(e.op, ast.Not): return z3.Not(self.tr(e.operand))
        if isinstance(e, ast.Compare) and len(e.ops) == 1 and isinstance(e.ops[0], ast.In):
            l, r = e.left, e.comparators[0]
            if isinstance(l, ast.Constant) and isinstance(l.value, str): return z3.Contains(self.var(r), z3.StringVal(l.value))
            if isinstance(r, ast.Name) and r.id == 'CSS_NAMED_COLORS':
                return z3.InRe(self.var(l), z3.Union(*[z3.Re(z3.StringVal(k)) for k in self.table]))
        if isinstance(e, ast.Call):
            f = ast.unparse(e.func)
            if isinstance(e.func, ast.Attribute) and e.func.attr == 'startswith' and isinstance(e.args[0], ast.Constant):
                return z3.PrefixOf(z3.StringVal(e.args[0].value), self.var(e.func.value))
            if isinstance(e.func, ast.Attribute) and e.func.attr == 'endswith' and isinstance(e.args[0], ast.Constant):
                return z3.SuffixOf(z3.StringVal(e.args[0].value), self.var(e.func.value))
            if f == 're.fullmatch' and isinstance(e.args[0], ast.Constant):
                return z3.InRe(self.var(e.args[1]), regex_to_z3(e.args[0].value))
        raise Unsupported(f'test {ast.unparse(e)}')


W = '[ \t\n]{0,2}'
NUM = r'(\+|-)?(\d{1,3}|\d{0,2}\.\d{1,3})'
CLASSES = {      # lower-cased cores of the CSS Color 3 classes (whitespace inside functions: up to 2 optional characters per slot)
    'hex-with-hash': r'#([0-9a-f]{3}|[0-9a-f]{6})',
    'hex-bare': r'[0-9a-f]{3}|[0-9a-f]{6}',
    'rgb()': rf'rgb\({W}{NUM}%?{W},{W}{NUM}%?{W},{W}{NUM}%?{W}\)',
    'rgba()': rf'rgba\({W}{NUM}%?{W},{W}{NUM}%?{W},{W}{NUM}%?{W},{W}{NUM}%?{W}\)',
    'hsl()': rf'hsl\({W}{NUM}{W},{W}{NUM}%{W},{W}{NUM}%{W}\)',
    'hsla()': rf'hsla\({W}{NUM}{W},{W}{NUM}%{W},{W}{NUM}%{W},{W}{NUM}%?{W}\)',
}


def class_regex(name):
    pat = CLASSES[name].replace('\\(', '\x00').replace('\\)', '\x01').replace('\\.', '\x02').replace('\\+', '\x03')
    # literal parens / dot / plus were written escaped: translate with placeholders, then substitute back as literal characters
    pat2 = CLASSES[name]
    return regex_literal(pat2)


def regex_literal(pat):
    """regex_to_z3 with backslash-escaped punctuation as literals"""
    return regex_to_z3(pat)


def lemmas(fn, table_keys, expected, bare_hex_excludes_keywords=True):
    """-> list of (name, status, detail); expected: class -> outcome the real function must reach"""
    body = str_block(fn)
    dl, alias = decision_list(body)
    tr = Translator(table_keys)
    tr.alias = alias; tr.param = fn.args.args[0].arg
    out = []
    kwre = z3.Union(*[z3.Re(z3.StringVal(k)) for k in table_keys])
    for cls, want in expected.items():
        dom = kwre if cls == 'named' else class_regex(cls)
        pre = [z3.InRe(tr.t, dom)] + tr.side
        if cls == 'hex-bare': pre.append(z3.Not(z3.InRe(tr.t, kwre)))
        # the branch reached: first entry whose guards all hold
        try:
            conds = []
            for guards, outcome in dl:
                gs = []; label = outcome
                for t, pol, node in guards:
                    try: c = tr.tr(t)
                    except Unsupported:
                        # a test on something other than the input string (e.g. the token list): the branch has been entered;
                        # it is named by the first call of the body of the last translatable test
                        prev = [n for tt, pp, n in guards[:guards.index((t, pol, node))] if pp]
                        label = first_call(prev[-1].body) if prev else outcome
                        break
                    gs.append(c if pol else z3.Not(c))
                conds.append((z3.And(gs) if gs else z3.BoolVal(True), label))
        except Unsupported as e:
            out.append((f'dispatch[{cls}]', None, f'untranslatable test: {e}')); continue
        goal = z3.Or([g for g, o in conds if o == want]) if any(o == want for g, o in conds) else z3.BoolVal(False)
        if cls.endswith('()'):
            # two-step proof for the functional notations: (1) every member of the class starts with its function name and
            # an opening parenthesis (regular-language inclusion), (2) any string with that prefix reaches the branch
            prefix = cls[:-1]
            summary = z3.PrefixOf(z3.StringVal(prefix), tr.t)
            s1 = z3.Solver(); s1.set('timeout', 20000); s1.add(z3.InRe(tr.t, dom), z3.Not(summary))
            r1 = s1.check()
            if r1 != z3.unsat:
                out.append((f'dispatch[{cls} -> {want}]', False if r1 == z3.sat else None, {'step': 'class members start with ' + prefix, 'result': str(r1)})); continue
            pre = [summary] + tr.side
        so = z3.Solver(); so.set('timeout', 5000)
        so.add(*pre); so.add(z3.Not(goal))
        r = so.check()
        detail = {'expected_branch': want, 'branches': sorted({str(o) for g, o in conds}), 'solver': 'z3'}
        verdict = True if r == z3.unsat else (False if r == z3.sat else None)
        if r == z3.sat:
            m = so.model(); detail['counterexample'] = str(m[tr.t])
        if verdict is None:
            from .smt import cvc5_check
            r2 = cvc5_check(so.to_smt2(), 60000, strings=True)
            detail['solver'] = f'cvc5 (z3: {so.reason_unknown()})'
            verdict = True if r2 == 'unsat' else (False if r2 == 'sat' else None)
            if verdict is None: detail['cvc5'] = r2
        out.append((f'dispatch[{cls} -> {want}]', verdict, detail))
    # no bare 3/6-hex-digit string is a keyword
    so = z3.Solver(); so.set('timeout', 20000)
    so.add(z3.InRe(tr.t, class_regex('hex-bare')), z3.InRe(tr.t, kwre))
    r = so.check()
    out.append(('lemma[no 3- or 6-hex-digit string is a colour keyword]', True if r == z3.unsat else (False if r == z3.sat else None), str(so.model()[tr.t]) if r == z3.sat else ''))
    return out
