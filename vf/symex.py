"""Engine A ('pyvc'): path-splitting symbolic execution of the real function ASTs against sidecar contracts.

* a callee that has a contract is NEVER inlined: its precondition becomes an obligation at the call site and
  its postconditions are assumed about a fresh (or pure-function-symbol) result;
* loops are cut by invariants supplied by the contract (entry / preservation obligations, havoc on exit);
* every construct the engine does not model raises Unsupported -> the check reports UNDECIDED (exit 2).
"""
from __future__ import annotations
import ast, math, os, sys
import z3
from .values import *
from . import values as _v


class Unsupported(Exception):
    pass


class Raised:
    """marker: evaluation of an expression raised `exc`"""
    def __init__(self, exc): self.exc = exc


EXC_PARENTS = {
    'BaseException': None, 'Exception': 'BaseException', 'ValueError': 'Exception', 'TypeError': 'Exception',
    'ZeroDivisionError': 'ArithmeticError', 'ArithmeticError': 'Exception', 'OverflowError': 'ArithmeticError',
    'IndexError': 'LookupError', 'KeyError': 'LookupError', 'LookupError': 'Exception', 'AttributeError': 'Exception',
    'OSError': 'Exception', 'UnicodeDecodeError': 'ValueError', 'UnboundLocalError': 'Exception',
    'Exception?': 'Exception',     # an unknown subclass of Exception (unmodelled call)
}


def exc_matches(typ, handler):
    """True / False / None(unknown)"""
    t = typ
    while t is not None:
        if t == handler: return True
        t = EXC_PARENTS.get(t)
    if typ == 'Exception?' and handler not in ('BaseException', 'Exception'):
        return None
    return False


class PC:
    """persistent path condition: a linked list of conjuncts with a cached nested-And term (one z3 node per fork)"""
    __slots__ = ('parent', 'cond', '_term', 'n')
    def __init__(self, parent=None, cond=None):
        self.parent, self.cond, self._term = parent, cond, None
        self.n = 0 if parent is None and cond is None else (parent.n if parent else 0) + 1
    @staticmethod
    def of(xs):
        if isinstance(xs, PC): return xs
        pc = PC()
        for x in xs: pc = PC(pc, x)
        return pc
    def __add__(self, xs):
        pc = self
        for x in xs: pc = PC(pc, x)
        return pc
    def __iter__(self):
        out = []; c = self
        while c is not None and c.cond is not None:
            out.append(c.cond); c = c.parent
        return iter(reversed(out))
    def __len__(self): return self.n
    def term(self):
        if self._term is None:
            if self.cond is None: self._term = z3.BoolVal(True)
            elif self.parent is None or self.parent.cond is None: self._term = self.cond
            else: self._term = z3.And(self.parent.term(), self.cond)
        return self._term


class Path:
    __slots__ = ('pc', 'env', 'heap', 'trace')
    def __init__(self, pc, env, heap=None, trace=()):
        self.pc, self.env, self.heap, self.trace = PC.of(pc), env, heap if heap is not None else {}, trace
    def fork(self, cond=None, note=None):
        pc = self.pc + [cond] if cond is not None else self.pc
        return Path(pc, dict(self.env), dict(self.heap), self.trace + ((note,) if note else ()))
    def with_env(self, env):
        return Path(self.pc, env, self.heap, self.trace)
    def set(self, name, v):
        self.env[name] = v
    # heap cells are replaced, never mutated in place (paths share them)
    def cell(self, oid): return self.heap[oid]
    def write(self, oid, key, val):
        c = dict(self.heap[oid]); c[key] = val; self.heap[oid] = c
    def alloc(self, cell):
        oid = next(_v._fresh); self.heap[oid] = cell; return oid


class Obligation:
    def __init__(self, name, pc, goal, kind='post', info=None):
        self.name, self.pc, self.goal, self.kind, self.info = name, pc, goal, kind, info or {}


class Exec:
    def __init__(self, prog, registry, S, opts=None):
        self.prog, self.reg, self.S = prog, registry, S
        self.opts = opts or {}
        self.obls = []
        self.assumptions = set()
        self.cur = None           # qualname under verification
        self.cur_contract = None
        self.depth = 0
        self.nfeas = 0
        S.ex = self

    # ------------------------------------------------------------------ solver helpers
    def feasible(self, pc):
        self.nfeas += 1
        so = z3.Solver(); so.set('timeout', self.opts.get('feas_timeout_ms', 10000))      # unknown counts as feasible (sound)
        so.add(PC.of(pc).term())
        if self.S.facts: so.add(*self.S.facts)
        return so.check() != z3.unsat

    def oblige(self, name, pc, goal, kind='post', **info):
        mark = info.pop('_mark', None)
        if mark is not None and len(self.S.pending) > mark: pc = PC.of(pc) + self.S.pending[mark:]
        self.obls.append(Obligation(f'{self.cur_short}/{name}', PC.of(pc), goal, kind, info))

    def assume_note(self, s):
        self.assumptions.add(s)

    # ------------------------------------------------------------------ outcomes of statements
    # (kind, path, value) kind in fall/ret/brk/cont/exc
    def block(self, stmts, p, fr):
        outs = [('fall', p, None)]
        for st in stmts:
            nxt = []
            for k, q, v in outs:
                if k != 'fall':
                    nxt.append((k, q, v)); continue
                nxt += self.stmt(st, q, fr)
            outs = nxt
            if not any(k == 'fall' for k, _, _ in outs):
                break
        return outs

    def _ev_stmt(self, e, p, fr, cont):
        """evaluate e; for normal results call cont(path, value)->outs; raised -> exc outcome"""
        outs = []
        for q, v in self.ev(e, p, fr):
            if isinstance(v, Raised): outs.append(('exc', q, v.exc))
            else: outs += cont(q, v)
        return outs

    def stmt(self, st, p, fr):
        mark = len(self.S.pending)
        outs = self._stmt(st, p, fr)
        new = self.S.pending[mark:]
        if new:
            seen = set()
            for k, q, v in outs:
                if id(q) in seen: continue
                seen.add(id(q)); q.pc = q.pc + new
        return outs

    def flush(self, q, mark):
        new = self.S.pending[mark:]
        if new: q.pc = q.pc + new

    def _stmt(self, st, p, fr):
        if isinstance(st, ast.Expr):
            if isinstance(st.value, ast.Constant): return [('fall', p, None)]
            return self._ev_stmt(st.value, p, fr, lambda q, v: [('fall', q, None)])
        if isinstance(st, ast.Pass): return [('fall', p, None)]
        if isinstance(st, ast.Return):
            if st.value is None: return [('ret', p, NONE)]
            rid = fr.ret_ids.get(id(st), 0)
            return self._ev_stmt(st.value, p, fr, lambda q, v: [('ret', q.fork(note=f'ret{rid}'), v)])
        if isinstance(st, ast.Continue): return [('cont', p, None)]
        if isinstance(st, ast.Break): return [('brk', p, None)]
        if isinstance(st, (ast.Import, ast.ImportFrom)):
            q = p.fork()
            tbl = {}
            fr.mod._scan_imports([st], tbl)
            for name, ref in tbl.items():
                q.env[name] = self.resolve_import(ref)
            return [('fall', q, None)]
        if isinstance(st, ast.Assign):
            def cont(q, v):
                outs = [(q.fork(), None)]
                for t in st.targets:
                    nxt = []
                    for q1, _ in outs:
                        nxt += self.bind(t, v, q1, fr)
                    outs = nxt
                return [('exc', q1, r.exc) if isinstance(r, Raised) else ('fall', q1, None) for q1, r in outs]
            return self._ev_stmt(st.value, p, fr, cont)
        if isinstance(st, ast.AnnAssign):
            if st.value is None: return [('fall', p, None)]
            def cont(q, v):
                return [('exc', q1, r.exc) if isinstance(r, Raised) else ('fall', q1, None) for q1, r in self.bind(st.target, v, q.fork(), fr)]
            return self._ev_stmt(st.value, p, fr, cont)
        if isinstance(st, ast.AugAssign):
            load = ast.copy_location(_as_load(st.target), st)
            e = ast.copy_location(ast.BinOp(left=load, op=st.op, right=st.value), st)
            def cont(q, v):
                return [('exc', q1, r.exc) if isinstance(r, Raised) else ('fall', q1, None) for q1, r in self.bind(st.target, v, q.fork(), fr)]
            return self._ev_stmt(e, p, fr, cont)
        if isinstance(st, ast.If):
            outs = []
            for q, c in self.ev_truth(st.test, p, fr):
                if isinstance(c, Raised): outs.append(('exc', q, c.exc)); continue
                for cond, body in ((c, st.body), (z3.Not(c), st.orelse)):
                    cond = z3.simplify(cond)
                    if z3.is_false(cond): continue
                    q2 = q.fork(None if z3.is_true(cond) else cond)
                    if not z3.is_true(cond) and not self.feasible(q2.pc): continue
                    # narrowing: variables tested by the condition lose the alternatives the branch excludes
                    for nm in {x.id for x in ast.walk(st.test) if isinstance(x, ast.Name)}:
                        v = q2.env.get(nm)
                        if isinstance(v, VAny) and len(v.alts) > 1: q2.env[nm] = self.narrow(q2, v)
                    outs += self.block(body, q2, fr)
            return outs
        if isinstance(st, ast.For): return self.forloop(st, p, fr)
        if isinstance(st, ast.Try): return self.trystmt(st, p, fr)
        if isinstance(st, ast.FunctionDef):
            q = p.fork()
            q.env[st.name] = VFunc(node=st, closure=q.env, mod=fr.mod)
            return [('fall', q, None)]
        if isinstance(st, ast.Raise):
            if st.exc is None:
                return [('exc', p, fr.handling or VExc('Exception?', where=st.lineno))]
            def cont(q, v):
                if isinstance(v, VExc): return [('exc', q, v)]
                if isinstance(v, VClass): return [('exc', q, VExc(v.builtin or v.qual, where=st.lineno))]
                return [('exc', q, VExc('Exception?', where=st.lineno))]
            return self._ev_stmt(st.exc, p, fr, cont)
        if isinstance(st, ast.With):
            return self.withstmt(st, p, fr)
        if isinstance(st, ast.Assert):
            return self._ev_stmt(st.test, p, fr, lambda q, v: [('fall', q, None)])
        raise Unsupported(f'statement {type(st).__name__} at {fr.mod.name}:{st.lineno}')

    def withstmt(self, st, p, fr):
        # context managers are only 'open(...)' in this code base; modelled by the effects engine, here opaque
        outs = [('fall', p, None)]
        for item in st.items:
            nxt = []
            for k, q, _ in outs:
                if k != 'fall': nxt.append((k, q, _)); continue
                for q1, v in self.ev(item.context_expr, q, fr):
                    if isinstance(v, Raised): nxt.append(('exc', q1, v.exc)); continue
                    if item.optional_vars is not None:
                        for q2, r in self.bind(item.optional_vars, v, q1.fork(), fr):
                            nxt.append(('exc', q2, r.exc) if isinstance(r, Raised) else ('fall', q2, None))
                    else: nxt.append(('fall', q1, None))
            outs = nxt
        res = []
        for k, q, v in outs:
            if k != 'fall': res.append((k, q, v)); continue
            res += self.block(st.body, q, fr)
        return res

    # ------------------------------------------------------------------ try / except
    def trystmt(self, st, p, fr):
        outs = []
        body_outs = self.block(st.body, p, fr)
        pending = []
        for k, q, v in body_outs:
            if k == 'exc': pending.append((q, v))
            elif k == 'fall' and st.orelse: outs += self.block(st.orelse, q, fr)
            else: outs.append((k, q, v))
        for q, exc in pending:
            handled_paths = [(q, None)]       # (path, still-unhandled flag)
            remaining = [q]
            for h in st.handlers:
                names = _handler_names(h)
                nxt_remaining = []
                for r in remaining:
                    m = True if names is None else _match_any(exc.typ, names)
                    if m is True:
                        outs += self.run_handler(h, r, exc, fr)
                    elif m is None:
                        outs += self.run_handler(h, r.fork(), exc, fr)
                        nxt_remaining.append(r)
                    else:
                        nxt_remaining.append(r)
                remaining = nxt_remaining
                if not remaining: break
            for r in remaining:
                outs.append(('exc', r, exc))
        if st.finalbody:
            fin = []
            for k, q, v in outs:
                for k2, q2, v2 in self.block(st.finalbody, q, fr):
                    fin.append((k, q2, v) if k2 == 'fall' else (k2, q2, v2))
            outs = fin
        return outs

    def run_handler(self, h, p, exc, fr):
        q = p.fork(note=f'except@{h.lineno}[{getattr(exc, "typ", "?")}@L{getattr(exc, "where", "?")}]')
        if h.name: q.env[h.name] = exc
        old = fr.handling; fr.handling = exc
        try:
            return self.block(h.body, q, fr)
        finally:
            fr.handling = old

    # ------------------------------------------------------------------ assignment targets
    def bind(self, t, v, p, fr):
        """-> list[(path, None|Raised)]; mutates p (callers pass a fork)"""
        if isinstance(t, ast.Name):
            p.env[t.id] = v; return [(p, None)]
        if isinstance(t, (ast.Tuple, ast.List)):
            n = len(t.elts)
            if isinstance(v, VAny):
                outs = []
                for q, d in self.split_opt(p, v): outs += self.bind(t, d, q, fr)
                return outs
            if isinstance(v, VOpt):
                outs = []
                q1 = p.fork(v.isnone)
                if self.feasible(q1.pc): outs.append((q1, Raised(VExc('TypeError', where=t.lineno))))
                q2 = p.fork(z3.Not(v.isnone))
                if self.feasible(q2.pc): outs += self.bind(t, v.inner, q2, fr)
                return outs
            if isinstance(v, VUnk):
                outs = []
                for x in t.elts:
                    self.bind(x, VUnk('unpack'), p, fr)
                outs.append((p, None))
                if self.opts.get('unk_raises', True):
                    outs.append((p.fork(), Raised(VExc('Exception?', where=t.lineno))))
                return outs
            items = self.items_of(v, p)
            if items is None:
                if isinstance(v, (VNone, VInt, VReal, VBool)):
                    return [(p, Raised(VExc('TypeError', where=t.lineno)))]
                raise Unsupported(f'unpack of {v!r} at line {t.lineno}')
            if len(items) != n:
                return [(p, Raised(VExc('ValueError', where=t.lineno)))]
            outs = [(p, None)]
            for x, y in zip(t.elts, items):
                nxt = []
                for q, r in outs:
                    if isinstance(r, Raised): nxt.append((q, r)); continue
                    nxt += self.bind(x, y, q, fr)
                outs = nxt
            return outs
        if isinstance(t, ast.Attribute):
            outs = []
            for q, o in self.ev(t.value, p, fr):
                if isinstance(o, Raised): outs.append((q, o)); continue
                if isinstance(o, VRef):
                    q2 = q.fork(); q2.write(o.oid, t.attr, v); outs.append((q2, None))
                elif isinstance(o, VUnk):
                    outs.append((q, None))
                else: raise Unsupported(f'attribute store on {o!r} at line {t.lineno}')
            return outs
        if isinstance(t, ast.Subscript):
            outs = []
            for q, o in self.ev(t.value, p, fr):
                if isinstance(o, Raised): outs.append((q, o)); continue
                for q1, ix in self.ev(t.slice, q, fr):
                    if isinstance(ix, Raised): outs.append((q1, ix)); continue
                    if isinstance(o, VUnk) or isinstance(ix, VUnk):
                        outs.append((q1, None))
                        if self.opts.get('unk_raises', True):
                            outs.append((q1.fork(), Raised(VExc('Exception?', where=t.lineno))))
                        continue
                    if isinstance(o, VRef) and o.cls == 'list':
                        items = q1.cell(o.oid).get('items')
                        i = _const_int(ix)
                        if items is None or i is None: raise Unsupported(f'symbolic list store at line {t.lineno}')
                        if not (-len(items) <= i < len(items)):
                            outs.append((q1, Raised(VExc('IndexError', where=t.lineno)))); continue
                        q2 = q1.fork(); new = list(items); new[i] = v; q2.write(o.oid, 'items', new)
                        outs.append((q2, None)); continue
                    if isinstance(o, VRef) and o.cls == 'dict':
                        key = _const_key(ix)
                        if key is None: raise Unsupported(f'symbolic dict key store at line {t.lineno}')
                        q2 = q1.fork(); d = dict(q2.cell(o.oid).get('map', {})); d[key] = v; q2.write(o.oid, 'map', d)
                        if q2.cell(o.oid).get('open'): q2.write(o.oid, 'ver', q2.cell(o.oid).get('ver', 0) + 1)
                        outs.append((q2, None)); continue
                    raise Unsupported(f'subscript store on {o!r} at line {t.lineno}')
            return outs
        raise Unsupported(f'assignment target {type(t).__name__}')

    def items_of(self, v, p):
        if isinstance(v, VTuple): return v.xs
        if isinstance(v, VRef) and v.cls == 'list': return p.cell(v.oid).get('items')
        return None

    # ------------------------------------------------------------------ loops
    def forloop(self, st, p, fr):
        outs = []
        for q0, it0 in self.ev(st.iter, p, fr):
            for q, it in (self.split_opt(q0, it0) if isinstance(it0, (VAny, VOpt)) else [(q0, it0)]):
                if isinstance(it, Raised): outs.append(('exc', q, it.exc)); continue
                if isinstance(it, (VNone, VInt, VReal, VBool, VSpec)): outs.append(('exc', q, VExc('TypeError', where=st.lineno))); continue
                outs += self.forloop_on(st, q, it, fr)
        return outs

    def forloop_on(self, st, p, it, fr):
        hdr = ast.unparse(st.iter)
        spec = fr.loop_spec(st, hdr)
        S = self.S
        # --- what is being iterated
        if isinstance(it, VUnk):
            if spec is None: raise Unsupported(f'loop over unknown iterable without invariant at line {st.lineno}')
            mk_elem = lambda k: (VUnk('elem'), [])
            length = None
        elif isinstance(it, VRef) and it.cls == 'list' and p.cell(it.oid).get('objlist') and spec is not None and spec.elem is not None:
            # a list of opaque objects of symbolic length: the contract describes the k-th element (fields as functions of the index)
            cell = p.cell(it.oid)
            mk_elem = lambda k, path: spec.elem(S, k, self, cell, path)
            length = cell['len']
        elif isinstance(it, VRange):
            mk_elem = lambda k: (VInt(k), [k < it.n.t])
            length = it.n.t
        elif isinstance(it, VSymSeq):
            def mk_elem(k):
                e = fresh(R, 'tol'); return VReal(e), [e <= it.maxof]
            length = None
        elif isinstance(it, VEnum):
            items = self.items_of(it.inner, p)
            if items is not None and spec is None:
                return self.unroll(st, p, [VTuple([VInt(i + it.start), x]) for i, x in enumerate(items)], fr)
            if spec is None: raise Unsupported(f'enumerate loop without invariant at line {st.lineno}')
            mk_elem = lambda k: [(VTuple([VInt(k + it.start), e]), f) for e, f in _alts(spec.elem(S, k))]
            cell = p.cell(it.inner.oid) if isinstance(it.inner, VRef) else {}
            length = cell.get('len')
        else:
            items = self.items_of(it, p)
            if items is None: raise Unsupported(f'loop over {it!r} at line {st.lineno}')
            if spec is None:
                if len(items) > 8: raise Unsupported(f'loop over {len(items)} items without invariant at line {st.lineno}')
                return self.unroll(st, p, items, fr)
            if not all(isinstance(x, (VReal, VInt)) for x in items) or not items:
                raise Unsupported(f'invariant loop over non-numeric list at line {st.lineno}')
            def mk_elem(k):
                e = fresh(R, 'el'); return VReal(e), [z3.Or([e == num(x) for x in items])]
            length = z3.IntVal(len(items))
        # --- 1. invariant on entry
        ns0 = Namespace(p.env, p)
        zero = z3.IntVal(0)
        for lab, g in _inv_parts(spec.inv(S, fr.argns, ns0, zero)):
            self.oblige(f'loop[{hdr}]/inv_entry:{lab}', p.pc, g, kind='loop', label=lab)
        assigned = _assigned_names(st)
        appended = _appended_names(st)
        stored = _stored_bases(st)      # objects written through a subscript / attribute store inside the loop body
        def havoc(base):
            q = base.fork()
            for nme in stored:
                if nme is None: raise Unsupported(f'store through a computed object inside an invariant loop at line {st.lineno}')
                v = q.env.get(nme)
                if isinstance(v, VUnk) or v is None: continue
                if not isinstance(v, VRef): raise Unsupported(f'store into {v!r} inside an invariant loop at line {st.lineno}')
                cell = dict(q.heap[v.oid])
                if v.cls == 'dict':
                    cell['map'] = {k2: (self.fresh_value(q, shape_of(x), f'{nme}[{k2}]') if shape_of(x) != 'unk' else VUnk(f'{nme}[{k2}]')) for k2, x in cell.get('map', {}).items()}
                elif v.cls == 'list':
                    if 'items' in cell: cell['items'] = [(self.fresh_value(q, shape_of(x), nme) if shape_of(x) != 'unk' else VUnk(nme)) for x in cell['items']]
                else:
                    for f2, x in list(cell.items()):
                        if f2.startswith('__'): continue
                        cell[f2] = self.fresh_value(q, shape_of(x), f'{nme}.{f2}') if shape_of(x) != 'unk' else VUnk(f'{nme}.{f2}')
                q.heap[v.oid] = cell
            for nme in appended:
                v = q.env.get(nme)
                if isinstance(v, VRef) and v.cls == 'list':
                    L = fresh(I, nme + '_len')
                    q.heap[v.oid] = {'len': L, 'log': [], 'havocked': True}
                    q.pc = q.pc + [L >= 0]
            for nme in assigned:
                if ROLE_REV.get(nme, nme) in spec.shapes: q.env[nme] = self.fresh_value(q, spec.shapes[ROLE_REV.get(nme, nme)], nme)
                elif nme in q.env and not isinstance(q.env[nme], (VFunc, VClass)):
                    sh = shape_of(q.env[nme])
                    q.env[nme] = self.fresh_value(q, sh, nme) if sh != 'unk' else VUnk(nme)
                else: q.env.pop(nme, None)
            return q
        # --- 2. arbitrary iteration
        k = fresh(I, 'iter')
        q = havoc(p)
        alts = mk_elem(k, q) if (isinstance(it, VRef) and p.cell(it.oid).get('objlist')) else mk_elem(k)
        if not isinstance(alts, list): alts = [alts]
        q0 = q
        q0.pc = q0.pc + [k >= 0] + ([k < length] if length is not None and (isinstance(it, VEnum) or (isinstance(it, VRef) and p.cell(it.oid).get('objlist'))) else []) + [g for _, g in _inv_parts(spec.inv(S, fr.argns, Namespace(q0.env, q0), k))]
        outs = []
        for elem, facts in alts:
            q = q0.fork(); q.pc = q.pc + facts
            if not self.feasible(q.pc): continue
            bres = self.bind(st.target, elem, q, fr)
            for q1, r in bres:
                if isinstance(r, Raised): outs.append(('exc', q1, r.exc)); continue
                for kind, r2, v in self.block(st.body, q1, fr):
                    if kind in ('fall', 'cont'):
                        for lab, g in _inv_parts(spec.inv(S, fr.argns, Namespace(r2.env, r2), k + 1)):
                            self.oblige(f'loop[{hdr}]/inv_preserved:{lab}', r2.pc, g, kind='loop', label=lab, trace=r2.trace)
                        if spec.body_post is not None:
                            mark = len(S.pending)
                            for lab, g in _inv_parts(spec.body_post(S, fr.argns, Namespace(r2.env, r2), k, elem)):
                                self.oblige(f'loop[{hdr}]/each_iteration:{lab}', r2.pc, g, kind='loop', label=lab, trace=r2.trace, _mark=mark)
                    elif kind == 'brk':
                        outs.append(('fall', r2, None))
                    else:
                        outs.append((kind, r2, v))
        # --- 3. exit after n iterations
        n = fresh(I, 'n')
        q = havoc(p)
        q.pc = q.pc + [n >= 0] + ([n == z3.If(length >= 0, length, 0)] if length is not None else []) + [g for _, g in _inv_parts(spec.inv(S, fr.argns, Namespace(q.env, q), n))]
        if self.feasible(q.pc):
            if st.orelse: outs += self.block(st.orelse, q, fr)
            else: outs.append(('fall', q, None))
        return outs

    def unroll(self, st, p, items, fr):
        outs = []
        live = [p]
        for x in items:
            nxt = []
            for q in live:
                for q1, r in self.bind(st.target, x, q.fork(), fr):
                    if isinstance(r, Raised): outs.append(('exc', q1, r.exc)); continue
                    for kind, r2, v in self.block(st.body, q1, fr):
                        if kind in ('fall', 'cont'): nxt.append(r2)
                        elif kind == 'brk': outs.append(('fall', r2, None))
                        else: outs.append((kind, r2, v))
            live = nxt
        for q in live:
            if st.orelse: outs += self.block(st.orelse, q, fr)
            else: outs.append(('fall', q, None))
        return outs

    # ------------------------------------------------------------------ values
    def fresh_value(self, p, shape, name='h'):
        if isinstance(shape, tuple) and shape[0] == 'obj':
            cell = {'__class__': shape[1], '__open__': True}
            for f, s in shape[2].items(): cell[f] = self.fresh_value(p, s, f'{name}.{f}')
            return VRef(p.alloc(cell), shape[1])
        if isinstance(shape, tuple) and shape[0] == 'tuple':
            return VTuple([self.fresh_value(p, s, name) for s in shape[1]])
        if isinstance(shape, tuple) and shape[0] == 'opt':
            return VOpt(fresh(B, name + '_isnone'), self.fresh_value(p, shape[1], name))
        if shape == 'rgbstr':
            t = fresh_of('rgb', name); return self.S.mk_rgbstr(t)
        if isinstance(shape, tuple) and shape[0] == 'list':
            return VRef(p.alloc({'items': [self.fresh_value(p, s, name) for s in shape[1]]}), 'list')
        return fresh_of(shape, name)

    def new_list(self, p, items):
        return VRef(p.alloc({'items': list(items)}), 'list')

    def new_symlist(self, p, name='lst', min_len=0, length=None):
        """a list of str whose length is symbolic (token lists, split results); elements are ELEM(code, i)"""
        L = length if length is not None else fresh(I, name + '_len')
        if length is None: p.pc = p.pc + [L >= min_len]
        return VRef(p.alloc({'len': L, 'elem': 'str', 'code': fresh(I, name + '_id')}), 'list')

    def symlist_elem(self, cell, i):
        return VStr(code=self.S.app('ELEM', [cell['code'], i if z3.is_expr(i) else z3.IntVal(i)], I))

    def new_dict(self, p, mp):
        return VRef(p.alloc({'map': dict(mp)}), 'dict')

    # ------------------------------------------------------------------ truthiness
    def truth(self, v, p):
        """-> z3 Bool (may need the path for heap access)"""
        if isinstance(v, VBool): return v.t
        if isinstance(v, VNone): return z3.BoolVal(False)
        if isinstance(v, VInt): return v.t != 0
        if isinstance(v, VReal): return v.t != 0
        if isinstance(v, VTuple): return z3.BoolVal(len(v.xs) > 0)
        if isinstance(v, VOpt): return z3.And(z3.Not(v.isnone), self.truth(v.inner, p))
        if isinstance(v, VAny): return z3.Or([z3.And(c, self.truth(x, p)) for c, x in v.alts])
        if isinstance(v, VSpec): return z3.BoolVal(True)
        if isinstance(v, VStr): return self.S.str_nonempty(v)
        if isinstance(v, VRef):
            if v.cls == 'list':
                items = p.cell(v.oid).get('items')
                if items is not None: return z3.BoolVal(len(items) > 0)
                ln = p.cell(v.oid).get('len')
                if ln is not None: return ln > 0
            if v.cls == 'dict':
                mp = p.cell(v.oid).get('map')
                if mp is not None and not p.cell(v.oid).get('open'): return z3.BoolVal(len(mp) > 0)
                return fresh(B, 'dict_truth')
            return z3.BoolVal(True)           # instances of repo classes define no __bool__/__len__
        if isinstance(v, VSymSeq): return fresh(B, 'seq_nonempty')
        if isinstance(v, (VFunc, VClass, VModule)): return z3.BoolVal(True)
        if isinstance(v, VUnk): return fresh(B, 'unk_truth')
        if isinstance(v, VExc): return z3.BoolVal(True)
        raise Unsupported(f'truth of {v!r}')

    def ev_truth(self, e, p, fr):
        """-> list[(path, z3 Bool | Raised)]"""
        out = []
        for q, v in self.ev(e, p, fr):
            out.append((q, v if isinstance(v, Raised) else self.truth(v, q)))
        return out

    # ------------------------------------------------------------------ name resolution
    def resolve_import(self, ref):
        if ref[0] == 'mod':
            return VModule(ref[1])
        _, modname, sym = ref
        if modname in self.prog.modules:
            m = self.prog.modules[modname]
            if sym in m.funcs: return VFunc(qual=f'{modname}:{sym}')
            if sym in m.classes: return VClass(qual=f'{modname}:{sym}')
            if sym in m.consts: return self.module_const(m, sym)
            if sym in m.imports: return self.resolve_import(m.imports[sym])
            raise Unsupported(f'import of {sym} from {modname}')
        if modname + '.' + sym in self.prog.modules:
            return VModule(modname + '.' + sym)
        return VUnk(f'{modname}.{sym}')

    def module_const(self, m, name):
        e = m.consts[name]
        try:
            val = ast.literal_eval(e)
        except Exception:
            if isinstance(e, ast.Call):       # e.g. re.compile(...): an opaque immutable object
                return VGlobal(f'{m.name}:{name}')
            self.assume_note(f'module-level value {m.name}.{name} is not a literal: treated as unknown')
            return VUnk(f'global {name}')
        if isinstance(val, (dict, list, set)):
            if not self.prog.global_is_frozen(name):
                self.assume_note(f'module-level container {m.name}.{name} is mutated somewhere in the package: its content is unknown at call time')
                return VUnk(f'mutable global {name}')
            if isinstance(val, dict): return VGlobal(f'{m.name}:{name}', pyval=val)
            return VTuple([self.lift_const(x) for x in val]) if isinstance(val, list) else VGlobal(f'{m.name}:{name}', pyval=val)
        return self.lift_const(val)

    def lift_const(self, c):
        if c is None: return NONE
        if isinstance(c, bool): return VBool(c)
        if isinstance(c, int): return VInt(c)
        if isinstance(c, float): return VReal(c)
        if isinstance(c, str): return VStr(lit=c)
        if isinstance(c, tuple): return VTuple([self.lift_const(x) for x in c])
        raise Unsupported(f'constant {c!r}')

    BUILTIN_NAMES = {'float', 'int', 'round', 'abs', 'max', 'min', 'len', 'isinstance', 'str', 'all', 'any', 'tuple',
                     'list', 'range', 'enumerate', 'pow', 'print', 'map', 'type', 'bool', 'set', 'open', 'id', 'dict', 'sorted', 'zip', 'repr'}
    BUILTIN_CLASSES = {'int', 'float', 'str', 'bool', 'tuple', 'list', 'dict', 'set', 'type'}

    def lookup(self, name, p, fr):
        if name in p.env: return p.env[name]
        c = fr.closure
        while c is not None:
            if name in c.env: return c.env[name]
            c = c.parent
        m = fr.mod
        if name in m.funcs and '.' not in name: return VFunc(qual=f'{m.name}:{name}')
        if name in m.classes: return VClass(qual=f'{m.name}:{name}')
        if name in m.imports: return self.resolve_import(m.imports[name])
        if name in m.consts: return self.module_const(m, name)
        if name in EXC_PARENTS: return VClass(builtin=name)
        if name in self.BUILTIN_NAMES:
            return VClass(builtin=name) if name in self.BUILTIN_CLASSES else VFunc(builtin=name)
        raise Unsupported(f'name {name} (unbound?) in {fr.qual}')

    # ------------------------------------------------------------------ expressions
    def evmany(self, es, p, fr):
        """-> list[(path, [values] | Raised)]"""
        outs = [(p, [])]
        for e in es:
            nxt = []
            for q, vs in outs:
                if isinstance(vs, Raised): nxt.append((q, vs)); continue
                for q2, v in self.ev(e, q, fr):
                    nxt.append((q2, v if isinstance(v, Raised) else vs + [v]))
            outs = nxt
        return outs

    def lift_alts(self, p, vals, fn):
        """apply fn(path, definite values) over the alternatives of the VAny members of `vals` WITHOUT splitting the path
        for alternatives on which fn yields one non-raising result on the same path: those are merged into one VAny
        result; the others (raising / forking) get their own paths.  -> list[(path, value|Raised)]"""
        idx = [i for i, v in enumerate(vals) if isinstance(v, VAny)]
        if not idx: return fn(p, vals)
        combos = [(z3.BoolVal(True), list(vals))]
        for i in idx:
            combos = [(z3.simplify(z3.And(c, ca)), vs[:i] + [va] + vs[i + 1:]) for c, vs in combos for ca, va in vals[i].alts]
        merged = []; outs = []
        for cond, vs in combos:
            if z3.is_false(cond): continue
            if len(combos) > 2 and not self.feasible(p.pc + [cond]): continue      # alternative already excluded on this path
            if any(isinstance(x, VAny) for x in vs):       # nested alternatives: resolve by splitting
                q = p.fork(cond)
                if self.feasible(q.pc): outs += self.lift_alts(q, vs, fn)
                continue
            res = fn(p, vs)
            # every non-raising result whose path only ADDS conditions to p (same heap) is merged under those conditions;
            # raising results keep their own path
            ok = True; pieces = []; raising = []
            for q1, r in res:
                extra = _pc_suffix(p.pc, q1.pc)
                if extra is None or (q1.heap is not p.heap and q1.heap != p.heap): ok = False; break
                if isinstance(r, Raised): raising.append((extra, r))
                else: pieces.append((extra, r))
            if ok:
                for extra, r in pieces:
                    c2 = z3.And([cond] + extra) if extra else cond
                    if isinstance(r, VAny): merged += [(z3.And(c2, c3), v3) for c3, v3 in r.alts]
                    else: merged.append((c2, r))
                for extra, r in raising:
                    q = p.fork(z3.And([cond] + extra) if extra else cond)
                    if self.feasible(q.pc): outs.append((q, r))
            else:
                q = p.fork(cond)
                if self.feasible(q.pc): outs += fn(q, vs)
        if merged:
            q = p.fork(z3.Or([c for c, _ in merged]))
            if self.feasible(q.pc):
                merged = coalesce(merged)
                outs.append((q, merged[0][1] if len(merged) == 1 else VAny(merged)))
        return outs

    def narrow(self, p, v):
        """drop the alternatives of a VAny that the path condition excludes"""
        if not isinstance(v, VAny): return v
        keep = coalesce([(c, x) for c, x in v.alts if self.feasible(p.pc + [c])])
        if len(keep) == 1: return keep[0][1]
        return VAny(keep) if keep else v

    def split_opt(self, p, v):
        """resolve VOpt / VAny into definite alternatives (path split)"""
        if isinstance(v, VAny):
            outs = []
            for cond, val in v.alts:
                q = p.fork(cond)
                if self.feasible(q.pc): outs += self.split_opt(q, val)
            return outs
        if not isinstance(v, VOpt): return [(p, v)]
        outs = []
        q1 = p.fork(v.isnone)
        if self.feasible(q1.pc): outs.append((q1, NONE))
        q2 = p.fork(z3.Not(v.isnone))
        if self.feasible(q2.pc): outs += self.split_opt(q2, v.inner)
        return outs

    def ev(self, e, p, fr):
        if isinstance(e, ast.Constant):
            return [(p, self.lift_const(e.value))]
        if isinstance(e, ast.Name):
            try:
                v = self.lookup(e.id, p, fr)
            except Unsupported:
                if e.id in fr.local_names:       # a local that is not bound on this path: CPython raises UnboundLocalError
                    return [(p, Raised(VExc('UnboundLocalError', where=e.lineno)))]
                raise
            if isinstance(v, VOpt) and e.id in p.env:
                outs = []
                for q, d in self.split_opt(p, v):
                    q.env[e.id] = d; outs.append((q, d))
                return outs
            return [(p, v)]
        if isinstance(e, ast.Tuple):
            return [(q, vs if isinstance(vs, Raised) else VTuple(vs)) for q, vs in self.evmany(e.elts, p, fr)]
        if isinstance(e, ast.List):
            outs = []
            for q, vs in self.evmany(e.elts, p, fr):
                if isinstance(vs, Raised): outs.append((q, vs)); continue
                q2 = q.fork(); outs.append((q2, self.new_list(q2, vs)))
            return outs
        if isinstance(e, ast.Dict):
            outs = []
            for q, ks in self.evmany([k for k in e.keys], p, fr):
                if isinstance(ks, Raised): outs.append((q, ks)); continue
                for q1, vs in self.evmany(e.values, q, fr):
                    if isinstance(vs, Raised): outs.append((q1, vs)); continue
                    keys = [_const_key(k) for k in ks]
                    if any(k is None for k in keys): raise Unsupported(f'dict display with symbolic key at line {e.lineno}')
                    q2 = q1.fork(); outs.append((q2, self.new_dict(q2, dict(zip(keys, vs)))))
            return outs
        if isinstance(e, ast.IfExp):
            outs = []
            for q, c in self.ev_truth(e.test, p, fr):
                if isinstance(c, Raised): outs.append((q, c)); continue
                for cond, br in ((c, e.body), (z3.Not(c), e.orelse)):
                    cond = z3.simplify(cond)
                    if z3.is_false(cond): continue
                    q2 = q.fork(None if z3.is_true(cond) else cond)
                    if z3.is_true(cond) or self.feasible(q2.pc): outs += self.ev(br, q2, fr)
            return outs
        if isinstance(e, ast.BoolOp):
            merged = self.boolop_merged(e, p, fr)
            if merged is not None: return merged
            def go(vals, q):
                outs = []
                for q1, v in self.ev(vals[0], q, fr):
                    if isinstance(v, Raised) or len(vals) == 1: outs.append((q1, v)); continue
                    c = z3.simplify(self.truth(v, q1))
                    stop = z3.simplify(z3.Not(c)) if isinstance(e.op, ast.And) else c
                    if not z3.is_false(stop):
                        qa = q1.fork(None if z3.is_true(stop) else stop)
                        if z3.is_true(stop) or self.feasible(qa.pc): outs.append((qa, v))
                    if not z3.is_true(stop):
                        qb = q1.fork(None if z3.is_false(stop) else z3.Not(stop))
                        if z3.is_false(stop) or self.feasible(qb.pc): outs += go(vals[1:], qb)
                return outs
            return go(e.values, p)
        if isinstance(e, ast.UnaryOp):
            outs = []
            for q, v in self.ev(e.operand, p, fr):
                if isinstance(v, Raised): outs.append((q, v)); continue
                if isinstance(e.op, ast.Not): outs.append((q, VBool(z3.Not(self.truth(v, q)))))
                elif isinstance(v, VUnk): outs.append((q, VUnk('unary')))
                elif isinstance(e.op, ast.USub):
                    if isinstance(v, VInt): outs.append((q, VInt(-v.t)))
                    elif isinstance(v, VBool): outs.append((q, VInt(-z3.If(v.t, 1, 0))))
                    elif isinstance(v, VReal): outs.append((q, VReal(-v.t)))
                    else: outs.append((q, Raised(VExc('TypeError', where=e.lineno))))
                elif isinstance(e.op, ast.UAdd):
                    if is_num(v): outs.append((q, v))
                    else: outs.append((q, Raised(VExc('TypeError', where=e.lineno))))
                else: raise Unsupported('unary op')
            return outs
        if isinstance(e, ast.Compare): return self.ev_compare(e, p, fr)
        if isinstance(e, ast.BinOp):
            outs = []
            for q, vs in self.evmany([e.left, e.right], p, fr):
                if isinstance(vs, Raised): outs.append((q, vs)); continue
                outs += self.binop(e.op, vs[0], vs[1], q, e)
            return outs
        if isinstance(e, ast.Subscript): return self.ev_subscript(e, p, fr)
        if isinstance(e, ast.Attribute): return self.ev_attribute(e, p, fr)
        if isinstance(e, ast.Call): return self.ev_call(e, p, fr)
        if isinstance(e, ast.JoinedStr):
            parts = [x.value if isinstance(x, ast.FormattedValue) else x for x in e.values]
            outs = []
            for q, vs in self.evmany(parts, p, fr):
                if isinstance(vs, Raised): outs.append((q, vs)); continue
                outs.append((q, self.S.mk_fstr(vs, [x for x in e.values])))
            return outs
        if isinstance(e, (ast.ListComp, ast.GeneratorExp)): return self.ev_comp(e, p, fr)
        if isinstance(e, ast.Lambda):
            fd = ast.FunctionDef(name='<lambda>', args=e.args, body=[ast.Return(value=e.body, lineno=e.lineno, col_offset=0)], decorator_list=[], lineno=e.lineno, col_offset=0)
            return [(p, VFunc(node=fd, closure=p.env, mod=fr.mod))]
        if isinstance(e, ast.Slice):
            raise Unsupported('bare slice')
        raise Unsupported(f'expression {type(e).__name__} at line {getattr(e, "lineno", "?")}')

    def boolop_merged(self, e, p, fr):
        """`a and b` / `a or b` WITHOUT a path split when every operand evaluates, under the assumption that the
        previous ones did not short-circuit, to a single boolean that cannot raise: the value is the conjunction /
        disjunction itself.  Returns None when that shape does not apply (the caller then splits paths)."""
        if not all(isinstance(v, (ast.Compare, ast.Call, ast.Name, ast.UnaryOp, ast.BoolOp)) for v in e.values): return None
        acc = []; q = p
        mark = len(self.obls)
        for i, ve in enumerate(e.values):
            res = self.ev(ve, q, fr)
            if len(res) != 1 or isinstance(res[0][1], Raised) or not isinstance(res[0][1], VBool):
                if os.environ.get('DBG_MERGE'): print('MERGEFAIL', i, ast.unparse(ve)[:40], [(type(v).__name__, getattr(getattr(v,'exc',None),'typ',None)) for _, v in res][:4], file=sys.stderr)
                del self.obls[mark:]
                return None
            q1, v = res[0]
            # any condition the evaluation added must be implied by the assumptions (it is then no restriction)
            extra = list(q1.pc)[len(q.pc):] if len(q1.pc) >= len(q.pc) else None
            if extra is None: del self.obls[mark:]; return None
            if extra and self.feasible(q.pc + [z3.Not(z3.And(extra))]):
                del self.obls[mark:]; return None
            if q1.heap is not q.heap and q1.heap != q.heap: del self.obls[mark:]; return None
            acc.append(v.t)
            if i + 1 < len(e.values):
                cont = z3.simplify(v.t if isinstance(e.op, ast.And) else z3.Not(v.t))
                if z3.is_false(cont): break             # short-circuits here on every path: the rest is never evaluated
                q = Path(q.pc + [cont], q.env, q.heap, q.trace)
                if not z3.is_true(cont) and not self.feasible(q.pc): break
        t = z3.And(acc) if isinstance(e.op, ast.And) else z3.Or(acc)
        return [(p, VBool(t))]

    def ev_comp(self, e, p, fr):
        if len(e.generators) != 1 or e.generators[0].is_async: raise Unsupported('comprehension shape')
        g = e.generators[0]
        outs = []
        its = []
        for q, it in self.ev(g.iter, p, fr):
            if isinstance(it, (VAny, VOpt)): its += self.split_opt(q, it)
            else: its.append((q, it))
        for q, it in its:
            if isinstance(it, Raised): outs.append((q, it)); continue
            if isinstance(it, (VNone, VInt, VReal, VBool, VSpec)):
                outs.append((q, Raised(VExc('TypeError', where=e.lineno)))); continue
            if isinstance(it, VUnk):
                outs.append((q, VUnk('comp')))
                if self.opts.get('unk_raises', True): outs.append((q.fork(), Raised(VExc('Exception?', where=e.lineno))))
                continue
            items = self.items_of(it, q)
            symbolic = (isinstance(it, VRef) and it.cls == 'list' and items is None and 'len' in q.cell(it.oid)) or (isinstance(it, VStr) and it.lit is None)
            if isinstance(it, VStr) and it.lit is not None: items = [VStr(lit=ch) for ch in it.lit]
            if symbolic:
                # one symbolic element stands for every element: the element expression and the filters are evaluated once
                # (collecting what they can raise); the result is a symbolic list / generator
                saved = {n.id: q.env.get(n.id) for n in ast.walk(g.target) if isinstance(n, ast.Name)}
                L = q.cell(it.oid)['len'] if isinstance(it, VRef) else self.S.str_len(it)
                q1 = q.fork()
                for q2, r in self.bind(g.target, VStr(code=fresh(I, 'elem')), q1, fr):
                    if isinstance(r, Raised): outs.append((q2, r)); continue
                    live = [q2]
                    for c in g.ifs:
                        nl = []
                        for q3 in live:
                            for q4, t in self.ev_truth(c, q3, fr):
                                if isinstance(t, Raised): outs.append((q4, t))
                                else: nl.append(q4)
                        live = nl
                    done = False
                    for q3 in live:
                        for q4, v in self.ev(e.elt, q3, fr):
                            if isinstance(v, Raised): outs.append((q4, v)); continue
                            if done: continue
                            done = True
                            q5 = Path(q.pc, dict(q.env), dict(q4.heap), q.trace)
                            self.flush(q5, 0) if False else None
                            for n, old in saved.items():
                                if old is None: q5.env.pop(n, None)
                                else: q5.env[n] = old
                            if isinstance(e, ast.ListComp):
                                if g.ifs:
                                    L2 = fresh(I, 'filtered_len'); q5.pc = q5.pc + [L2 >= 0, L2 <= L]
                                    outs.append((q5, self.new_symlist(q5, 'comp', length=L2)))
                                else: outs.append((q5, self.new_symlist(q5, 'comp', length=L)))
                            else:
                                gen = VGen(None)
                                # `all(c in "<literal>" for c in X)`: remember the shape so that all() yields the predicate ALLCHARS(X)
                                el = e.elt
                                if (not g.ifs and isinstance(it, VStr) and isinstance(el, ast.Compare) and len(el.ops) == 1 and isinstance(el.ops[0], ast.In) and isinstance(el.left, ast.Name)
                                        and isinstance(g.target, ast.Name) and el.left.id == g.target.id and isinstance(el.comparators[0], ast.Constant) and isinstance(el.comparators[0].value, str)):
                                    gen.allin = (it, el.comparators[0].value)
                                outs.append((q5, gen))
                continue
            if items is None: raise Unsupported(f'comprehension over {it!r} at line {e.lineno}')
            saved = {n.id: q.env.get(n.id) for n in ast.walk(g.target) if isinstance(n, ast.Name)}
            live = [(q.fork(), [])]
            for x in items:
                nxt = []
                for q1, acc in live:
                    for q2, r in self.bind(g.target, x, q1, fr):
                        if isinstance(r, Raised): outs.append((q2, r)); continue
                        conds = [(q2, True)]
                        for c in g.ifs:
                            nc = []
                            for q3, keep in conds:
                                if not keep: nc.append((q3, keep)); continue
                                for q4, t in self.ev_truth(c, q3, fr):
                                    if isinstance(t, Raised): outs.append((q4, t)); continue
                                    for cond, kp in ((t, True), (z3.Not(t), False)):
                                        cond = z3.simplify(cond)
                                        if z3.is_false(cond): continue
                                        q5 = q4.fork(None if z3.is_true(cond) else cond)
                                        if z3.is_true(cond) or self.feasible(q5.pc): nc.append((q5, kp))
                            conds = nc
                        for q3, keep in conds:
                            if not keep: nxt.append((q3, acc)); continue
                            for q4, v in self.ev(e.elt, q3, fr):
                                if isinstance(v, Raised): outs.append((q4, v))
                                else: nxt.append((q4, acc + [v]))
                live = nxt
            for q1, acc in live:
                for n, old in saved.items():
                    if old is None: q1.env.pop(n, None)
                    else: q1.env[n] = old
                outs.append((q1, self.new_list(q1, acc) if isinstance(e, ast.ListComp) else VGen(acc)))
        return outs

    # ------------------------------------------------------------------ comparisons
    def ev_compare(self, e, p, fr):
        outs = []
        operands = [e.left] + list(e.comparators)
        def go(i, q, left, acc):
            if i == len(e.ops):
                outs.append((q, VBool(z3.And(acc) if len(acc) > 1 else acc[0]))); return
            for q1, right in self.ev(operands[i + 1], q, fr):
                if isinstance(right, Raised): outs.append((q1, right)); continue
                for q2, t in self.compare(e.ops[i], left, right, q1, e):
                    if isinstance(t, Raised): outs.append((q2, t)); continue
                    if i + 1 < len(e.ops):
                        # merged form: if the rest of the chain, evaluated under the assumption that this link holds,
                        # is a single boolean that cannot raise, the chain is the conjunction (no path split)
                        if i + 2 == len(e.ops) and isinstance(operands[i + 2], (ast.Constant, ast.Name)):
                            qa = Path(q2.pc + [t], q2.env, q2.heap, q2.trace)
                            r3 = self.ev(operands[i + 2], qa, fr)
                            if len(r3) == 1 and not isinstance(r3[0][1], Raised):
                                r4 = self.compare(e.ops[i + 1], right, r3[0][1], r3[0][0], e)
                                if len(r4) == 1 and not isinstance(r4[0][1], Raised):
                                    extra = list(r4[0][0].pc)[len(q2.pc) + 1:]
                                    if not extra or not self.feasible(qa.pc + [z3.Not(z3.And(extra))]):
                                        outs.append((q2, VBool(z3.And(acc + [t, r4[0][1]])))); continue
                        # short-circuit: chain stops when a link is false
                        ts = z3.simplify(t)
                        if not z3.is_true(ts):
                            qa = q2.fork(z3.Not(t))
                            if self.feasible(qa.pc): outs.append((qa, VBool(False)))
                        if not z3.is_false(ts):
                            qb = q2.fork(None if z3.is_true(ts) else t)
                            if z3.is_true(ts) or self.feasible(qb.pc): go(i + 1, qb, right, acc + [t])
                    else:
                        go(i + 1, q2, right, acc + [t])
        for q, left in self.ev(e.left, p, fr):
            if isinstance(left, Raised): outs.append((q, left)); continue
            go(0, q, left, [])
        return outs

    def compare(self, op, a, b, p, node):
        """-> list[(path, z3 Bool | Raised)]"""
        S = self.S
        if isinstance(a, VAny) or isinstance(b, VAny):
            # merge the alternatives that do not raise into ONE guarded boolean; split only for those that raise
            aa = a.alts if isinstance(a, VAny) else [(z3.BoolVal(True), a)]
            bb = b.alts if isinstance(b, VAny) else [(z3.BoolVal(True), b)]
            terms = []; ok_conds = []; outs = []
            for ca, va in aa:
                for cb, vb in bb:
                    cond = z3.simplify(z3.And(ca, cb))
                    if z3.is_false(cond): continue
                    if isinstance(va, (VOpt, VAny)) or isinstance(vb, (VOpt, VAny)):
                        q = p.fork(cond)
                        if self.feasible(q.pc): outs += self.compare(op, va, vb, q, node)
                        continue
                    res = self.compare(op, va, vb, p, node)
                    if len(res) == 1 and res[0][0] is p and not isinstance(res[0][1], Raised):
                        terms.append(z3.And(cond, res[0][1])); ok_conds.append(cond)
                    else:
                        q = p.fork(cond)
                        if self.feasible(q.pc): outs += self.compare(op, va, vb, q, node)
            if ok_conds:
                q = p.fork(z3.Or(ok_conds))
                if self.feasible(q.pc): outs.append((q, z3.Or(terms)))
            return outs
        if isinstance(a, VOpt) or isinstance(b, VOpt):
            outs = []
            for q, a1 in self.split_opt(p, a):
                for q2, b1 in self.split_opt(q, b):
                    outs += self.compare(op, a1, b1, q2, node)
            return outs
        if isinstance(a, VSpec) or isinstance(b, VSpec):
            return [(p, self.compare_special(op, a, b, node))]
        if isinstance(op, (ast.Is, ast.IsNot)):
            if isinstance(b, VNone) or isinstance(a, VNone):
                o = a if isinstance(b, VNone) else b
                if isinstance(o, VUnk): t = fresh(B, 'isnone')
                else: t = z3.BoolVal(isinstance(o, VNone))
            elif isinstance(a, VRef) and isinstance(b, VRef): t = z3.BoolVal(a.oid == b.oid)
            elif isinstance(a, VBool) and isinstance(b, VBool): t = a.t == b.t
            else: t = fresh(B, 'is')
            return [(p, t if isinstance(op, ast.Is) else z3.Not(t))]
        if isinstance(op, (ast.In, ast.NotIn)):
            t = self.contains(a, b, p, node)
            if isinstance(t, Raised): return [(p, t)]
            return [(p, t if isinstance(op, ast.In) else z3.Not(t))]
        if isinstance(a, VUnk) or isinstance(b, VUnk):
            outs = [(p, fresh(B, 'cmp'))]
            if self.opts.get('unk_raises', True) and not isinstance(op, (ast.Eq, ast.NotEq)):
                outs.append((p.fork(), Raised(VExc('TypeError', where=node.lineno))))
            return outs
        if isinstance(a, VFP) or isinstance(b, VFP):
            def fp(v):
                if isinstance(v, VFP): return v.t
                if isinstance(v, (VReal, VInt)):
                    sv = z3.simplify(v.t)
                    if _is_numeral(sv):
                        fr = sv.as_fraction() if z3.is_rational_value(sv) else None
                        val = float(fr) if fr is not None else float(sv.as_long())
                        # a float literal in the source IS the double nearest to its decimal text: float() of the text
                        return z3.FPVal(val, z3.Float64())
                raise Unsupported('mixed FP comparison')
            x, y = fp(a), fp(b)
            t = {ast.Lt: z3.fpLT, ast.LtE: z3.fpLEQ, ast.Gt: z3.fpGT, ast.GtE: z3.fpGEQ, ast.Eq: z3.fpEQ, ast.NotEq: z3.fpNEQ}[type(op)](x, y)
            return [(p, t)]
        if isinstance(op, (ast.Eq, ast.NotEq)):
            t = self.equal(a, b, p)
            return [(p, t if isinstance(op, ast.Eq) else z3.Not(t))]
        if is_num(a) and is_num(b):
            if isinstance(a, VInt) and isinstance(b, VInt): x, y = a.t, b.t
            else: x, y = num(a), num(b)
            return [(p, {ast.Lt: x < y, ast.LtE: x <= y, ast.Gt: x > y, ast.GtE: x >= y}[type(op)])]
        if isinstance(a, VStr) and isinstance(b, VStr):
            return [(p, fresh(B, 'strcmp'))]
        if isinstance(a, VTuple) and isinstance(b, VTuple):
            raise Unsupported('tuple ordering')
        return [(p, Raised(VExc('TypeError', where=node.lineno)))]

    def equal(self, a, b, p):
        if isinstance(a, VSpec) or isinstance(b, VSpec):
            if isinstance(a, VSpec) and isinstance(b, VSpec): return z3.BoolVal(a.kind == b.kind and a.kind != 'nan')
            return z3.BoolVal(False)
        if is_num(a) and is_num(b):
            if isinstance(a, VInt) and isinstance(b, VInt): return a.t == b.t
            if isinstance(a, VBool) and isinstance(b, VBool): return a.t == b.t
            return num(a) == num(b)
        if isinstance(a, VNone) or isinstance(b, VNone):
            return z3.BoolVal(isinstance(a, VNone) and isinstance(b, VNone))
        if isinstance(a, VStr) and isinstance(b, VStr):
            if a.lit is not None and b.lit is not None: return z3.BoolVal(a.lit == b.lit)
            return self.S.str_eq(a, b)
        ia, ib = self.items_of(a, p), self.items_of(b, p)
        if ia is not None and ib is not None:
            if isinstance(a, VTuple) != isinstance(b, VTuple): return z3.BoolVal(False)   # tuple != list
            if len(ia) != len(ib): return z3.BoolVal(False)
            return z3.And([self.equal(x, y, p) for x, y in zip(ia, ib)]) if ia else z3.BoolVal(True)
        if type(a) is not type(b) and not isinstance(a, (VUnk, VOpt)) and not isinstance(b, (VUnk, VOpt)):
            return z3.BoolVal(False)
        if isinstance(a, VRef) and isinstance(b, VRef): return z3.BoolVal(a.oid == b.oid)
        return fresh(B, 'eq')

    def compare_special(self, op, a, b, node):
        """IEEE semantics with a non-finite float operand -> z3 Bool | Raised"""
        if isinstance(op, (ast.Eq, ast.NotEq)):
            t = self.equal(a, b, None)
            return t if isinstance(op, ast.Eq) else z3.Not(t)
        other = b if isinstance(a, VSpec) else a
        if not (is_num(other) or isinstance(other, VSpec)):
            return Raised(VExc('TypeError', where=node.lineno))
        ka = a.kind if isinstance(a, VSpec) else 'fin'; kb = b.kind if isinstance(b, VSpec) else 'fin'
        if 'nan' in (ka, kb): return z3.BoolVal(False)
        rank = {'-inf': -1, 'fin': 0, 'inf': 1}
        ra, rb = rank[ka], rank[kb]
        if ra == rb:         # both +inf or both -inf
            return z3.BoolVal(isinstance(op, (ast.LtE, ast.GtE)))
        return z3.BoolVal({ast.Lt: ra < rb, ast.LtE: ra <= rb, ast.Gt: ra > rb, ast.GtE: ra >= rb}[type(op)])

    def binop_special(self, op, a, b, p, node):
        """arithmetic with a non-finite float operand: nan is absorbing; with an infinity the result is over-approximated
        by {nan, +inf, -inf, some finite float} (a superset of IEEE behaviour - sound for 'raises only' obligations);
        division / modulo by a zero raise ZeroDivisionError as for finite floats"""
        outs = []
        if isinstance(op, (ast.Div, ast.FloorDiv, ast.Mod)) and is_num(b):
            qz = p.fork(num(b) == 0)
            if self.feasible(qz.pc): outs.append((qz, Raised(VExc('ZeroDivisionError', where=node.lineno))))
            p = p.fork(num(b) != 0)
        ka = a.kind if isinstance(a, VSpec) else 'fin'; kb = b.kind if isinstance(b, VSpec) else 'fin'
        if 'nan' in (ka, kb): return outs + [(p, VSpec('nan'))]
        if isinstance(op, ast.Mod) and ka != 'fin': return outs + [(p, VSpec('nan'))]       # inf % y is nan
        k = fresh(I, 'ieee')      # which of the over-approximated outcomes: one value with alternatives, no path split
        return outs + [(p, VAny([(k == 0, VSpec('nan')), (k == 1, VSpec('inf')), (k == 2, VSpec('-inf')), (z3.Or(k < 0, k > 2), VReal(fresh(R, 'finite')))]))]

    def contains(self, a, b, p, node):
        S = self.S
        if isinstance(a, VAny) and isinstance(b, VRef) and b.cls == 'dict':
            return z3.Or([z3.And(c, self.contains(x, b, p, node)) for c, x in a.alts])
        if isinstance(a, VOpt) and isinstance(b, VRef) and b.cls == 'dict':
            return z3.If(a.isnone, self.contains(NONE, b, p, node), self.contains(a.inner, b, p, node))
        if isinstance(b, VGlobal) and b.pyval is not None and isinstance(a, VStr):
            if a.lit is not None: return z3.BoolVal(a.lit in b.pyval)
            return S.in_table(a, b)
        if isinstance(b, VStr) and isinstance(a, VStr):
            if a.lit is not None and b.lit is not None: return z3.BoolVal(a.lit in b.lit)
            return S.str_contains(b, a)
        items = self.items_of(b, p)
        if items is not None:
            return z3.Or([self.equal(a, x, p) for x in items]) if items else z3.BoolVal(False)
        if isinstance(b, VRef) and b.cls == 'dict':
            key = _const_key(a); cell = p.cell(b.oid)
            if key is not None and not cell.get('open'): return z3.BoolVal(key in cell.get('map', {}))
            if key is not None and key in cell.get('map', {}): return z3.BoolVal(True)
            if cell.get('open') and isinstance(a, (VStr, VNone)):
                # membership in a dict of unknown content: a predicate of (dict, its store version, key), shared with the subscript below
                return S.app(f"IN_DICT_{b.oid}_{cell.get('ver', 0)}", [a.code if isinstance(a, VStr) else z3.IntVal(-7)], B)
            return fresh(B, 'in_dict')
        if isinstance(b, VRef) and b.cls == 'set': return fresh(B, 'in_set')
        if isinstance(b, VUnk) or isinstance(a, VUnk): return fresh(B, 'in')
        raise Unsupported(f'`in` on {b!r} at line {node.lineno}')

    # ------------------------------------------------------------------ arithmetic
    def binop(self, op, a, b, p, node):
        if isinstance(a, VAny) or isinstance(b, VAny):
            return self.lift_alts(p, [a, b], lambda q, vs: self.binop(op, vs[0], vs[1], q, node))
        if isinstance(a, VOpt) or isinstance(b, VOpt):
            outs = []
            for q, a1 in self.split_opt(p, a):
                for q2, b1 in self.split_opt(q, b):
                    outs += self.binop(op, a1, b1, q2, node)
            return outs
        if (isinstance(a, VSpec) and (is_num(b) or isinstance(b, VSpec))) or (isinstance(b, VSpec) and is_num(a)):
            return self.binop_special(op, a, b, p, node)
        if isinstance(a, VUnk) or isinstance(b, VUnk):
            outs = [(p, VUnk('arith'))]
            if self.opts.get('unk_raises', True): outs.append((p.fork(), Raised(VExc('Exception?', where=node.lineno))))
            return outs
        if isinstance(a, VStr) and isinstance(b, VStr) and isinstance(op, ast.Add):
            return [(p, self.S.mk_concat([a, b]))]
        if isinstance(a, VStr) and isinstance(b, VInt) and isinstance(op, ast.Mult):
            n = _const_int(b)
            if a.lit is not None and n is not None: return [(p, VStr(lit=a.lit * n))]
            if n is not None: return [(p, self.S.mk_concat([a] * n))]
        if isinstance(a, VStr) and isinstance(op, ast.Mod):
            return [(p, VStr(code=fresh(I, 'fmtstr')))]
        if not (is_num(a) and is_num(b)):
            la, lb = self.items_of(a, p), self.items_of(b, p)
            if la is not None and lb is not None and isinstance(op, ast.Add) and type(a) is type(b):
                if isinstance(a, VTuple): return [(p, VTuple(la + lb))]
                q = p.fork(); return [(q, self.new_list(q, la + lb))]
            return [(p, Raised(VExc('TypeError', where=node.lineno)))]
        ints = isinstance(a, (VInt, VBool)) and isinstance(b, (VInt, VBool))
        def iv(v): return v.t if isinstance(v, VInt) else z3.If(v.t, 1, 0)
        if isinstance(op, ast.Add): return [(p, VInt(iv(a) + iv(b)) if ints else VReal(num(a) + num(b)))]
        if isinstance(op, ast.Sub): return [(p, VInt(iv(a) - iv(b)) if ints else VReal(num(a) - num(b)))]
        if isinstance(op, ast.Mult):
            if ints:
                if _is_numeral(iv(a)) or _is_numeral(iv(b)): return [(p, VInt(iv(a) * iv(b)))]
                return [(p, VInt(self.S.opaque_int('mul', [iv(a), iv(b)])))]
            x, y = num(a), num(b)
            if _is_numeral(z3.simplify(x)) or _is_numeral(z3.simplify(y)): return [(p, VReal(x * y))]
            if self.opts.get('exact_mul'): return [(p, VReal(x * y))]       # non-linear real arithmetic decided by z3 (small lemmas only)
            return [(p, VReal(self.S.opaque_real('mul', [x, y], commutative=True)))]
        if isinstance(op, ast.Div):
            x, y = num(a), num(b)
            ys = z3.simplify(y)
            outs = []
            if _is_numeral(ys):
                if ys.as_fraction() == 0: return [(p, Raised(VExc('ZeroDivisionError', where=node.lineno)))]
                return [(p, VReal(x / ys))]
            qz = p.fork(y == 0)
            if self.feasible(qz.pc): outs.append((qz, Raised(VExc('ZeroDivisionError', where=node.lineno))))
            qn = p.fork(y != 0)
            r = self.S.opaque_real('div', [x, y])
            # sign facts that keep order-only reasoning useful
            qn.pc = qn.pc + [z3.Implies(z3.And(x >= 0, y > 0), r >= 0), z3.Implies(x == 0, r == 0)]
            outs.append((qn, VReal(r)))
            return outs
        if isinstance(op, (ast.FloorDiv, ast.Mod)):
            outs = []
            if ints:
                y = iv(b)
                qz = p.fork(y == 0)
                if not _is_numeral(z3.simplify(y)) or z3.simplify(y).as_long() == 0:
                    if self.feasible(qz.pc): outs.append((qz, Raised(VExc('ZeroDivisionError', where=node.lineno))))
                qn = p.fork(y != 0)
                if _is_numeral(z3.simplify(y)) and z3.simplify(y).as_long() > 0:
                    # python floor semantics agree with SMT div/mod for positive divisors
                    r = iv(a) / y if isinstance(op, ast.FloorDiv) else iv(a) % y
                    outs.append((qn, VInt(r)))
                else:
                    outs.append((qn, VInt(self.S.opaque_int('fdiv' if isinstance(op, ast.FloorDiv) else 'mod', [iv(a), y]))))
                return outs
            x, y = num(a), num(b)
            ys = z3.simplify(y)
            r = self.S.opaque_real('fdiv' if isinstance(op, ast.FloorDiv) else 'mod', [x, y])
            if isinstance(op, ast.Mod): self.S.lfact(None, z3.Implies(y > 0, z3.And(r >= 0, r < y)))
            if _is_numeral(ys) and ys.as_fraction() != 0:
                return [(p, VReal(r))]
            qz = p.fork(y == 0)
            if self.feasible(qz.pc): outs.append((qz, Raised(VExc('ZeroDivisionError', where=node.lineno))))
            qn = p.fork(y != 0)
            outs.append((qn, VReal(r)))
            return outs
        if isinstance(op, ast.Pow):
            if ints and _is_numeral(z3.simplify(iv(a))) and _is_numeral(z3.simplify(iv(b))) and z3.simplify(iv(b)).as_long() >= 0:
                return [(p, VInt(z3.simplify(iv(a)).as_long() ** z3.simplify(iv(b)).as_long()))]
            return [(p, VReal(self.S.opaque_real('pow', [num(a), num(b)])))]
        raise Unsupported(f'binary operator {type(op).__name__}')

    # ------------------------------------------------------------------ subscripts / attributes
    def ev_subscript(self, e, p, fr):
        outs = []
        for q, base in self.ev(e.value, p, fr):
            if isinstance(base, Raised): outs.append((q, base)); continue
            for q0, base in self.split_opt(q, base):
                if isinstance(e.slice, ast.Slice):
                    lo = e.slice.lower and _static_int(e.slice.lower); hi = e.slice.upper and _static_int(e.slice.upper)
                    if (e.slice.lower is not None and lo is None) or (e.slice.upper is not None and hi is None) or e.slice.step is not None:
                        if isinstance(base, VStr): outs.append((q0, self.S.str_slice(base, None, None))); continue
                        raise Unsupported(f'symbolic slice at line {e.lineno}')
                    if isinstance(base, VStr):
                        if base.lit is not None: outs.append((q0, VStr(lit=base.lit[lo:hi])))
                        else: outs.append((q0, self.S.str_slice(base, lo, hi)))
                        continue
                    items = self.items_of(base, q0)
                    if items is None:
                        if isinstance(base, VUnk): outs.append((q0, VUnk('slice'))); continue
                        raise Unsupported(f'slice of {base!r} at line {e.lineno}')
                    if isinstance(base, VTuple): outs.append((q0, VTuple(items[lo:hi])))
                    else:
                        q1 = q0.fork(); outs.append((q1, self.new_list(q1, items[lo:hi])))
                    continue
                for q1, ix in self.ev(e.slice, q0, fr):
                    if isinstance(ix, Raised): outs.append((q1, ix)); continue
                    outs += self.subscript(base, ix, q1, e)
        return outs

    def subscript(self, base, ix, p, node):
        if isinstance(base, VUnk) or isinstance(ix, VUnk):
            outs = [(p, VUnk('sub'))]
            if self.opts.get('unk_raises', True): outs.append((p.fork(), Raised(VExc('Exception?', where=node.lineno))))
            return outs
        if isinstance(base, VSymSeq):
            i = _const_int(ix)
            if i == -1: return [(p, VReal(base.last))]
            raise Unsupported('symbolic sequence index')
        if isinstance(base, VNone): return [(p, Raised(VExc('TypeError', where=node.lineno)))]
        if isinstance(base, VGlobal) and base.pyval is not None and isinstance(ix, VStr):
            if ix.lit is not None:
                if ix.lit in base.pyval: return [(p, self.lift_const(base.pyval[ix.lit]))]
                return [(p, Raised(VExc('KeyError', where=node.lineno)))]
            return [(p, self.S.table_lookup(base, ix))]
        if isinstance(base, VStr):
            i = _const_int(ix)
            if base.lit is not None and i is not None:
                if -len(base.lit) <= i < len(base.lit): return [(p, VStr(lit=base.lit[i]))]
                return [(p, Raised(VExc('IndexError', where=node.lineno)))]
            return [(p, self.S.str_slice(base, i, None if i is None else i + 1))]
        if isinstance(base, VRef) and base.cls == 'dict':
            key = _const_key(ix); cell = p.cell(base.oid)
            if key is not None and key in cell.get('map', {}): return [(p, cell['map'][key])]
            if cell.get('open'):
                if isinstance(ix, (VStr, VNone)):
                    hit = self.S.app(f"IN_DICT_{base.oid}_{cell.get('ver', 0)}", [ix.code if isinstance(ix, VStr) else z3.IntVal(-7)], B)
                    outs = []
                    q2 = p.fork(hit)
                    if self.feasible(q2.pc): outs.append((q2, cell['mkval'](self, q2) if cell.get('mkval') else VUnk('dictval')))
                    q2 = p.fork(z3.Not(hit))
                    if self.feasible(q2.pc): outs.append((q2, Raised(VExc('KeyError', where=node.lineno))))
                    return outs
                return [(p, VUnk('dictval')), (p.fork(), Raised(VExc('KeyError', where=node.lineno)))]
            return [(p, Raised(VExc('KeyError', where=node.lineno)))]
        if isinstance(base, VRef) and base.cls == 'list' and p.cell(base.oid).get('items') is None and 'code' in p.cell(base.oid):
            cell = p.cell(base.oid); i = _const_int(ix)
            if i is None: raise Unsupported(f'symbolic index into a symbolic list at line {node.lineno}')
            outs = []
            bad = cell['len'] <= i if i >= 0 else cell['len'] < -i
            qb = p.fork(bad)
            if self.feasible(qb.pc): outs.append((qb, Raised(VExc('IndexError', where=node.lineno))))
            qg = p.fork(z3.Not(bad))
            if self.feasible(qg.pc): outs.append((qg, self.symlist_elem(cell, i if i >= 0 else cell['len'] + i)))
            return outs
        items = self.items_of(base, p)
        if items is not None:
            i = _const_int(ix)
            if i is None:
                if not isinstance(ix, VInt): return [(p, Raised(VExc('TypeError', where=node.lineno)))]
                raise Unsupported(f'symbolic index at line {node.lineno}')
            if -len(items) <= i < len(items): return [(p, items[i])]
            return [(p, Raised(VExc('IndexError', where=node.lineno)))]
        raise Unsupported(f'subscript of {base!r} at line {node.lineno}')

    def ev_attribute(self, e, p, fr):
        outs = []
        for q, o in self.ev(e.value, p, fr):
            if isinstance(o, Raised): outs.append((q, o)); continue
            for q0, o in self.split_opt(q, o):
                outs += self.getattr(o, e.attr, q0, e, fr)
        return outs

    def getattr(self, o, attr, p, node, fr):
        if isinstance(o, VModule):
            if o.name == 'math' and attr == 'pi': return [(p, VReal(self.S.const_real('pi')))]
            if o.name in self.prog.modules:
                return [(p, self.resolve_import(('sym', o.name, attr)))]
            return [(p, VFunc(builtin=f'{o.name}.{attr}'))]
        if isinstance(o, VRef) and o.cls not in ('list', 'dict', 'set'):
            cell = p.cell(o.oid)
            if attr in cell: return [(p, cell[attr])]
            cq = cell['__class__']
            mod, cname = cq.split(':')
            if mod == 're': return [(p, VFunc(builtin=f'<method>.{attr}', bound_self=o))]
            m = self.prog.modules.get(mod)
            if m and f'{cname}.{attr}' in m.funcs:
                fn = m.funcs[f'{cname}.{attr}']
                if any(isinstance(d, ast.Name) and d.id == 'property' for d in fn.decorator_list):
                    return self.call_function(VFunc(qual=f'{mod}:{cname}.{attr}', bound_self=o), [], {}, p, node, fr)
                return [(p, VFunc(qual=f'{mod}:{cname}.{attr}', bound_self=o))]
            if cell.get('__open__'):
                # the contract's object shape does not mention this field: its value is unknown (not an error)
                return [(p, VUnk(f'undeclared field {attr}'))]
            return [(p, Raised(VExc('AttributeError', where=node.lineno)))]
        if isinstance(o, (VRef, VStr, VTuple, VGlobal)):
            return [(p, VFunc(builtin=f'<method>.{attr}', bound_self=o))]
        if isinstance(o, VExc) and attr == 'args': return [(p, VUnk('exc.args'))]
        if isinstance(o, VUnk): return [(p, VUnk(f'attr.{attr}'))]
        if isinstance(o, VNone): return [(p, Raised(VExc('AttributeError', where=node.lineno)))]
        if isinstance(o, (VInt, VReal, VBool)): return [(p, Raised(VExc('AttributeError', where=node.lineno)))]
        if isinstance(o, VClass) and o.qual:
            mod, cname = o.qual.split(':')
            return [(p, VFunc(qual=f'{mod}:{cname}.{attr}'))]
        raise Unsupported(f'attribute {attr} of {o!r} at line {node.lineno}')

    # ------------------------------------------------------------------ calls
    def ev_call(self, e, p, fr):
        outs = []
        mark = len(self.S.pending)
        if any(isinstance(a, ast.Starred) for a in e.args) or any(k.arg is None for k in e.keywords):
            raise Unsupported(f'star-args call at line {e.lineno}')
        for q, f in self.ev(e.func, p, fr):
            if isinstance(f, Raised): outs.append((q, f)); continue
            for q1, args in self.evmany(e.args, q, fr):
                if isinstance(args, Raised): outs.append((q1, args)); continue
                for q2, kws in self.evmany([k.value for k in e.keywords], q1, fr):
                    if isinstance(kws, Raised): outs.append((q2, kws)); continue
                    kwargs = {k.arg: v for k, v in zip(e.keywords, kws)}
                    if len(self.S.pending) > mark:
                        q2 = q2.fork(); self.flush(q2, mark)      # facts about the argument values must be visible to the callee's pre-obligation
                    no_split = isinstance(f, (VFunc, VClass)) and getattr(f, 'builtin', None) is not None
                    if not no_split and (any(isinstance(a, VAny) for a in args) or any(isinstance(a, VAny) for a in kwargs.values())):
                        cases = [(q2, list(args), dict(kwargs))]
                        for i, a in enumerate(args):
                            if isinstance(a, VAny):
                                cases = [(q3, a2[:i] + [d] + a2[i + 1:], k2) for q0, a2, k2 in cases for q3, d in self.split_opt(q0, a)]
                        for kname, a in kwargs.items():
                            if isinstance(a, VAny):
                                cases = [(q3, a2, dict(k2, **{kname: d})) for q0, a2, k2 in cases for q3, d in self.split_opt(q0, a)]
                        for q3, a2, k2 in cases: outs += self.call_function(f, a2, k2, q3, e, fr)
                        continue
                    outs += self.call_function(f, args, kwargs, q2, e, fr)
        return outs

    def call_function(self, f, args, kwargs, p, node, fr):
        from . import builtins_model as bm
        if isinstance(f, VUnk):
            return self.opaque_call(f'<unknown {f.why}>', p, node)
        if isinstance(f, VClass):
            if f.builtin:
                if f.builtin in EXC_PARENTS:
                    return [(p, VExc(f.builtin, msg=args[0] if args else None, where=node.lineno))]
                return bm.call_builtin(self, f.builtin, None, args, kwargs, p, node, fr)
            c = self.reg.get(f.qual + '.__init__')
            if c is not None and not self.is_current(c):
                return self.apply_contract(c, args, kwargs, p, node, fr, ctor=f.qual)
            return self.instantiate(f.qual, args, kwargs, p, node, fr)
        if not isinstance(f, VFunc):
            return [(p, Raised(VExc('TypeError', where=node.lineno)))]
        if f.builtin:
            return bm.call_builtin(self, f.builtin, f.bound_self, args, kwargs, p, node, fr)
        if f.qual:
            wr = self.prog.wrapped_by(f.qual)
            if wr: raise Unsupported(f'call of {f.qual}, which is wrapped by decorator(s) {wr}: its contract / body is not what the call reaches')
            c = self.reg.get(f.qual)
            full_args = ([f.bound_self] if f.bound_self is not None else []) + list(args)
            if c is not None and not self.is_current(c):
                return self.apply_contract(c, full_args, kwargs, p, node, fr)
            if self.reg.is_inline(f.qual) or (c is not None and self.is_current(c) and False):
                fn, m = self.prog.func(f.qual)
                return self.inline(fn, m, f.qual, full_args, kwargs, p, node, None)
            if c is not None and self.is_current(c):
                # recursive call of the function under verification: use its own contract
                return self.apply_contract(c, full_args, kwargs, p, node, fr)
            # a function of the package without a contract (typically a helper split off by a refactoring): its real body is executed in place
            # when it is straight-line / branching code; anything bigger must get a contract - the caller is undecided, not "violating"
            try: fn2, m2 = self.prog.func(f.qual)
            except KeyError: return self.opaque_call(f.qual, p, node)
            if _simple_body(fn2) and self.depth < 8 and f.qual != fr.qual:
                self.assume_note(f'{f.qual.split(":")[1]} has no contract: its body is executed in place (inlined)')
                return self.inline(fn2, m2, f.qual, full_args, kwargs, p, node, None)
            raise Unsupported(f'call of {f.qual}: no contract and not simple enough to execute in place')
        # closure
        if f.node is not None:
            cq = f'{fr.qual}.<locals>.{f.node.name}'
            cc = self.reg.get(cq)
            if cc is not None and not self.is_current(cc):
                return self.apply_contract(cc, list(args), kwargs, p, node, fr)
            if self.opts.get('inline_closures', False) or getattr(fr.contract, 'inline_closures', False):
                return self.inline(f.node, f.mod, f'{fr.qual}.<locals>.{f.node.name}', list(args), kwargs, p, node, Closure(f.closure, fr.closure))
            return self.opaque_call(f'closure {f.node.name}', p, node)
        raise Unsupported(f'call of {f!r}')

    def is_current(self, c):
        return self.cur_contract is not None and c.qual == self.cur_contract.qual and self.depth == 0

    def opaque_call(self, what, p, node):
        self.assume_note(f'unmodelled call: {what} (result unknown, may raise)')
        if not what.startswith('closure ') and hasattr(self, 'effect'):
            p = p.fork(); self.effect(f'call:{what}', node, p)       # an unmodelled call may do anything, including output
        outs = [(p, VUnk(f'call {what}'))]
        if self.opts.get('unk_raises', True):
            outs.append((p.fork(), Raised(VExc('Exception?', where=getattr(node, 'lineno', None)))))
        return outs

    def bind_args(self, fn, args, kwargs, p, mod, qual):
        """-> dict name->V  (defaults evaluated as constants)"""
        a = fn.args
        if a.vararg or a.kwarg or a.posonlyargs or a.kwonlyargs: raise Unsupported(f'signature of {qual}')
        names = [x.arg for x in a.args]
        if len(args) > len(names): return None
        env = dict(zip(names, args))
        for k, v in kwargs.items():
            if k not in names or k in env: return None
            env[k] = v
        defaults = dict(zip(names[len(names) - len(a.defaults):], a.defaults))
        for n in names:
            if n not in env:
                if n not in defaults: return None
                d = defaults[n]
                if isinstance(d, ast.Constant): env[n] = self.lift_const(d.value)
                elif isinstance(d, ast.Tuple) and all(isinstance(x, ast.Constant) for x in d.elts):
                    env[n] = VTuple([self.lift_const(x.value) for x in d.elts])
                else: raise Unsupported(f'default of {n} in {qual}')
        return env

    def inline(self, fn, mod, qual, args, kwargs, p, node, closure):
        if self.depth > 12: raise Unsupported(f'inline depth at {qual}')
        env = self.bind_args(fn, args, kwargs, p, mod, qual)
        if env is None: return [(p, Raised(VExc('TypeError', where=getattr(node, 'lineno', None))))]
        fr2 = Frame(qual, fn, mod, None, closure)
        fr2.argns = Namespace(dict(env), p)
        caller_env = p.env
        self.depth += 1
        try:
            outs = []
            for k, q, v in self.block(fn.body, Path(p.pc, env, p.heap, p.trace), fr2):
                q2 = Path(q.pc, dict(caller_env), q.heap, q.trace)
                if k == 'ret': outs.append((q2, v))
                elif k == 'fall': outs.append((q2, NONE))
                elif k == 'exc': outs.append((q2, Raised(v)))
                else: raise Unsupported(f'{k} escaping function {qual}')
            return self.merge_returns(p, caller_env, outs)
        finally:
            self.depth -= 1

    def merge_returns(self, p, caller_env, outs):
        """path merging at the return of an inlined function: the normal returns that only ADD conditions to the caller's
        path (same heap) become ONE path whose value is a VAny guarded by those conditions"""
        rets = [(q, v) for q, v in outs if not isinstance(v, Raised)]
        if len(rets) < 2: return outs
        pieces = []
        for q, v in rets:
            extra = _pc_suffix(p.pc, q.pc)
            if extra is None or (q.heap is not p.heap and q.heap != p.heap) or isinstance(v, (VRef, VFunc)): return outs
            pieces.append((z3.And(extra) if extra else z3.BoolVal(True), v))
        alts = []
        for c, v in pieces:
            if isinstance(v, VAny): alts += [(z3.And(c, c2), v2) for c2, v2 in v.alts]
            else: alts.append((c, v))
        qm = Path(p.pc + [z3.Or([c for c, _ in pieces])], dict(caller_env), p.heap, p.trace)
        alts = coalesce(alts)
        return [(qm, alts[0][1] if len(alts) == 1 else VAny(alts))] + [(q, v) for q, v in outs if isinstance(v, Raised)]

    def instantiate(self, cqual, args, kwargs, p, node, fr):
        mod, cname = cqual.split(':')
        m = self.prog.modules[mod]
        q = p.fork()
        ref = VRef(q.alloc({'__class__': cqual}), cqual)
        if f'{cname}.__init__' in m.funcs:
            res = []
            for q2, v in self.inline(m.funcs[f'{cname}.__init__'], m, f'{cqual}.__init__', [ref] + list(args), kwargs, q, node, None):
                res.append((q2, v if isinstance(v, Raised) else ref))
            return res
        return [(q, ref)]

    def apply_contract(self, c, args, kwargs, p, node, fr, ctor=None):
        fn, m = self.prog.func(c.qual)
        if ctor:
            args = [VUnk('self')] + list(args)
        env = self.bind_args(fn, args, kwargs, p, m, c.qual)
        if env is None: return [(p, Raised(VExc('TypeError', where=getattr(node, 'lineno', None))))]
        # resolve optional arguments so that contracts see definite values
        cases = [(p, env)]
        for n, v in list(env.items()):
            if isinstance(v, VOpt):
                nxt = []
                for q, e2 in cases:
                    for q2, d in self.split_opt(q, v):
                        e3 = dict(e2); e3[n] = d; nxt.append((q2, e3))
                cases = nxt
        outs = []
        for q, e2 in cases:
            ns = Namespace(e2, q)
            site = f'{c.short}@L{getattr(node, "lineno", 0)}'
            try:
                pre = c.pre(self.S, ns) if c.pre else None
            except (AssertionError, AttributeError, TypeError, IndexError):
                pre = z3.BoolVal(False)       # the arguments do not even have the shape the callee's contract speaks about
            if pre is not None:
                self.oblige(f'call[{c.short}]/pre', q.pc, pre, kind='pre', site=site)
                q = q.fork(pre)
            outs += c.apply(self, q, ns, node, ctor=ctor)
        return outs


class VRange(V):
    k = 'range'
    def __init__(self, n): self.n = n


class VEnum(V):
    k = 'enumerate'
    def __init__(self, inner, start=0): self.inner, self.start = inner, start


class VGen(V):
    """result of a generator expression over a concrete-length iterable (already evaluated)"""
    k = 'gen'
    def __init__(self, xs): self.xs = xs


class VGlobal(V):
    """an immutable module-level constant that is not a scalar (e.g. the named-colour table)"""
    k = 'global'
    def __init__(self, name, pyval=None): self.name, self.pyval = name, pyval


class Closure:
    def __init__(self, env, parent): self.env, self.parent = env, parent


ROLE_ALIASES = {}       # contract's name of a loop variable -> its spelling in the source under verification (identity unless renamed)
ROLE_REV = {}


def _simple_body(fn):
    """straight-line / branching code without loops, try, with, nested defs, yield; at most 40 statements"""
    n = 0
    for x in ast.walk(fn):
        if x is fn: continue
        if isinstance(x, (ast.For, ast.While, ast.Try, ast.With, ast.FunctionDef, ast.Lambda, ast.Yield, ast.YieldFrom, ast.ClassDef, ast.Global, ast.Nonlocal)): return False
        if isinstance(x, ast.stmt): n += 1
    return n <= 40


def own_for_loops(fn):
    """the function's own `for` statements in source order (not those of nested functions)"""
    out = []
    def walk(stmts):
        for st in stmts:
            if isinstance(st, (ast.FunctionDef, ast.ClassDef)): continue
            if isinstance(st, ast.For): out.append(st)
            for f in ('body', 'orelse', 'finalbody'):
                if hasattr(st, f): walk(getattr(st, f))
            for h in getattr(st, 'handlers', []): walk(h.body)
    walk(fn.body)
    return out


def _stores(stmts, skip_defs=True):
    names = []
    def walk(n):
        if skip_defs and isinstance(n, (ast.FunctionDef, ast.Lambda, ast.ClassDef)): return
        if isinstance(n, ast.Name) and isinstance(n.ctx, ast.Store) and n.id not in names: names.append(n.id)
        for c in ast.iter_child_nodes(n): walk(c)
    for st in stmts: walk(st)
    return names


def set_role_aliases(fn, loopspecs):
    """see LoopSpec.roles"""
    ROLE_ALIASES.clear(); ROLE_REV.clear()
    loops = own_for_loops(fn)
    for l in loopspecs:
        if not l.roles or l.pos is None or l.pos >= len(loops): continue
        lp = loops[l.pos]
        before = []
        def pre(stmts):
            for st in stmts:
                if st is lp: return True
                if isinstance(st, (ast.FunctionDef, ast.ClassDef)): continue
                if any(x is lp for x in ast.walk(st)):
                    for f in ('body', 'orelse', 'finalbody'):
                        if hasattr(st, f) and pre(getattr(st, f)): return True
                    return True
                for nme in _stores([st]):
                    if nme not in before: before.append(nme)
            return False
        pre(fn.body)
        tnames = [x.id for x in ast.walk(lp.target) if isinstance(x, ast.Name)]
        inside = _stores(lp.body)
        carried = [n for n in before if n in inside and n not in tnames]
        local = [n for n in inside if n not in before and n not in tnames]
        appended = [n for n in _appended_names(lp) if n in before]
        for roles, actual in ((l.roles.get('carried', []), carried), (l.roles.get('local', []), local), (l.roles.get('appended', []), appended)):
            if len(roles) == len(actual):
                present = set(_stores(fn.body, skip_defs=False)) | {x.arg for x in fn.args.args}
                for r, a in zip(roles, actual):
                    # an alias only for a genuine rename: the contract's name does not occur in the function at all, and the actual
                    # name is not another role's name (a mere re-ordering of initialisations keeps the names and needs no alias)
                    if r != a and r not in present and a not in roles: ROLE_ALIASES[r] = a; ROLE_REV[a] = r


class Namespace:
    """read access to variables for contract code (args / loop state)"""
    def __init__(self, env, path): self.__dict__['_env'] = env; self.__dict__['_path'] = path
    def __getattr__(self, n):
        try: return self._env[n]
        except KeyError:
            a = ROLE_ALIASES.get(n)
            if a is not None and a in self._env: return self._env[a]
            raise AttributeError(n)
    def has(self, n): return n in self._env or ROLE_ALIASES.get(n) in self._env


class Frame:
    def __init__(self, qual, fn, mod, contract, closure=None):
        self.qual, self.fn, self.mod, self.contract, self.closure = qual, fn, mod, contract, closure
        self.handling = None
        self.argns = None
        self.local_names = set(_assigned_names(fn))
        rets = sorted((n for n in ast.walk(fn) if isinstance(n, ast.Return)), key=lambda n: (n.lineno, n.col_offset))
        self.ret_ids = {id(n): i + 1 for i, n in enumerate(rets)}
        self._loops = {}
        for n in ast.walk(fn):
            if isinstance(n, ast.For):
                h = ast.unparse(n.iter)
                self._loops.setdefault(h, []).append(n)
        for h in self._loops: self._loops[h].sort(key=lambda n: (n.lineno, n.col_offset))
    def loop_spec(self, st, hdr):
        if self.contract is None: return None
        ordn = [id(n) for n in self._loops[hdr]].index(id(st))
        own = [id(n) for n in own_for_loops(self.fn)]
        return self.contract.loop(hdr, ordn, own.index(id(st)) if id(st) in own else None)


def coalesce(alts):
    """alternatives of the same Python type are joined into ONE alternative whose value is an if-then-else term
    (exact: no information is lost); keeps later products over alternatives small"""
    groups = {}; order = []
    for c, v in alts:
        if isinstance(v, VReal): k = 'real'
        elif isinstance(v, VInt): k = 'int'
        elif isinstance(v, VBool): k = 'bool'
        elif isinstance(v, VSpec): k = 'spec:' + v.kind
        elif isinstance(v, VNone): k = 'none'
        elif isinstance(v, VStr): k = 'str'          # literal / constructor knowledge is dropped when strings are joined (more general: sound)
        else: k = ('other', id(v))
        if k not in groups: groups[k] = []; order.append(k)
        groups[k].append((c, v))
    out = []
    for k in order:
        g = groups[k]
        if len(g) == 1 or not isinstance(k, str): out += g; continue
        cond = z3.Or([c for c, _ in g])
        if k in ('real', 'int', 'bool'):
            t = g[-1][1].t
            for c, v in reversed(g[:-1]): t = z3.If(c, v.t, t)
            out.append((cond, type(g[0][1])(t)))
        elif k == 'str':
            t = g[-1][1].code
            for c, v in reversed(g[:-1]): t = z3.If(c, v.code, t)
            out.append((cond, VStr(code=t)))
        else: out.append((cond, g[0][1]))
    return out


def mk_any(alts):
    alts = coalesce(alts)
    return alts[0][1] if len(alts) == 1 and z3.is_true(z3.simplify(alts[0][0])) else VAny(alts)


def _pc_suffix(base, pc):
    """conditions that `pc` adds to `base` (both persistent lists), or None if pc does not extend base"""
    extra = []; c = pc
    while c is not base:
        if c is None or c.cond is None:
            return None if base.cond is not None or base.n != 0 else list(reversed(extra))
        extra.append(c.cond); c = c.parent
    return list(reversed(extra))


def _alts(x):
    """loop element alternatives: a value, or a list of (value, [facts])"""
    if isinstance(x, list): return x
    return [(x, [])]


def _appended_names(st):
    out = []
    for n in ast.walk(st):
        if isinstance(n, ast.Call) and isinstance(n.func, ast.Attribute) and n.func.attr in ('append', 'extend', 'insert') and isinstance(n.func.value, ast.Name):
            if n.func.value.id not in out: out.append(n.func.value.id)
    return out


def _stored_bases(st):
    """names of the objects a loop body writes through `x[...] = / x[...] op= / x.attr =` (None: the object is computed)"""
    out = []
    def tgt(t):
        if isinstance(t, (ast.Subscript, ast.Attribute)):
            b = t.value
            while isinstance(b, (ast.Subscript, ast.Attribute)): b = b.value
            nm = b.id if isinstance(b, ast.Name) else None
            if nm not in out: out.append(nm)
        elif isinstance(t, (ast.Tuple, ast.List)):
            for x in t.elts: tgt(x)
    for n in ast.walk(st):
        if isinstance(n, ast.Assign):
            for t in n.targets: tgt(t)
        elif isinstance(n, (ast.AugAssign, ast.AnnAssign)): tgt(n.target)
    return out


def _inv_parts(inv):
    if isinstance(inv, dict): return list(inv.items())
    return [('inv', inv)]


def _handler_names(h):
    if h.type is None: return None
    if isinstance(h.type, ast.Name): return [h.type.id]
    if isinstance(h.type, ast.Tuple): return [x.id for x in h.type.elts if isinstance(x, ast.Name)]
    raise Unsupported('except clause')


def _match_any(typ, names):
    res = False
    for n in names:
        m = exc_matches(typ, n)
        if m is True: return True
        if m is None: res = None
    return res


def _assigned_names(st):
    names = []
    def targets(t):
        if isinstance(t, ast.Name): names.append(t.id)
        elif isinstance(t, (ast.Tuple, ast.List)):
            for x in t.elts: targets(x)
    for n in ast.walk(st):
        if isinstance(n, ast.Assign):
            for t in n.targets: targets(t)
        elif isinstance(n, (ast.AugAssign, ast.AnnAssign)): targets(n.target)
        elif isinstance(n, ast.For) : targets(n.target)
        elif isinstance(n, ast.FunctionDef) and n is not st: names.append(n.name)
        elif isinstance(n, ast.ExceptHandler) and n.name: names.append(n.name)
        elif isinstance(n, (ast.Import, ast.ImportFrom)):
            for a in n.names: names.append(a.asname or a.name.split('.')[0])
        elif isinstance(n, ast.With):
            for it in n.items:
                if it.optional_vars is not None: targets(it.optional_vars)
    seen = []
    for n in names:
        if n not in seen: seen.append(n)
    return seen


def _as_load(t):
    t2 = ast.parse(ast.unparse(t), mode='eval').body
    return t2


def _is_numeral(t):
    return z3.is_int_value(t) or z3.is_rational_value(t)


def _const_int(v):
    if isinstance(v, VInt):
        s = z3.simplify(v.t)
        if z3.is_int_value(s): return s.as_long()
    return None


def _static_int(e):
    try:
        v = ast.literal_eval(e)
        return v if isinstance(v, int) else None
    except Exception:
        return None


def _const_key(v):
    if isinstance(v, VStr) and v.lit is not None: return v.lit
    i = _const_int(v) if isinstance(v, VInt) else None
    return i
