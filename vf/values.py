"""Symbolic values of engine A (tagged union, leaves are z3 terms).  See DESIGN §3 'Dynamic typing'."""
from __future__ import annotations
import itertools
import z3

I, R, B = z3.IntSort(), z3.RealSort(), z3.BoolSort()
_fresh = itertools.count()


def fresh(sort, name='v'):
    return z3.Const(f'{name}!{next(_fresh)}', sort)


class V:
    k = '?'
    def __repr__(self):
        return f'<{self.k} {getattr(self, "t", "")}>'


class VInt(V):
    k = 'int'
    def __init__(self, t): self.t = t if z3.is_expr(t) else z3.IntVal(t)


class VBool(V):
    k = 'bool'
    def __init__(self, t): self.t = t if z3.is_expr(t) else z3.BoolVal(bool(t))


class VReal(V):
    """a Python float treated as a real (order-only / real arithmetic, DESIGN §3).  `special` marks the
    literal float('inf')/nan created by float("inf") so that contracts can talk about it if they need to."""
    k = 'real'
    def __init__(self, t, special=None):
        if isinstance(t, float): t = z3.RealVal(repr(t))
        elif isinstance(t, int): t = z3.RealVal(t)
        self.t = t; self.special = special


class VFP(V):
    """an IEEE-754 binary64 value treated bit-precisely (z3 FloatingPoint theory): every double incl. NaN / +-inf.
    Only comparisons are supported (DESIGN section 3, treatment 2)."""
    k = 'fp64'
    def __init__(self, t): self.t = t


class VNone(V):
    k = 'none'
    def __repr__(self): return '<none>'
NONE = VNone()


_lit_ids = {}
_lit_by_id = {}
def lit_code(s: str) -> int:
    if s not in _lit_ids:
        _lit_ids[s] = len(_lit_ids) + 1
        _lit_by_id[_lit_ids[s]] = s
    return _lit_ids[s]


class VStr(V):
    """a str.  `code` is an Int term identifying the string (literals are interned to distinct numerals, so
    equality of strings is equality of codes); `lit` is the Python text when known; `sym` is an abstract
    constructor when the string was produced by a contracted formatter: ('rgbstr', VTuple) /
    ('fmt', VTuple, VStr) / ('fstr', [parts]) / ('esc', VStr)."""
    k = 'str'
    def __init__(self, lit=None, code=None, sym=None):
        self.lit, self.sym = lit, sym
        if code is None:
            code = z3.IntVal(lit_code(lit)) if lit is not None else fresh(I, 'str')
        self.code = code
    def __repr__(self): return f'<str {self.lit!r} {self.sym and self.sym[0]}>'


class VTuple(V):
    k = 'tuple'
    def __init__(self, xs): self.xs = list(xs)
    def __repr__(self): return f'<tuple {self.xs}>'


class VOpt(V):
    """None if `isnone` else `inner` (only produced by havoc / parameters; resolved by path split on first read)"""
    k = 'opt'
    def __init__(self, isnone, inner): self.isnone, self.inner = isnone, inner
    def __repr__(self): return f'<opt {self.isnone} {self.inner}>'


class VAny(V):
    """one of several alternatives, each under a guard (mutually exclusive, exhaustive); resolved by path split at first use"""
    k = 'any'
    def __init__(self, alts): self.alts = list(alts)
    def __repr__(self): return f'<any {[type(v).__name__ for _, v in self.alts]}>'


class VSpec(V):
    """a Python float that is not finite: 'nan', 'inf' or '-inf' (DESIGN section 3, tagged floats)"""
    k = 'fspecial'
    def __init__(self, kind): self.kind = kind
    def __repr__(self): return f'<float {self.kind}>'


class VRef(V):
    """pointer to a mutable heap cell: list / dict / instance"""
    k = 'ref'
    def __init__(self, oid, cls): self.oid, self.cls = oid, cls
    def __repr__(self): return f'<ref {self.cls}#{self.oid}>'


class VSymSeq(V):
    """an immutable symbolic sequence of reals of unknown length (tolerance schedules): `ident` is an
    uninterpreted constant standing for the whole sequence, MAXOF(ident) bounds every element."""
    k = 'symseq'
    def __init__(self, ident, maxof, last): self.ident, self.maxof, self.last = ident, maxof, last


class VFunc(V):
    k = 'func'
    def __init__(self, qual=None, node=None, closure=None, mod=None, bound_self=None, builtin=None):
        self.qual, self.node, self.closure, self.mod, self.bound_self, self.builtin = qual, node, closure, mod, bound_self, builtin
    def __repr__(self): return f'<func {self.qual or self.builtin or (self.node and self.node.name)}>'


class VClass(V):
    k = 'class'
    def __init__(self, qual=None, builtin=None): self.qual, self.builtin = qual, builtin
    def __repr__(self): return f'<class {self.qual or self.builtin}>'


class VModule(V):
    k = 'module'
    def __init__(self, name): self.name = name


class VUnk(V):
    """a value about which nothing is known (result of an unmodelled call, havocked scratch variable)"""
    k = 'unk'
    def __init__(self, why=''): self.why = why
    def __repr__(self): return f'<unk {self.why}>'


class VExc(V):
    k = 'exc'
    def __init__(self, typ, msg=None, where=None): self.typ, self.msg, self.where = typ, msg, where
    def __repr__(self): return f'<exc {self.typ} @{self.where}>'


# ------------------------------------------------------------------ shapes (for fresh values / havoc)
def fresh_of(shape, name='h'):
    if shape == 'int': return VInt(fresh(I, name))
    if shape == 'real': return VReal(fresh(R, name))
    if shape == 'fp64': return VFP(z3.Const(f'{name}!{next(_fresh)}', z3.Float64()))
    if shape == 'bool': return VBool(fresh(B, name))
    if shape == 'none': return NONE
    if shape == 'str': return VStr(code=fresh(I, name))
    if shape == 'unk': return VUnk(name)
    if shape == 'rgb': return VTuple([VInt(fresh(I, name)) for _ in range(3)])
    if shape == 'real3': return VTuple([VReal(fresh(R, name)) for _ in range(3)])
    if isinstance(shape, tuple) and shape[0] == 'tuple': return VTuple([fresh_of(s, name) for s in shape[1]])
    if isinstance(shape, tuple) and shape[0] == 'opt': return VOpt(fresh(B, name + '_isnone'), fresh_of(shape[1], name))
    raise ValueError(f'unknown shape {shape}')


def shape_of(v):
    if isinstance(v, VInt): return 'int'
    if isinstance(v, (VReal, VSpec)): return 'real'      # a havocked float: any real over-approximates +-inf for order tests
    if isinstance(v, VBool): return 'bool'
    if isinstance(v, VNone): return 'none'
    if isinstance(v, VStr): return 'str'
    if isinstance(v, VTuple): return ('tuple', tuple(shape_of(x) for x in v.xs))
    if isinstance(v, VOpt): return ('opt', shape_of(v.inner))
    return 'unk'


def leaves(v):
    """z3 leaves of a value, with a shape signature, for pure function symbols"""
    if isinstance(v, (VInt, VReal, VBool)): return [v.t], v.k
    if isinstance(v, VNone): return [], 'N'
    if isinstance(v, VStr): return [v.code], 's'
    if isinstance(v, VTuple):
        ts, sig = [], []
        for x in v.xs:
            a, b = leaves(x); ts += a; sig.append(b)
        return ts, '(' + ','.join(sig) + ')'
    if isinstance(v, VOpt):
        a, b = leaves(v.inner); return [v.isnone] + a, '?' + b
    if isinstance(v, VSymSeq): return [v.ident], 'Q'
    raise TypeError(f'no leaves for {v!r}')


def num(v):
    """numeric value as a Real term"""
    if isinstance(v, VInt): return z3.ToReal(v.t)
    if isinstance(v, VReal): return v.t
    if isinstance(v, VBool): return z3.If(v.t, z3.RealVal(1), z3.RealVal(0))
    raise TypeError(f'not numeric: {v!r}')


def is_num(v): return isinstance(v, (VInt, VReal, VBool))


def any_element(name='el', int_bound=10 ** 6, S=None):
    """an element of the C14 input domain: int of moderate magnitude, bool, finite float, nan, +-inf, str, None"""
    t = fresh(I, name + '_tag')
    n = fresh(I, name + '_int'); r = fresh(R, name + '_flt')
    if S is not None: S.fact(f'{name}-moderate-int', z3.And(n >= -int_bound, n <= int_bound))      # "ints of moderate magnitude"
    alts = [(t == 0, VInt(n)), (t == 1, VBool(fresh(B, name + '_bool'))), (t == 2, VReal(r)), (t == 3, VSpec('nan')),
            (t == 4, VSpec('inf')), (t == 5, VSpec('-inf')), (t == 6, VStr(code=fresh(I, name + '_str'))), (z3.Or(t < 0, t > 6), NONE)]
    return VAny(alts)
